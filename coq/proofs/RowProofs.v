(* C06 — a row behaves as a map that remembers first-insertion order: invariant of the
   concrete row (key list + map), refinement to an association list, one "store" lemma
   per mutator, lift to every history. *)
From Coq Require Import ZArith List Bool Lia.
From JL.std Require Import GoBase GoFloat GoStrconv GoTime GoVal.
From JL.gen Require Import CastGen ConvGen.
From JL.model Require Import CastRun Row RowRun.
Import ListNotations.
Open Scope Z_scope.

(* ---------- association lists ---------- *)
Lemma str_eqb_neq a b : a <> b -> str_eqb a b = false.
Proof. intros H. destruct (str_eqb a b) eqn:E; [apply str_eqb_eq in E; contradiction | reflexivity]. Qed.

Lemma alookup_aset_same {A} k (v : A) m : alookup k (aset k v m) = Some v.
Proof.
  induction m as [|[k' v'] m IH]; cbn.
  - now rewrite str_eqb_refl.
  - destruct (str_eqb k k') eqn:E; cbn; rewrite ?str_eqb_refl, ?E; auto.
Qed.

Lemma alookup_aset_other {A} k k' (v : A) m : k <> k' -> alookup k' (aset k v m) = alookup k' m.
Proof.
  intros Hn. induction m as [|[k2 v2] m IH]; cbn.
  - rewrite str_eqb_neq; auto.
  - destruct (str_eqb k k2) eqn:E; cbn.
    + apply str_eqb_eq in E; subst k2. rewrite (str_eqb_neq k' k); auto.
    + destruct (str_eqb k' k2); auto.
Qed.

Lemma ahas_aset {A} k k' (v : A) m : ahas k' (aset k v m) = (str_eqb k k' || ahas k' m).
Proof.
  unfold ahas. destruct (str_eqb k k') eqn:E.
  - apply str_eqb_eq in E; subst. now rewrite alookup_aset_same.
  - rewrite alookup_aset_other; [reflexivity|]. intros ->. now rewrite str_eqb_refl in E.
Qed.

Lemma NoDup_app_intro_single {A} (l : list A) k : NoDup l -> ~ In k l -> NoDup (l ++ [k]).
Proof.
  induction l as [|x l IH]; cbn; intros Hnd Hn; [repeat constructor; auto|].
  inversion Hnd as [|? ? Hx Hl]; subst. constructor.
  - rewrite in_app_iff. cbn. intros [H|[H|[]]]; auto.
  - apply IH; auto.
Qed.

(* ---------- the invariant ---------- *)
Definition Inv (r : crow) : Prop :=
  NoDup (row_l r) /\ forall k, In k (row_l r) <-> ahas k (row_m r) = true.

Lemma Inv_new : Inv new_row.
Proof. split; [constructor|]. intros k; cbn. split; [tauto | discriminate]. Qed.

(* the abstract row: keys in first-insertion order with the value each currently maps to *)
Definition abs (r : crow) : list (str * option cell) := iter_values r.

(* abstract store: replace in place, or append *)
Fixpoint astore (k : str) (c : cell) (a : list (str * option cell)) : list (str * option cell) :=
  match a with
  | [] => [(k, Some c)]
  | (k', v) :: t => if str_eqb k k' then (k', Some c) :: t else (k', v) :: astore k c t
  end.

(* storing a cell under a key: what every single-key mutator does to the concrete row *)
Definition store (k : str) (c : cell) (r : crow) : crow := set_cell k c (push_if_absent k r).

Lemma store_l k c r :
  row_l (store k c r) = if row_has k r then row_l r else row_l r ++ [k].
Proof. destruct r as [m l]. unfold store, row_has, push_if_absent; cbn. destruct (ahas k m); reflexivity. Qed.

Lemma store_m k c r : row_m (store k c r) = aset k c (row_m r).
Proof. destruct r as [m l]. unfold store, push_if_absent; cbn. destruct (ahas k m); reflexivity. Qed.

Lemma Inv_store k c r : Inv r -> Inv (store k c r).
Proof.
  intros [Hnd Hin]. split.
  - rewrite store_l. unfold row_has. destruct (ahas k (row_m r)) eqn:E; auto.
    apply NoDup_app_intro_single; auto. intros Hk. apply Hin in Hk. congruence.
  - intros k'. rewrite store_l, store_m, ahas_aset. unfold row_has.
    destruct (str_eqb k k') eqn:E.
    + apply str_eqb_eq in E; subst k'. cbn. split; auto. intros _.
      destruct (ahas k (row_m r)) eqn:E2; [apply Hin; auto | apply in_or_app; right; left; auto].
    + cbn. destruct (ahas k (row_m r)) eqn:E2.
      * apply Hin.
      * rewrite in_app_iff. rewrite Hin. cbn. split; [intros [H|[H|[]]]; auto | auto].
        subst. now rewrite str_eqb_refl in E.
Qed.

Lemma get_store_same k c r : get_value k (store k c r) = Some c.
Proof. unfold get_value. rewrite store_m. apply alookup_aset_same. Qed.

Lemma get_store_other k k' c r : k <> k' -> get_value k' (store k c r) = get_value k' r.
Proof. intros H. unfold get_value. rewrite store_m. now apply alookup_aset_other. Qed.

Lemma has_store k k' c r : row_has k' (store k c r) = (str_eqb k k' || row_has k' r).
Proof. unfold row_has. rewrite store_m. apply ahas_aset. Qed.

(* refinement: the concrete store is the abstract store *)
Lemma map_lookup_aset_notin k (c : cell) (m : list (str * cell)) l :
  ~ In k l -> map (fun k0 => (k0, alookup k0 (aset k c m))) l = map (fun k0 => (k0, alookup k0 m)) l.
Proof.
  intros Hn. apply map_ext_in. intros k0 Hk0. rewrite alookup_aset_other; auto. intros ->; auto.
Qed.

Lemma astore_notin k c (m : list (str * cell)) l :
  ~ In k l -> astore k c (map (fun k0 => (k0, alookup k0 m)) l) = map (fun k0 => (k0, alookup k0 m)) l ++ [(k, Some c)].
Proof.
  induction l as [|k1 l IH]; cbn; intros Hn; auto.
  rewrite str_eqb_neq by (intros ->; apply Hn; now left). rewrite IH; auto.
Qed.

Lemma astore_in k c (m : list (str * cell)) l :
  NoDup l -> In k l ->
  astore k c (map (fun k0 => (k0, alookup k0 m)) l) = map (fun k0 => (k0, alookup k0 (aset k c m))) l.
Proof.
  induction l as [|k1 l IH]; cbn; intros Hnd Hin; [tauto|].
  inversion Hnd as [|? ? Hn1 Hnd']; subst.
  destruct (str_eqb k k1) eqn:E.
  - apply str_eqb_eq in E; subst k1. rewrite alookup_aset_same. f_equal.
    symmetry. now apply map_lookup_aset_notin.
  - destruct Hin as [->|Hin]; [now rewrite str_eqb_refl in E|].
    rewrite alookup_aset_other by (intros ->; now rewrite str_eqb_refl in E). f_equal. now apply IH.
Qed.

Lemma abs_store k c r : Inv r -> abs (store k c r) = astore k c (abs r).
Proof.
  intros [Hnd Hin]. unfold abs, iter_values. rewrite store_l, store_m. unfold row_has.
  destruct (ahas k (row_m r)) eqn:E.
  - symmetry. apply astore_in; auto. now apply Hin.
  - assert (Hn : ~ In k (row_l r)) by (intros H; apply Hin in H; congruence).
    rewrite map_app, astore_notin by auto. cbn. rewrite alookup_aset_same. f_equal.
    now apply map_lookup_aset_notin.
Qed.

(* ---------- sequences of stores ---------- *)
Inductive stores : crow -> crow -> Prop :=
| st_refl r : stores r r
| st_step r k c r' : stores (store k c r) r' -> stores r r'.

Lemma stores_trans a b c : stores a b -> stores b c -> stores a c.
Proof. induction 1; auto. intros H2. eapply st_step. apply IHstores, H2. Qed.

Lemma stores_one k c r : stores r (store k c r).
Proof. eapply st_step, st_refl. Qed.

Lemma Inv_stores r r' : stores r r' -> Inv r -> Inv r'.
Proof. induction 1; auto. intros H0. apply IHstores, Inv_store, H0. Qed.

(* keys are never moved, duplicated or dropped: the key list only grows at the end *)
Lemma stores_prefix r r' : stores r r' -> exists ext, row_l r' = row_l r ++ ext.
Proof.
  induction 1 as [r | r k c r' _ [ext IH]].
  - exists []. now rewrite app_nil_r.
  - rewrite store_l in IH. destruct (row_has k r).
    + now exists ext.
    + exists ([k] ++ ext). now rewrite IH, app_assoc.
Qed.

Lemma stores_has r r' k : stores r r' -> row_has k r = true -> row_has k r' = true.
Proof.
  induction 1 as [r | r k0 c r' _ IH]; auto. intros H. apply IH. rewrite has_store, H. apply orb_true_r.
Qed.

Section Mutators.
  Context (O : oracles).

  Lemma set_cell_existing k c r : row_has k r = true -> set_cell k c r = store k c r.
  Proof. destruct r as [m l]. unfold store, push_if_absent, row_has; cbn. intros ->. reflexivity. Qed.

  Lemma set_value_store k c r :
    set_value k c r = store k (match c with Some c => c | None => new_value_auto rnil end) r.
  Proof. reflexivity. Qed.

  Lemma row_set_stores k v r r' : row_set O k v r = Ok r' -> exists c, r' = store k c r.
  Proof.
    unfold row_set. destruct (alookup k (row_m r)) as [c0|].
    - destruct (cast_to O (cell_rawtype c0) v); try discriminate;
        match goal with |- bind ?x _ = _ -> _ => destruct x eqn:E end; cbn; try discriminate;
        intros [= <-]; eexists; reflexivity.
    - destruct (as_value v); intros [= <-]; eexists; reflexivity.
  Qed.

  (* unfolding equations of the mutually recursive import functions *)
  Lemma import_at_key_S n k v r :
    import_at_key O (S n) k v r =
    let r1 := push_if_absent k r in
    match alookup k (row_m r) with
    | Some c => let '(c', e) := cell_import O n c v in (set_cell k c' r1, e)
    | None =>
        match as_value v with
        | Some c => (set_cell k c r1, Ok tt)
        | None => (set_cell k (new_value_auto v) r1, Ok tt)
        end
    end.
  Proof. reflexivity. Qed.

  Lemma row_import_S n v r :
    row_import O (S n) v r =
    match v with
    | RArr vals => import_arr (import_at_key O n) 0 vals r
    | RMap kvs => import_map (import_at_key O n) kvs r
    | _ => (r, Err ErrUnsupportedImportType)
    end.
  Proof. destruct v; reflexivity. Qed.

  Lemma cell_import_S n c v :
    cell_import O (S n) c v =
    match c with
    | CVal raw f typ => value_import O n raw f typ v
    | CRow sub => let '(sub', e) := row_import O n v sub in (CRow sub', e)
    end.
  Proof. reflexivity. Qed.

  (* the mutually recursive import functions only ever store cells *)
  Lemma import_stores n :
    (forall k v r, exists c, fst (import_at_key O n k v r) = r \/ fst (import_at_key O n k v r) = store k c r)
    /\ (forall v r, stores r (fst (row_import O n v r))).
  Proof.
    induction n as [|n [IHk IHr]].
    - split; intros; cbn; [exists (new_value_auto rnil); now left | apply st_refl].
    - assert (Hk : forall k v r, exists c, fst (import_at_key O (S n) k v r) = r
                                   \/ fst (import_at_key O (S n) k v r) = store k c r).
      { intros k v r. rewrite import_at_key_S. cbv zeta. destruct (alookup k (row_m r)) as [c0|] eqn:E.
        - destruct (cell_import O n c0 v) as [c' e]. exists c'. right. reflexivity.
        - destruct (as_value v) as [c|]; [exists c | exists (new_value_auto v)]; right; reflexivity. }
      split; [exact Hk|].
      intros v r. rewrite row_import_S. destruct v as [g|vals|kvs|c]; try apply st_refl.
      + generalize 0. revert r. induction vals as [|x rest IH]; intros r i; [apply st_refl|].
        cbn [import_arr].
        destruct (IHk (key_at (row_l r) i) x r) as [c Hc].
        destruct (import_at_key O n (key_at (row_l r) i) x r) as [r' e] eqn:E. cbn in Hc.
        assert (Hs : stores r r') by (destruct Hc as [->| ->]; [apply st_refl | apply stores_one]).
        destruct e; cbn; try exact Hs. eapply stores_trans; [exact Hs | apply IH].
      + revert r. induction kvs as [|[k x] rest IH]; intros r; [apply st_refl|].
        cbn [import_map].
        destruct (IHk k x r) as [c Hc].
        destruct (import_at_key O n k x r) as [r' e] eqn:E. cbn in Hc.
        assert (Hs : stores r r') by (destruct Hc as [->| ->]; [apply st_refl | apply stores_one]).
        destruct e; cbn; try exact Hs. eapply stores_trans; [exact Hs | apply IH].
  Qed.

  Lemma import_at_key_stores n k v r : stores r (fst (import_at_key O n k v r)).
  Proof. destruct (proj1 (import_stores n) k v r) as [c [-> | ->]]; [apply st_refl | apply stores_one]. Qed.

  Lemma row_import_stores n v r : stores r (fst (row_import O n v r)).
  Proof. apply (proj2 (import_stores n)). Qed.

  Lemma unmarshal_members_stores n ms r : stores r (fst (unmarshal_members O n ms r)).
  Proof.
    revert r. induction ms as [|[k v] rest IH]; intros r; cbn; [apply st_refl|].
    destruct (alookup k (row_m r)) as [c0|] eqn:E.
    - destruct (cell_import O n c0 v) as [c' e].
      assert (Hh : row_has k r = true) by (unfold row_has, ahas; now rewrite E).
      rewrite (set_cell_existing k c' r Hh).
      destruct e; cbn; try apply stores_one. eapply stores_trans; [apply stores_one | apply IH].
    - eapply stores_trans; [apply (stores_one k (new_value_auto v)) | apply IH].
  Qed.

  Lemma row_unmarshal_stores n ms ok r : stores r (fst (row_unmarshal O n ms ok r)).
  Proof.
    unfold row_unmarshal. pose proof (unmarshal_members_stores n ms r) as H.
    destruct (unmarshal_members O n ms r) as [r' e]. destruct e; exact H.
  Qed.

  Lemma import_at_keys_stores n keys v r r' e :
    import_at_keys O n keys v r = Some (r', e) -> stores r r'.
  Proof.
    destruct keys as [|k rest]; [discriminate|]. cbn [import_at_keys].
    assert (Hset : forall c, get_value k r <> None -> stores r (set_cell k c r)).
    { intros c Hg. rewrite set_cell_existing; [apply stores_one|].
      unfold row_has, ahas. unfold get_value in Hg. destruct (alookup k (row_m r)); congruence. }
    destruct rest as [|k2 rest].
    - destruct (get_value k r) as [c0|] eqn:E; [|discriminate].
      destruct (cell_import O n c0 v) as [c' e']. intros [= <- <-]. apply Hset. congruence.
    - destruct (get_value k r) as [[raw f t|sub]|] eqn:E; [| |discriminate].
      + destruct raw as [g|l0|m0|[raw' f' t'|sub]]; try discriminate.
        destruct (import_at_keys O n (k2 :: rest) v sub) as [[sub' e']|]; [|discriminate].
        intros [= <- <-]. apply Hset. congruence.
      + destruct (import_at_keys O n (k2 :: rest) v sub) as [[sub' e']|]; [|discriminate].
        intros [= <- <-]. apply Hset. congruence.
  Qed.

  Lemma import_at_path_stores n p v r : stores r (fst (import_at_path O n p v r)).
  Proof.
    unfold import_at_path. destruct (import_at_keys O n (split_dot p) v r) as [[r' e]|] eqn:E; cbn.
    - eapply import_at_keys_stores, E.
    - apply st_refl.
  Qed.

  (* CloneRow: the clone has the same key list, and satisfies the invariant *)
  Lemma clone_cells_spec n m l : forall acc r',
    clone_cells O n m l acc = Ok r' -> stores acc r'
      /\ (forall k, row_has k r' = true -> row_has k acc = true \/ In k l).
  Proof.
    induction l as [|k l IH]; cbn; intros acc r'.
    - intros [= <-]. split; [apply st_refl | auto].
    - destruct (alookup k m) as [c|]; [|discriminate].
      destruct (clone_value O n c) as [c'| | |]; cbn; try discriminate.
      intros H. apply IH in H as [Hs Hk]. split.
      + eapply stores_trans; [apply (stores_one k c') | exact Hs].
      + intros k0 H0. apply Hk in H0 as [H0|H0]; auto.
        rewrite set_value_store, has_store in H0. apply orb_true_iff in H0 as [H0|H0]; auto.
        apply str_eqb_eq in H0. subst. right. now left.
  Qed.

  Lemma clone_cells_l n m : forall l acc r',
    clone_cells O n m l acc = Ok r' -> (forall k, In k l -> row_has k acc = false) -> NoDup l ->
    row_l r' = row_l acc ++ l.
  Proof.
    induction l as [|k l IH]; cbn; intros acc r'.
    - intros [= <-] _ _. now rewrite app_nil_r.
    - destruct (alookup k m) as [c|]; [|discriminate].
      destruct (clone_value O n c) as [c'| | |]; cbn; try discriminate.
      intros H Hfresh Hnd. inversion Hnd as [|? ? Hn Hnd']; subst.
      apply IH in H; auto.
      + rewrite H, set_value_store, store_l, (Hfresh k) by (now left). now rewrite <- app_assoc.
      + intros k0 Hk0. rewrite set_value_store, has_store, (Hfresh k0) by (now right).
        rewrite str_eqb_neq; auto. intros ->; auto.
  Qed.

  Lemma clone_row_spec n r r' : Inv r -> clone_row O n r = Ok r' -> Inv r' /\ row_l r' = row_l r.
  Proof.
    intros [Hnd Hin] H. unfold clone_row in H. split.
    - apply clone_cells_spec in H as [Hs _]. eapply Inv_stores; [exact Hs | apply Inv_new].
    - apply clone_cells_l in H; auto.
  Qed.

  (* ---------- every operation of a history ---------- *)
  Lemma step_stores r o : o <> OClone -> stores r (fst (step O r o)).
  Proof.
    intros Hc. destruct o; cbn [step]; try congruence.
    - destruct (row_set O k v r) as [r'| | |] eqn:E; cbn; try apply st_refl.
      apply row_set_stores in E as [c ->]. apply stores_one.
    - unfold row_set_at_index. destruct (row_set O _ v r) as [r'| | |] eqn:E; cbn; try apply st_refl.
      apply row_set_stores in E as [c ->]. apply stores_one.
    - cbn. rewrite set_value_store. apply stores_one.
    - cbn. unfold set_value_at_index. rewrite set_value_store. apply stores_one.
    - apply import_at_key_stores.
    - apply import_at_key_stores.
    - apply row_import_stores.
    - apply import_at_path_stores.
    - apply row_unmarshal_stores.
  Qed.

  Lemma step_Inv r o : Inv r -> Inv (fst (step O r o)).
  Proof.
    intros H. destruct o; try (eapply Inv_stores; [apply step_stores; discriminate | exact H]).
    cbn [step]. destruct (clone_row O FUEL r) as [r'| | |] eqn:E; cbn; auto.
    now apply clone_row_spec in E as [? _].
  Qed.

  Lemma step_keys r o : Inv r -> exists ext, row_l (fst (step O r o)) = row_l r ++ ext.
  Proof.
    intros H. destruct o; try (apply stores_prefix, step_stores; discriminate).
    cbn [step]. destruct (clone_row O FUEL r) as [r'| | |] eqn:E; cbn; try (exists []; now rewrite app_nil_r).
    apply clone_row_spec in E as [_ ->]; auto. exists []. now rewrite app_nil_r.
  Qed.

  Definition run (ops : list rop) (r : crow) : crow := fold_left (fun r o => fst (step O r o)) ops r.

  Lemma run_cons o ops r : run (o :: ops) r = run ops (fst (step O r o)).
  Proof. reflexivity. Qed.

  Theorem run_Inv ops : forall r, Inv r -> Inv (run ops r).
  Proof. induction ops as [|o ops IH]; intros r H; [exact H|]. rewrite run_cons. apply IH, step_Inv, H. Qed.

  Theorem run_keys_grow ops : forall r, Inv r -> exists ext, row_l (run ops r) = row_l r ++ ext.
  Proof.
    induction ops as [|o ops IH]; intros r H.
    - exists []. cbn. now rewrite app_nil_r.
    - rewrite run_cons. destruct (step_keys r o H) as [e1 H1]. destruct (IH _ (step_Inv r o H)) as [e2 H2].
      exists (e1 ++ e2). now rewrite H2, H1, app_assoc.
  Qed.

  (* readers under the invariant *)
  Lemma len_distinct r : Inv r ->
    row_len r = Z.of_nat (length (row_l r)) /\ NoDup (row_l r)
    /\ (forall k, row_has k r = true <-> In k (row_l r)).
  Proof. intros [Hnd Hin]. repeat split; auto; intros; now apply Hin. Qed.

  Lemma index_in_range r i : Inv r -> 0 <= i < row_len r ->
    exists c, get_value_at_index i r = Some c /\ get_value (nth (Z.to_nat i) (row_l r) []) r = Some c.
  Proof.
    intros [Hnd Hin] Hi. unfold get_value_at_index, key_at, row_len in *.
    destruct (i <? 0) eqn:E; [lia|].
    assert (Hk : In (nth (Z.to_nat i) (row_l r) []) (row_l r)) by (apply nth_In; lia).
    apply Hin in Hk. unfold ahas, get_value in *. destruct (alookup _ (row_m r)) as [c|]; [|discriminate].
    exists c. auto.
  Qed.

  Lemma iter_order r : map fst (iter_values r) = row_l r.
  Proof. unfold iter_values. rewrite map_map. cbn. apply map_id. Qed.

  Lemma iter_lookup r k v : In (k, v) (iter_values r) -> v = get_value k r.
  Proof. unfold iter_values. rewrite in_map_iff. intros [k0 [[= <- <-] _]]. reflexivity. Qed.
End Mutators.
