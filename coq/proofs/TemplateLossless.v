(* C13 — typed columns survive write-then-read through JSON with value and type intact.
   A generic theorem reduces the round trip of a one-column row (CreateRow -> MarshalJSON ->
   CreateRowEmpty -> UnmarshalJSON, through the text layer of JL.std.GoJson) to four facts about
   the column's conversions ([column_ok]; [column_ok_upto] when the value read back may differ from
   the value written); the instances [ok_<format>_<type>] discharge them from the cast theorems
   (C09-C12, C14) and from base64_decode_encode (Base64Proofs.v), one per pairing of the lossless
   table (DESIGN.md section 8); [proved_pairing] / [proved_pairing_upto] collect them, with the domain
   and the named hypotheses (GoHyps.v, GoHypsJson.v) of each as premises of the constructor. *)
From Coq Require Import ZArith List Bool Lia.
From JL.std Require Import GoBase GoFloat GoStrconv GoTime GoVal GoBase64 GoJsonNum GoJson.
From JL.gen Require Import CastGen ConvGen.
From JL.model Require Import CastRun Row RowRun Template TemplateJson.
From JL.std Require Import GoHyps GoHypsJson.
From JL.proofs Require Import CastTactics CastTotal CastBinary CastInt CastText StrconvProofs RowProofs RowSafe TemplateOrder TemplateClass
  JsonNumber JsonWrite JsonProofs Base64Proofs TimeCalendar TimeProofs.
Import ListNotations.
Open Scope Z_scope.

Section Lossless.
  Context (O : oracles) (jfloat : bool -> Z -> option str) (jother : Z -> option str).

  Notation marshal_row' := (marshal_row O encode_string jfloat jother).
  Notation marshal_cell' := (marshal_cell O encode_string jfloat jother).

  (* a one-column template *)
  Definition tpl1 (c : str) (f : format) (T : gval) : template := with_col c f T new_template.

  Lemma tpl1_eq c f T : tpl1 c f T = MkRow [(c, CVal rnil f T)] [c].
  Proof. reflexivity. Qed.

  Lemma cast_to_nil T : cast_to O T rnil = Ok rnil \/ exists e, cast_to O T rnil = Err e.
  Proof.
    unfold cast_to, rnil. cbn [to_gval]. pose proof (To_good O T VNil) as G. unfold good in G.
    destruct (To O T VNil) as [x| | |]; try contradiction; [left | right; eauto].
    destruct G as [G _]. now rewrite (proj2 G eq_refl).
  Qed.

  Lemma new_value_nil f T : new_value O rnil f T = Ok (CVal rnil f T).
  Proof. unfold new_value. destruct (cast_to_nil T) as [-> | [e ->]]; reflexivity. Qed.

  Lemma clone_tpl1 n c f T : clone_row O (S n) (tpl1 c f T) = Ok (tpl1 c f T).
  Proof.
    rewrite tpl1_eq. unfold clone_row. cbn [row_m row_l clone_cells alookup]. rewrite str_eqb_refl.
    unfold clone_value. cbn [cell_raw bind cell_format cell_rawtype]. rewrite new_value_nil. reflexivity.
  Qed.

  (* the generic round trip of one column; [v'] is the value the reader stores (it is [v] itself for
     the pairings that are lossless on the nose, [v] at one-second resolution for time.Time) *)
  Theorem lossless_column_upto n c f T v v' e leaf txt :
    ustr c -> v <> VNil -> format_eqb f FHidden = false ->
    To O T v = Ok v ->                                              (* the value is of the column's raw type *)
    export_scalar O f (RS v) = Ok (RS e) ->                         (* Export of the column *)
    marshal_gval encode_string jfloat jother e = Ok txt ->          (* json.Marshal of the exported value *)
    write_jv leaf = Some txt -> jv_wf leaf ->                       (* ... is the text of the JSON value [leaf] *)
    rv_is_nil (rv_of_jv leaf) = false ->
    import_scalar O f T (rv_of_jv leaf) = Ok (RS v') ->             (* Import of what the reader hands back *)
    exists line,
      let t := tpl1 c f T in
      bind (create_row O parse_top_rv (S (S (S n))) t (RMap [(c, RS v)])) (marshal_row' (S (S (S n)))) = Ok line
      /\ get_row O parse_top_rv (S (S (S n))) t line = Ok (MkRow [(c, CVal (RS v') f T)] [c]).
  Proof.
    intros Hc Hv Hvis Hcast Hexp Hm Hw Hwf Hnn Himp.
    exists ([123] ++ (encode_string c ++ [58] ++ txt) ++ [125]). cbv zeta. split.
    - unfold create_row. rewrite clone_tpl1. cbn [bind]. rewrite tpl1_eq.
      cbn [create_from_map]. unfold get_value. cbn [row_m alookup]. rewrite str_eqb_refl.
      unfold fill_cell. cbn [cell_rawtype cell_format].
      assert (Ec : cast_to O T (RS v) = Ok (RS v)) by (unfold cast_to; cbn [to_gval]; now rewrite Hcast).
      unfold new_value. rewrite Ec. cbn [bind]. rewrite set_value_store. unfold store, push_if_absent, set_cell, ahas.
      cbn [alookup aset]. rewrite str_eqb_refl. cbn [aset]. rewrite str_eqb_refl.
      rewrite marshal_row_S. cbn [marshal_row_members alookup]. rewrite str_eqb_refl. cbn [cell_format].
      rewrite Hvis.
      rewrite marshal_cell_S. assert (En : rv_is_nil (RS v) = false) by (destruct v; auto; contradiction).
      rewrite En, Hexp. cbn [bind]. rewrite marshal_rv_scalar, Hm. reflexivity.
    - unfold get_row, create_row_empty. rewrite clone_tpl1. cbn [bind]. unfold unmarshal_text.
      assert (Hp : parse_top_rv ([123] ++ (encode_string c ++ [58] ++ txt) ++ [125]) = ([(c, rv_of_jv leaf)], true)).
      { unfold parse_top_rv. rewrite (write_read [(c, leaf)] ([123] ++ (encode_string c ++ [58] ++ txt) ++ [125])).
        - reflexivity.
        - constructor. constructor; [|constructor]. cbn. auto.
        - cbn [write_jv map fst snd opt_all]. rewrite Hw. cbn. rewrite <- !app_assoc. reflexivity. }
      rewrite Hp. unfold row_unmarshal. rewrite tpl1_eq. cbn [unmarshal_members row_m alookup]. rewrite str_eqb_refl.
      rewrite cell_import_S. unfold value_import. rewrite Hnn.
      destruct (rv_of_jv leaf) as [g|l0|m0|cc] eqn:El.
      4: { destruct cc as [raw' f' t'|sub].
           - destruct leaf; cbn in El; try discriminate. 
           - rewrite Himp. cbn. unfold set_cell. cbn [aset]. rewrite str_eqb_refl. reflexivity. }
      all: rewrite Himp; cbn; unfold set_cell; cbn [aset]; rewrite str_eqb_refl; reflexivity.
  Qed.

  Theorem lossless_column n c f T v e leaf txt :
    ustr c -> v <> VNil -> format_eqb f FHidden = false ->
    To O T v = Ok v ->                                              (* the value is of the column's raw type *)
    export_scalar O f (RS v) = Ok (RS e) ->                         (* Export of the column *)
    marshal_gval encode_string jfloat jother e = Ok txt ->          (* json.Marshal of the exported value *)
    write_jv leaf = Some txt -> jv_wf leaf ->                       (* ... is the text of the JSON value [leaf] *)
    rv_is_nil (rv_of_jv leaf) = false ->
    import_scalar O f T (rv_of_jv leaf) = Ok (RS v) ->              (* Import of what the reader hands back *)
    exists line,
      let t := tpl1 c f T in
      bind (create_row O parse_top_rv (S (S (S n))) t (RMap [(c, RS v)])) (marshal_row' (S (S (S n)))) = Ok line
      /\ get_row O parse_top_rv (S (S (S n))) t line = Ok (MkRow [(c, CVal (RS v) f T)] [c]).
  Proof. apply lossless_column_upto. Qed.

  (* C05 for one column, read-back value [v'] possibly different from [v]: when [v'] is itself of the
     raw type and exports to the same value [e], the line written for [v] is a fixed point *)
  Theorem fixed_point_column_upto n c f T v v' e leaf txt :
    ustr c -> v <> VNil -> v' <> VNil -> format_eqb f FHidden = false ->
    To O T v = Ok v -> To O T v' = Ok v' ->
    export_scalar O f (RS v) = Ok (RS e) -> export_scalar O f (RS v') = Ok (RS e) ->
    marshal_gval encode_string jfloat jother e = Ok txt ->
    write_jv leaf = Some txt -> jv_wf leaf ->
    rv_is_nil (rv_of_jv leaf) = false ->
    import_scalar O f T (rv_of_jv leaf) = Ok (RS v') ->
    exists line,
      let t := tpl1 c f T in
      bind (create_row O parse_top_rv (S (S (S n))) t (RMap [(c, RS v)])) (marshal_row' (S (S (S n)))) = Ok line
      /\ pipeline O encode_string parse_top_rv jfloat jother (S (S (S n))) t t line = Ok (line ++ [10]).
  Proof.
    intros Hc Hv Hv' Hvis Hcast Hcast' Hexp Hexp' Hm Hw Hwf Hnn Himp.
    destruct (lossless_column_upto n c f T v v' e leaf txt Hc Hv Hvis Hcast Hexp Hm Hw Hwf Hnn Himp) as [line [H1 H2]].
    exists line. cbv zeta in *. split; [exact H1|].
    unfold pipeline. rewrite H2. cbn [bind]. unfold export_bytes.
    assert (Ec : cast_to O T (RS v) = Ok (RS v)) by (unfold cast_to; cbn [to_gval]; now rewrite Hcast).
    assert (Ec' : cast_to O T (RS v') = Ok (RS v')) by (unfold cast_to; cbn [to_gval]; now rewrite Hcast').
    assert (Hre : create_row O parse_top_rv (S (S (S n))) (tpl1 c f T) (RV (CRow (MkRow [(c, CVal (RS v') f T)] [c])))
                  = Ok (MkRow [(c, CVal (RS v') f T)] [c])).
    { unfold create_row. rewrite clone_tpl1. cbn [bind]. rewrite tpl1_eq.
      cbn [create_from_row alookup]. rewrite str_eqb_refl. cbn [cell_raw bind].
      unfold get_value. cbn [row_m alookup]. rewrite str_eqb_refl.
      unfold fill_cell. cbn [cell_rawtype cell_format]. rewrite Ec'. unfold new_value. rewrite Ec'. cbn [bind].
      rewrite set_value_store. unfold store, push_if_absent, set_cell, ahas.
      cbn [alookup aset]. rewrite str_eqb_refl. cbn [aset]. rewrite str_eqb_refl. reflexivity. }
    rewrite Hre. cbn [bind].
    assert (Hcr : create_row O parse_top_rv (S (S (S n))) (tpl1 c f T) (RMap [(c, RS v)]) = Ok (MkRow [(c, CVal (RS v) f T)] [c])).
    { unfold create_row. rewrite clone_tpl1. cbn [bind]. rewrite tpl1_eq.
      cbn [create_from_map]. unfold get_value. cbn [row_m alookup]. rewrite str_eqb_refl.
      unfold fill_cell. cbn [cell_rawtype cell_format]. rewrite Ec. unfold new_value. rewrite Ec. cbn [bind].
      rewrite set_value_store. unfold store, push_if_absent, set_cell, ahas.
      cbn [alookup aset]. rewrite str_eqb_refl. cbn [aset]. rewrite str_eqb_refl. reflexivity. }
    rewrite Hcr in H1. cbn [bind] in H1.
    (* both rows marshal to the same line: the cells export to the same value *)
    rewrite marshal_row_S in H1 |- *. cbn [marshal_row_members alookup] in H1 |- *. rewrite str_eqb_refl in H1 |- *.
    cbn [cell_format] in H1 |- *. rewrite Hvis in H1 |- *.
    rewrite marshal_cell_S in H1 |- *.
    assert (En : rv_is_nil (RS v) = false) by (destruct v; auto; contradiction).
    assert (En' : rv_is_nil (RS v') = false) by (destruct v'; auto; contradiction).
    rewrite En, Hexp in H1. rewrite En', Hexp'. rewrite H1. reflexivity.
  Qed.

  (* C05 for one column: the line written for a value is a fixed point of the column's own template *)
  Theorem fixed_point_column n c f T v e leaf txt :
    ustr c -> v <> VNil -> format_eqb f FHidden = false ->
    To O T v = Ok v ->
    export_scalar O f (RS v) = Ok (RS e) ->
    marshal_gval encode_string jfloat jother e = Ok txt ->
    write_jv leaf = Some txt -> jv_wf leaf ->
    rv_is_nil (rv_of_jv leaf) = false ->
    import_scalar O f T (rv_of_jv leaf) = Ok (RS v) ->
    exists line,
      let t := tpl1 c f T in
      bind (create_row O parse_top_rv (S (S (S n))) t (RMap [(c, RS v)])) (marshal_row' (S (S (S n)))) = Ok line
      /\ pipeline O encode_string parse_top_rv jfloat jother (S (S (S n))) t t line = Ok (line ++ [10]).
  Proof.
    intros Hc Hv Hvis Hcast Hexp Hm Hw Hwf Hnn Himp.
    destruct (lossless_column n c f T v e leaf txt Hc Hv Hvis Hcast Hexp Hm Hw Hwf Hnn Himp) as [line [H1 H2]].
    exists line. cbv zeta in *. split; [exact H1|].
    unfold pipeline. rewrite H2. cbn [bind]. unfold export_bytes.
    (* the exporter re-creates the same row, which marshals to the same line *)
    assert (Ec : cast_to O T (RS v) = Ok (RS v)) by (unfold cast_to; cbn [to_gval]; now rewrite Hcast).
    assert (Hre : create_row O parse_top_rv (S (S (S n))) (tpl1 c f T) (RV (CRow (MkRow [(c, CVal (RS v) f T)] [c])))
                  = Ok (MkRow [(c, CVal (RS v) f T)] [c])).
    { unfold create_row. rewrite clone_tpl1. cbn [bind]. rewrite tpl1_eq.
      cbn [create_from_row alookup]. rewrite str_eqb_refl. cbn [cell_raw bind].
      unfold get_value. cbn [row_m alookup]. rewrite str_eqb_refl.
      unfold fill_cell. cbn [cell_rawtype cell_format]. rewrite Ec. unfold new_value. rewrite Ec. cbn [bind].
      rewrite set_value_store. unfold store, push_if_absent, set_cell, ahas.
      cbn [alookup aset]. rewrite str_eqb_refl. cbn [aset]. rewrite str_eqb_refl. reflexivity. }
    rewrite Hre. cbn [bind].
    assert (Hcr : create_row O parse_top_rv (S (S (S n))) (tpl1 c f T) (RMap [(c, RS v)]) = Ok (MkRow [(c, CVal (RS v) f T)] [c])).
    { unfold create_row. rewrite clone_tpl1. cbn [bind]. rewrite tpl1_eq.
      cbn [create_from_map]. unfold get_value. cbn [row_m alookup]. rewrite str_eqb_refl.
      unfold fill_cell. cbn [cell_rawtype cell_format]. rewrite Ec. unfold new_value. rewrite Ec. cbn [bind].
      rewrite set_value_store. unfold store, push_if_absent, set_cell, ahas.
      cbn [alookup aset]. rewrite str_eqb_refl. cbn [aset]. rewrite str_eqb_refl. reflexivity. }
    rewrite Hcr in H1. cbn [bind] in H1. rewrite H1. reflexivity.
  Qed.

  (* ---------- instances: the ten integer types under numeric, string and auto ---------- *)
  Lemma ascii_ustr s : Forall (fun c => 0 <= c < 128) s -> ustr s.
  Proof.
    induction 1 as [|c r Hc _ IH]; [constructor|].
    change (c :: r) with ([c] ++ r).
    assert (E : utf8_encode c = [c]).
    { unfold utf8_encode. destruct (c <? 128) eqn:E; [reflexivity | apply Z.ltb_ge in E; lia]. }
    rewrite <- E. constructor; [left; lia | exact IH].
  Qed.

  Lemma dec_ascii z : Forall (fun c => 0 <= c < 128) (dec z).
  Proof.
    assert (D : forall n, 0 <= n -> Forall (fun c => 0 <= c < 128) (dec_nat n)).
    { intros n Hn. destruct (dec_nat_spec n Hn) as [Hall _]. eapply Forall_impl; [|exact Hall].
      intros c Hc. unfold digit_char in Hc. lia. }
    unfold dec. destruct (z <? 0) eqn:E.
    - constructor; [unfold c_minus; lia | apply D; apply Z.ltb_lt in E; lia].
    - apply D. apply Z.ltb_ge in E. lia.
  Qed.

  Lemma jnumber_dec z : jnumber (dec z).
  Proof. apply is_json_number_iff, json_number_dec. Qed.

  Lemma int_self k z : in_range k z -> To O (sample k) (VInt k z) = Ok (VInt k z).
  Proof. intros H. apply (proj1 (ToInt_int_src O k k z H) H). Qed.

  Lemma marshal_dec z : marshal_number (dec z) = Some (dec z).
  Proof.
    unfold marshal_number. rewrite (json_number_dec z). destruct (dec z) eqn:E; [|reflexivity].
    pose proof (json_number_dec z) as J. rewrite E in J. discriminate J.
  Qed.

  (* the four facts, bundled *)
  Definition column_ok c f T v e leaf txt : Prop :=
    ustr c /\ v <> VNil /\ format_eqb f FHidden = false
    /\ To O T v = Ok v
    /\ export_scalar O f (RS v) = Ok (RS e)
    /\ marshal_gval encode_string jfloat jother e = Ok txt
    /\ write_jv leaf = Some txt /\ jv_wf leaf
    /\ rv_is_nil (rv_of_jv leaf) = false
    /\ import_scalar O f T (rv_of_jv leaf) = Ok (RS v).

  Lemma column_ok_lossless n c f T v e leaf txt : column_ok c f T v e leaf txt ->
    exists line,
      bind (create_row O parse_top_rv (S (S (S n))) (tpl1 c f T) (RMap [(c, RS v)])) (marshal_row' (S (S (S n)))) = Ok line
      /\ get_row O parse_top_rv (S (S (S n))) (tpl1 c f T) line = Ok (MkRow [(c, CVal (RS v) f T)] [c]).
  Proof. intros (H1 & H2 & H3 & H4 & H5 & H6 & H7 & H8 & H9 & H10). eapply lossless_column; eauto. Qed.

  Lemma column_ok_fixed_point n c f T v e leaf txt : column_ok c f T v e leaf txt ->
    exists line,
      bind (create_row O parse_top_rv (S (S (S n))) (tpl1 c f T) (RMap [(c, RS v)])) (marshal_row' (S (S (S n)))) = Ok line
      /\ pipeline O encode_string parse_top_rv jfloat jother (S (S (S n))) (tpl1 c f T) (tpl1 c f T) line = Ok (line ++ [10]).
  Proof. intros (H1 & H2 & H3 & H4 & H5 & H6 & H7 & H8 & H9 & H10). eapply fixed_point_column; eauto. Qed.

  Lemma ok_numeric_int c k z : ustr c -> in_range k z ->
    column_ok c FNumeric (sample k) (VInt k z) (VNum (dec z)) (JNum (dec z)) (dec z).
  Proof.
    intros Hc Hr. unfold column_ok. repeat split; try assumption; try discriminate.
    - now apply int_self.
    - cbn [export_scalar to_gval]. unfold exportToNumber, exportToNumber_5, exportToNumber_body.
      now rewrite (ToNumber_int O k z Hr).
    - cbn. now rewrite marshal_dec.
    - cbn. apply marshal_dec.
    - constructor. apply jnumber_dec.
    - cbn [rv_of_jv import_scalar to_gval]. pose proof (proj2 (int_text_roundtrip O k z Hr)) as E.
      unfold importFromNumeric, sample in *. cbv beta iota zeta. rewrite E. reflexivity.
  Qed.

  Lemma ok_string_int c k z : ustr c -> in_range k z ->
    column_ok c FString (sample k) (VInt k z) (VStr (dec z)) (JStr (dec z)) (encode_string (dec z)).
  Proof.
    intros Hc Hr. unfold column_ok. repeat split; try assumption; try discriminate.
    - now apply int_self.
    - cbn [export_scalar to_gval]. unfold exportToString, exportToString_5, exportToString_body.
      now rewrite (ToString_int O k z Hr).
    - constructor. apply ascii_ustr, dec_ascii.
    - cbn [rv_of_jv import_scalar to_gval]. pose proof (proj1 (int_text_roundtrip O k z Hr)) as E.
      unfold importFromString, sample in *. cbv beta iota zeta. rewrite E. reflexivity.
  Qed.

  Lemma ok_auto_int c k z : ustr c -> in_range k z ->
    column_ok c FAuto (sample k) (VInt k z) (VInt k z) (JNum (dec z)) (dec z).
  Proof.
    intros Hc Hr. unfold column_ok. repeat split; try assumption; try discriminate.
    - now apply int_self.
    - cbn. apply marshal_dec.
    - constructor. apply jnumber_dec.
    - cbn [rv_of_jv import_scalar]. pose proof (proj2 (int_text_roundtrip O k z Hr)) as E.
      unfold cast_to, sample in *. cbn [to_gval]. rewrite E. reflexivity.
  Qed.

  Lemma ok_boolean_bool c b : ustr c ->
    column_ok c FBoolean (VBool true) (VBool b) (VBool b) (JBool b) (if b then s_true else s_false).
  Proof.
    intros Hc. unfold column_ok. repeat split; try assumption; try discriminate; try (destruct b; reflexivity). constructor.
  Qed.

  (* ---------- timestamp: the integer kinds (every value that fits int64) ---------- *)
  Lemma ToTimestamp_int k z : in_range k z -> in_range KInt64 z -> ToTimestamp O (VInt k z) = Ok (VInt KInt64 z).
  Proof.
    intros Hr H64. destruct k; try reflexivity; exact (proj1 (ToInt_int_src O KInt64 _ z Hr) H64).
  Qed.

  Lemma ok_timestamp_int c k z : ustr c -> in_range k z -> in_range KInt64 z ->
    column_ok c FTimestamp (sample k) (VInt k z) (VInt KInt64 z) (JNum (dec z)) (dec z).
  Proof.
    intros Hc Hr H64. unfold column_ok. repeat split; try assumption; try discriminate.
    - now apply int_self.
    - cbn [export_scalar to_gval]. unfold exportToTimestamp, exportToTimestamp_5, exportToTimestamp_body.
      now rewrite (ToTimestamp_int k z Hr H64).
    - cbn. apply marshal_dec.
    - constructor. apply jnumber_dec.
    - cbn [rv_of_jv import_scalar to_gval]. pose proof (proj2 (int_text_roundtrip O k z Hr)) as E.
      unfold importFromTimestamp, sample in *. cbv beta iota zeta. rewrite E. reflexivity.
  Qed.

  (* the eight integer kinds whose every value fits int64 *)
  Definition fits_int64 (k : ikind) : bool :=
    match k with KUint | KUint64 => false | _ => true end.

  Lemma fits_int64_range k z : fits_int64 k = true -> in_range k z -> in_range KInt64 z.
  Proof.
    intros Hk Hr. destruct k; try discriminate Hk; unfold in_range, imin, imax in *; cbn [isigned ibits isize] in *;
      repeat match goal with H : context [2 ^ ?n] |- _ => let v := eval compute in (2 ^ n) in change (2 ^ n) with v in H end;
      repeat match goal with |- context [2 ^ ?n] => let v := eval compute in (2 ^ n) in change (2 ^ n) with v end; lia.
  Qed.

  (* ---------- bool under string and auto ---------- *)
  Lemma FormatBool_ascii b : Forall (fun c => 0 <= c < 128) (FormatBool b).
  Proof. destruct b; cbv [FormatBool]; repeat constructor; lia. Qed.

  Lemma ok_string_bool c b : ustr c ->
    column_ok c FString (VBool true) (VBool b) (VStr (FormatBool b)) (JStr (FormatBool b)) (encode_string (FormatBool b)).
  Proof.
    intros Hc. unfold column_ok. repeat split; try assumption; try discriminate; try (destruct b; reflexivity).
    constructor. apply ascii_ustr, FormatBool_ascii.
  Qed.

  Lemma ok_auto_bool c b : ustr c ->
    column_ok c FAuto (VBool true) (VBool b) (VBool b) (JBool b) (if b then s_true else s_false).
  Proof.
    intros Hc. unfold column_ok. repeat split; try assumption; try discriminate; try (destruct b; reflexivity). constructor.
  Qed.

  (* ---------- binary: base64 of the little-endian / raw bytes ---------- *)
  Lemma ok_binary_gen c T v l :
    ustr c -> v <> VNil -> T <> VNil -> bytes_ok l ->
    To O T v = Ok v ->
    ToBinary O v = Ok (VBytes (mkbytes l)) ->
    To O T (VBytes (mkbytes l)) = Ok v ->
    column_ok c FBinary T v (VStr (base64_encode l)) (JStr (base64_encode l)) (encode_string (base64_encode l)).
  Proof.
    intros Hc Hv HT Hl Hself Henc Hdec. unfold column_ok. repeat split; try assumption; try discriminate.
    - cbn [export_scalar to_gval]. unfold exportToBinary, exportToBinary_5, exportToBinary_body.
      rewrite Henc. reflexivity.
    - constructor. apply ascii_ustr, base64_encode_ascii, Hl.
    - cbn [rv_of_jv import_scalar to_gval]. unfold importFromBinary.
      change (ToString O (VStr (base64_encode l))) with (Ok (VStr (base64_encode l)) : res gval).
      cbn [as_string]. rewrite (base64_decode_encode l Hl). cbn [option_map].
      destruct T; try (contradiction HT; reflexivity); rewrite Hdec; reflexivity.
  Qed.

  Definition int_le_bytes (k : ikind) (z : Z) : str := le_bytes (size_nat k) (z mod 2 ^ ibits k).

  Lemma ok_binary_int c k z : ustr c -> in_range k z ->
    column_ok c FBinary (sample k) (VInt k z) (VStr (base64_encode (int_le_bytes k z)))
              (JStr (base64_encode (int_le_bytes k z))) (encode_string (base64_encode (int_le_bytes k z))).
  Proof.
    intros Hc Hr. apply ok_binary_gen; try assumption; try discriminate.
    - apply le_bytes_ok.
    - now apply int_self.
    - now apply encode_le.
    - pose proof (decode_encode O k z Hr) as E. rewrite (encode_le O k z Hr) in E. exact E.
  Qed.

  Lemma ok_binary_f64 c x : ustr c -> 0 <= x < 2 ^ 64 ->
    column_ok c FBinary (VF64 0) (VF64 x) (VStr (base64_encode (le_bytes 8 x)))
              (JStr (base64_encode (le_bytes 8 x))) (encode_string (base64_encode (le_bytes 8 x))).
  Proof.
    intros Hc Hx. apply ok_binary_gen; try assumption; try discriminate.
    - apply le_bytes_ok.
    - reflexivity.
    - apply f64_encode.
    - pose proof (f64_roundtrip O x Hx) as E. rewrite f64_encode in E. exact E.
  Qed.

  Lemma ok_binary_f32 c x : ustr c -> 0 <= x < 2 ^ 32 ->
    column_ok c FBinary (VF32 0) (VF32 x) (VStr (base64_encode (le_bytes 4 x)))
              (JStr (base64_encode (le_bytes 4 x))) (encode_string (base64_encode (le_bytes 4 x))).
  Proof.
    intros Hc Hx. apply ok_binary_gen; try assumption; try discriminate.
    - apply le_bytes_ok.
    - reflexivity.
    - apply f32_encode.
    - pose proof (f32_roundtrip O x Hx) as E. rewrite f32_encode in E. exact E.
  Qed.

  Lemma ok_binary_bool c b : ustr c ->
    column_ok c FBinary (VBool true) (VBool b) (VStr (base64_encode [if b then 1 else 0]))
              (JStr (base64_encode [if b then 1 else 0])) (encode_string (base64_encode [if b then 1 else 0])).
  Proof.
    intros Hc. apply ok_binary_gen; try assumption; try discriminate.
    - destruct b; repeat constructor; unfold is_byte; lia.
    - reflexivity.
    - apply bool_encode.
    - rewrite bool_decode. destruct b; reflexivity.
  Qed.

  (* a Go string / json.Number / non-nil []byte holding any bytes *)
  Lemma ok_binary_string c t0 s : ustr c -> bytes_ok s ->
    column_ok c FBinary (VStr t0) (VStr s) (VStr (base64_encode s)) (JStr (base64_encode s)) (encode_string (base64_encode s)).
  Proof. intros Hc Hs. apply ok_binary_gen; try assumption; try discriminate; reflexivity. Qed.

  Lemma ok_binary_number c t0 s : ustr c -> bytes_ok s ->
    column_ok c FBinary (VNum t0) (VNum s) (VStr (base64_encode s)) (JStr (base64_encode s)) (encode_string (base64_encode s)).
  Proof. intros Hc Hs. apply ok_binary_gen; try assumption; try discriminate; reflexivity. Qed.

  Lemma ok_binary_bytes c b0 s : ustr c -> bytes_ok s ->
    column_ok c FBinary (VBytes b0) (VBytes (mkbytes s)) (VStr (base64_encode s)) (JStr (base64_encode s)) (encode_string (base64_encode s)).
  Proof. intros Hc Hs. apply ok_binary_gen; try assumption; try discriminate; reflexivity. Qed.

  (* ---------- string and json.Number raw types ---------- *)
  Lemma ok_string_string c t0 s : ustr c -> ustr s ->
    column_ok c FString (VStr t0) (VStr s) (VStr s) (JStr s) (encode_string s).
  Proof.
    intros Hc Hs. unfold column_ok. repeat split; try assumption; try discriminate. constructor; exact Hs.
  Qed.

  Lemma ok_auto_string c t0 s : ustr c -> ustr s ->
    column_ok c FAuto (VStr t0) (VStr s) (VStr s) (JStr s) (encode_string s).
  Proof.
    intros Hc Hs. unfold column_ok. repeat split; try assumption; try discriminate. constructor; exact Hs.
  Qed.

  Lemma ok_string_number c t0 s : ustr c -> ustr s ->
    column_ok c FString (VNum t0) (VNum s) (VStr s) (JStr s) (encode_string s).
  Proof.
    intros Hc Hs. unfold column_ok. repeat split; try assumption; try discriminate. constructor; exact Hs.
  Qed.

  Lemma ok_numeric_number c t0 lit : ustr c -> jnumber lit ->
    column_ok c FNumeric (VNum t0) (VNum lit) (VNum lit) (JNum lit) lit.
  Proof.
    intros Hc Hl. unfold column_ok. repeat split; try assumption; try discriminate.
    - cbn. now rewrite jnumber_marshal.
    - cbn. now apply jnumber_marshal.
    - constructor; exact Hl.
  Qed.

  Lemma ok_auto_number c t0 lit : ustr c -> jnumber lit ->
    column_ok c FAuto (VNum t0) (VNum lit) (VNum lit) (JNum lit) lit.
  Proof.
    intros Hc Hl. unfold column_ok. repeat split; try assumption; try discriminate.
    - cbn. now rewrite jnumber_marshal.
    - cbn. now apply jnumber_marshal.
    - constructor; exact Hl.
  Qed.

  (* ---------- floats under numeric and string: strconv's digits (hypotheses of C12) ---------- *)
  Lemma jnumber_ascii lit : jnumber lit -> Forall (fun c => 0 <= c < 128) lit.
  Proof.
    intros H. eapply Forall_impl; [|apply jnumber_chars; exact H].
    intros c Hc. unfold r_numchar in Hc.
    repeat match type of Hc with
           | (_ || _) = true => apply orb_true_iff in Hc; destruct Hc as [Hc|Hc]
           | (_ && _) = true => apply andb_true_iff in Hc; destruct Hc as [Hc Hc2]
           end; lia.
  Qed.

  Definition f64_txt (x : Z) : str := FormatFloat O x 102 (-1) 64.
  Definition f32_txt (x : Z) : str := FormatFloat O (f64_of_f32 x) 102 (-1) 32.

  Lemma f64_txt_number x : H_float_syn O -> f64_class x = FFin -> jnumber (f64_txt x).
  Proof.
    intros [Hsyn _] Hc. apply is_json_number_iff. pose proof (Hsyn x Hc) as Hp.
    unfold plain_decimal in Hp. apply andb_true_iff in Hp. exact (proj1 Hp).
  Qed.

  Lemma f32_txt_number x : H_float_syn O -> f32_class x = FFin -> jnumber (f32_txt x).
  Proof.
    intros [_ Hsyn] Hc. apply is_json_number_iff. pose proof (Hsyn x Hc) as Hp.
    unfold plain_decimal in Hp. apply andb_true_iff in Hp. exact (proj1 Hp).
  Qed.

  Lemma f64_txt_read x : H_float_rt O -> 0 <= x < 2 ^ 64 -> f64_class x = FFin ->
    To O (VF64 0) (VStr (f64_txt x)) = Ok (VF64 x) /\ To O (VF64 0) (VNum (f64_txt x)) = Ok (VF64 x).
  Proof.
    intros [Hrt _] Hx Hc. destruct (f64_read O (f64_txt x)) as [R1 R2]. rewrite R2, R1.
    unfold f64_txt. rewrite (Hrt x Hx Hc). split; reflexivity.
  Qed.

  Lemma f32_txt_read x : H_float_rt O -> H_f32_embed -> 0 <= x < 2 ^ 32 -> f32_class x = FFin ->
    To O (VF32 0) (VStr (f32_txt x)) = Ok (VF32 x) /\ To O (VF32 0) (VNum (f32_txt x)) = Ok (VF32 x).
  Proof.
    intros [_ Hrt] Hemb Hx Hc. destruct (f32_read O (f32_txt x)) as [R1 R2]. rewrite R2, R1.
    unfold f32_txt. rewrite (Hrt x Hx Hc), (Hemb x Hx Hc). split; reflexivity.
  Qed.

  Lemma ok_numeric_f64 c x : H_float_rt O -> H_float_syn O -> ustr c -> 0 <= x < 2 ^ 64 -> f64_class x = FFin ->
    column_ok c FNumeric (VF64 0) (VF64 x) (VNum (f64_txt x)) (JNum (f64_txt x)) (f64_txt x).
  Proof.
    intros Hrt Hsyn Hc Hx Hfin. pose proof (f64_txt_number x Hsyn Hfin) as Hj.
    unfold column_ok. repeat split; try assumption; try discriminate.
    - cbn. now rewrite jnumber_marshal.
    - cbn. now apply jnumber_marshal.
    - constructor; exact Hj.
    - cbn [rv_of_jv import_scalar to_gval]. unfold importFromNumeric.
      rewrite (proj2 (f64_txt_read x Hrt Hx Hfin)). reflexivity.
  Qed.

  Lemma ok_string_f64 c x : H_float_rt O -> H_float_syn O -> ustr c -> 0 <= x < 2 ^ 64 -> f64_class x = FFin ->
    column_ok c FString (VF64 0) (VF64 x) (VStr (f64_txt x)) (JStr (f64_txt x)) (encode_string (f64_txt x)).
  Proof.
    intros Hrt Hsyn Hc Hx Hfin. pose proof (f64_txt_number x Hsyn Hfin) as Hj.
    unfold column_ok. repeat split; try assumption; try discriminate.
    - constructor. apply ascii_ustr, jnumber_ascii, Hj.
    - cbn [rv_of_jv import_scalar to_gval]. unfold importFromString.
      rewrite (proj1 (f64_txt_read x Hrt Hx Hfin)). reflexivity.
  Qed.

  Lemma ok_numeric_f32 c x : H_float_rt O -> H_float_syn O -> H_f32_embed -> ustr c -> 0 <= x < 2 ^ 32 -> f32_class x = FFin ->
    column_ok c FNumeric (VF32 0) (VF32 x) (VNum (f32_txt x)) (JNum (f32_txt x)) (f32_txt x).
  Proof.
    intros Hrt Hsyn Hemb Hc Hx Hfin. pose proof (f32_txt_number x Hsyn Hfin) as Hj.
    unfold column_ok. repeat split; try assumption; try discriminate.
    - cbn. now rewrite jnumber_marshal.
    - cbn. now apply jnumber_marshal.
    - constructor; exact Hj.
    - cbn [rv_of_jv import_scalar to_gval]. unfold importFromNumeric.
      rewrite (proj2 (f32_txt_read x Hrt Hemb Hx Hfin)). reflexivity.
  Qed.

  Lemma ok_string_f32 c x : H_float_rt O -> H_float_syn O -> H_f32_embed -> ustr c -> 0 <= x < 2 ^ 32 -> f32_class x = FFin ->
    column_ok c FString (VF32 0) (VF32 x) (VStr (f32_txt x)) (JStr (f32_txt x)) (encode_string (f32_txt x)).
  Proof.
    intros Hrt Hsyn Hemb Hc Hx Hfin. pose proof (f32_txt_number x Hsyn Hfin) as Hj.
    unfold column_ok. repeat split; try assumption; try discriminate.
    - constructor. apply ascii_ustr, jnumber_ascii, Hj.
    - cbn [rv_of_jv import_scalar to_gval]. unfold importFromString.
      rewrite (proj1 (f32_txt_read x Hrt Hemb Hx Hfin)). reflexivity.
  Qed.

  (* ---------- floats under auto: the text is json.Marshal's (the oracle jfloat) ---------- *)
  Lemma ok_auto_f64 c x t : ustr c -> jfloat false x = Some t -> jnumber t -> ParseFloat O t 64 = Some x ->
    column_ok c FAuto (VF64 0) (VF64 x) (VF64 x) (JNum t) t.
  Proof.
    intros Hc Hj Hn Hp. unfold column_ok. repeat split; try assumption; try discriminate.
    - cbn. now rewrite Hj.
    - cbn. now apply jnumber_marshal.
    - constructor; exact Hn.
    - cbn [rv_of_jv import_scalar]. unfold cast_to. cbn [to_gval].
      destruct (f64_read O t) as [R1 R2]. rewrite R2, R1, Hp. reflexivity.
  Qed.

  Lemma ok_auto_f32 c x t w : ustr c -> jfloat true x = Some t -> jnumber t ->
    ParseFloat O t 32 = Some w -> f32_of_f64 w = x ->
    column_ok c FAuto (VF32 0) (VF32 x) (VF32 x) (JNum t) t.
  Proof.
    intros Hc Hj Hn Hp Hw. unfold column_ok. repeat split; try assumption; try discriminate.
    - cbn. now rewrite Hj.
    - cbn. now apply jnumber_marshal.
    - constructor; exact Hn.
    - cbn [rv_of_jv import_scalar]. unfold cast_to. cbn [to_gval].
      destruct (f32_read O t) as [R1 R2]. rewrite R2, R1, Hp, Hw. reflexivity.
  Qed.

  (* ---------- bool under numeric and timestamp: written 1 / 0, read back through ParseFloat ---------- *)
  Definition bool_digit (b : bool) : str := if b then [49] else [48].

  Lemma bool_digit_read b : H_parse_bool_digits O -> To O (VBool true) (VNum (bool_digit b)) = Ok (VBool b).
  Proof.
    intros [H0 H1]. destruct b; cbn [bool_digit]; cast_unfold_top; cast_unfold_4.
    - rewrite H1. vm_compute. reflexivity.
    - rewrite H0. vm_compute. reflexivity.
  Qed.

  Lemma bool_digit_number b : jnumber (bool_digit b).
  Proof. apply is_json_number_iff. destruct b; reflexivity. Qed.

  Lemma ok_numeric_bool c b : H_parse_bool_digits O -> ustr c ->
    column_ok c FNumeric (VBool true) (VBool b) (VNum (bool_digit b)) (JNum (bool_digit b)) (bool_digit b).
  Proof.
    intros HP Hc. unfold column_ok. repeat split; try assumption; try discriminate; try (destruct b; reflexivity).
    - constructor. apply bool_digit_number.
    - cbn [rv_of_jv import_scalar to_gval]. unfold importFromNumeric. rewrite (bool_digit_read b HP). reflexivity.
  Qed.

  Lemma ok_timestamp_bool c b : H_parse_bool_digits O -> ustr c ->
    column_ok c FTimestamp (VBool true) (VBool b) (VInt KInt64 (if b then 1 else 0)) (JNum (bool_digit b)) (bool_digit b).
  Proof.
    intros HP Hc. unfold column_ok. repeat split; try assumption; try discriminate; try (destruct b; reflexivity).
    - constructor. apply bool_digit_number.
    - cbn [rv_of_jv import_scalar to_gval]. unfold importFromTimestamp. rewrite (bool_digit_read b HP). reflexivity.
  Qed.

  (* ---------- time.Time: the read-back value is the time at one-second resolution ---------- *)
  (* the bundle of facts of [lossless_column_upto] / [fixed_point_column_upto] *)
  Definition column_ok_upto c f T v v' e leaf txt : Prop :=
    ustr c /\ v <> VNil /\ v' <> VNil /\ format_eqb f FHidden = false
    /\ To O T v = Ok v /\ To O T v' = Ok v'
    /\ export_scalar O f (RS v) = Ok (RS e) /\ export_scalar O f (RS v') = Ok (RS e)
    /\ marshal_gval encode_string jfloat jother e = Ok txt
    /\ write_jv leaf = Some txt /\ jv_wf leaf
    /\ rv_is_nil (rv_of_jv leaf) = false
    /\ import_scalar O f T (rv_of_jv leaf) = Ok (RS v').

  Lemma column_ok_is_upto c f T v e leaf txt : column_ok c f T v e leaf txt -> column_ok_upto c f T v v e leaf txt.
  Proof. intros (H1 & H2 & H3 & H4 & H5 & H6 & H7 & H8 & H9 & H10). unfold column_ok_upto. tauto. Qed.

  Lemma column_ok_of_upto c f T v e leaf txt : column_ok_upto c f T v v e leaf txt -> column_ok c f T v e leaf txt.
  Proof. unfold column_ok_upto, column_ok. tauto. Qed.

  Lemma column_ok_upto_lossless n c f T v v' e leaf txt : column_ok_upto c f T v v' e leaf txt ->
    exists line,
      bind (create_row O parse_top_rv (S (S (S n))) (tpl1 c f T) (RMap [(c, RS v)])) (marshal_row' (S (S (S n)))) = Ok line
      /\ get_row O parse_top_rv (S (S (S n))) (tpl1 c f T) line = Ok (MkRow [(c, CVal (RS v') f T)] [c]).
  Proof.
    intros (H1 & H2 & H3 & H4 & H5 & H6 & H7 & H8 & H9 & H10 & H11 & H12 & H13).
    eapply lossless_column_upto; eauto.
  Qed.

  Lemma column_ok_upto_fixed_point n c f T v v' e leaf txt : column_ok_upto c f T v v' e leaf txt ->
    exists line,
      bind (create_row O parse_top_rv (S (S (S n))) (tpl1 c f T) (RMap [(c, RS v)])) (marshal_row' (S (S (S n)))) = Ok line
      /\ pipeline O encode_string parse_top_rv jfloat jother (S (S (S n))) (tpl1 c f T) (tpl1 c f T) line = Ok (line ++ [10]).
  Proof.
    intros (H1 & H2 & H3 & H4 & H5 & H6 & H7 & H8 & H9 & H10 & H11 & H12 & H13).
    eapply fixed_point_column_upto with (v' := v'); eauto.
  Qed.

  (* characters json.Marshal copies unchanged into a string literal (HTML escaping on) *)
  Definition plain_char (c : Z) : Prop := 32 <= c < 128 /\ c <> 34 /\ c <> 92 /\ c <> 60 /\ c <> 62 /\ c <> 38.

  Lemma enc_body_plain f s : Forall plain_char s -> (length s <= f)%nat -> enc_body f s = s.
  Proof.
    revert s. induction f as [|f IH]; intros s Hs Hl.
    - destruct s; [reflexivity | cbn in Hl; lia].
    - destruct s as [|c r]; [reflexivity|]. inversion Hs as [|? ? Hc Hr]; subst. unfold plain_char in Hc.
      cbn [enc_body enc_step].
      destruct (Z.ltb_spec c 128); [|lia].
      repeat match goal with |- context [?a =? ?b] => destruct (Z.eqb_spec a b); [lia|] end.
      destruct (Z.ltb_spec c 32); [lia|]. cbn [orb app]. f_equal. apply IH; [exact Hr | cbn in Hl; lia].
  Qed.

  Lemma encode_string_plain s : Forall plain_char s -> encode_string s = [34] ++ s ++ [34].
  Proof. intros Hs. unfold encode_string. rewrite enc_body_plain by auto. reflexivity. Qed.

  Lemma digit_plain s : Forall digit_char s -> Forall plain_char s.
  Proof. apply Forall_impl. unfold digit_char, plain_char. intros c Hc. lia. Qed.

  Lemma rfc3339_text_plain y mo d hh mi ss frac zs :
    civil_ok y mo d hh mi ss -> Forall digit_char frac -> zone_ok zs -> Forall plain_char (rfc3339_text y mo d hh mi ss frac zs).
  Proof.
    intros (Hy & (Hmo & Hd) & Hh & Hmi & Hs) Hf Hz. pose proof (days_in_le_31 mo y) as H31.
    assert (P : forall c, In c [45; 84; 58; 90; 43; 46] -> plain_char c)
      by (intros c Hc; cbn in Hc; unfold plain_char; lia).
    unfold rfc3339_text. rewrite !Forall_app. repeat split;
      try (apply digit_plain; first [apply digits4_digits | apply pad2_digits]; lia);
      try (repeat constructor; apply P; cbn; tauto).
    - destruct frac as [|d0 fr]; [constructor|]. cbn [frac_text]. constructor; [apply P; cbn; tauto | apply digit_plain, Hf].
    - destruct zs as [|neg h m]; cbn [zone_text zone_ok] in *.
      + repeat constructor; apply P; cbn; tauto.
      + constructor; [destruct neg; apply P; cbn; tauto|]. rewrite !Forall_app. repeat split;
          try (apply digit_plain, pad2_digits; lia). repeat constructor; apply P; cbn; tauto.
  Qed.

  Lemma fmt_rfc3339_plain t : no_wrap t -> year_ok t -> off_ok (toff t) -> Forall plain_char (fmt_rfc3339 t).
  Proof.
    intros Hw Hy Ho. destruct (fmt_rfc3339_text t Hw Hy Ho) as [Hc E]. rewrite E.
    apply rfc3339_text_plain; [exact Hc | constructor | apply zone_of_off_ok; exact Ho].
  Qed.

  Lemma plain_ascii s : Forall plain_char s -> Forall (fun c => 0 <= c < 128) s.
  Proof. apply Forall_impl. unfold plain_char. intros c Hc. lia. Qed.

  Definition trunc_sec (t : gtime) : gtime := {| tsec := tsec t; tnsec := 0; toff := toff t |}.

  Lemma trunc_sec_id t : tnsec t = 0 -> trunc_sec t = t.
  Proof. destruct t as [a ns off]. cbn. intros ->. reflexivity. Qed.

  (* (since fix F7 a time outside the years 0..9999 is refused by ToString: the export lemmas carry year_ok) *)
  Lemma year_ok_trunc t : year_ok t -> year_ok (trunc_sec t).
  Proof. intros H. exact H. Qed.

  Lemma export_datetime_time t : year_ok t ->
    export_scalar O FDateTime (RS (VTime t)) = Ok (RS (VStr (fmt_rfc3339 t))).
  Proof. intros Hy. cbn [export_scalar to_gval]. rewrite (exportToDateTime_time O t Hy). reflexivity. Qed.

  Lemma export_string_time t : year_ok t ->
    export_scalar O FString (RS (VTime t)) = Ok (RS (VStr (fmt_rfc3339 t))).
  Proof.
    intros Hy. cbn [export_scalar to_gval]. unfold exportToString, exportToString_5, exportToString_body.
    rewrite (ToString_time O t Hy). reflexivity.
  Qed.

  Ltac time_trunc_tac :=
    match goal with
    | Hy : year_ok ?t |- export_scalar _ FDateTime (RS (VTime (trunc_sec ?t))) = _ => exact (export_datetime_time (trunc_sec t) Hy)
    | Hy : year_ok ?t |- export_scalar _ FString (RS (VTime (trunc_sec ?t))) = _ => exact (export_string_time (trunc_sec t) Hy)
    end.

  Lemma ToTime_fmt t : no_wrap t -> year_ok t -> off_ok (toff t) ->
    ToTime O (VStr (fmt_rfc3339 t)) = Ok (VTime (trunc_sec t)).
  Proof. intros Hw Hy Ho. apply ToTime_of_fast. now apply parse_format_rfc3339. Qed.

  Lemma ok_datetime_time c t0 t : ustr c -> no_wrap t -> year_ok t -> off_ok (toff t) ->
    column_ok_upto c FDateTime (VTime t0) (VTime t) (VTime (trunc_sec t))
                   (VStr (fmt_rfc3339 t)) (JStr (fmt_rfc3339 t)) (encode_string (fmt_rfc3339 t)).
  Proof.
    intros Hc Hw Hy Ho. unfold column_ok_upto. repeat split; try assumption; try discriminate;
      try (apply export_datetime_time; assumption); try (apply export_string_time; assumption); try time_trunc_tac.
    - constructor. apply ascii_ustr, plain_ascii, fmt_rfc3339_plain; assumption.
    - cbn [rv_of_jv import_scalar to_gval]. unfold importFromDateTime.
      change (To O (VTime t0) (VStr (fmt_rfc3339 t))) with (ToTime O (VStr (fmt_rfc3339 t))).
      rewrite ToTime_fmt by assumption. reflexivity.
  Qed.

  Lemma ok_string_time c t0 t : ustr c -> no_wrap t -> year_ok t -> off_ok (toff t) ->
    column_ok_upto c FString (VTime t0) (VTime t) (VTime (trunc_sec t))
                   (VStr (fmt_rfc3339 t)) (JStr (fmt_rfc3339 t)) (encode_string (fmt_rfc3339 t)).
  Proof.
    intros Hc Hw Hy Ho. unfold column_ok_upto. repeat split; try assumption; try discriminate;
      try (apply export_datetime_time; assumption); try (apply export_string_time; assumption); try time_trunc_tac.
    - constructor. apply ascii_ustr, plain_ascii, fmt_rfc3339_plain; assumption.
    - cbn [rv_of_jv import_scalar to_gval]. unfold importFromString.
      change (To O (VTime t0) (VStr (fmt_rfc3339 t))) with (ToTime O (VStr (fmt_rfc3339 t))).
      rewrite ToTime_fmt by assumption. reflexivity.
  Qed.

  (* under timestamp and numeric the text is the Unix second; it is read back in the local zone:
     same instant (at one second), the offset is the reader's *)
  Lemma ToTime_num_dec z : in_range KInt64 z -> ToTime O (VNum (dec z)) = Ok (VTime (time_Unix O z)).
  Proof.
    intros Hr. unfold in_range, imin, imax in Hr. cbn [isigned ibits isize] in Hr.
    repeat match type of Hr with context [2 ^ ?n] => let v := eval compute in (2 ^ n) in change (2 ^ n) with v in Hr end.
    assert (Ep : ParseInt (dec z) 0 64 = Some z).
    { rewrite ParseInt_dec by lia. change (2 ^ (64 - 1)) with 9223372036854775808.
      rewrite !(proj2 (Z.leb_le _ _)) by lia. reflexivity. }
    cast_unfold_top. cast_unfold_4. rewrite Ep. reflexivity.
  Qed.

  Lemma ok_timestamp_time c t0 t : ustr c -> in_range KInt64 (tsec t) ->
    column_ok_upto c FTimestamp (VTime t0) (VTime t) (VTime (time_Unix O (tsec t)))
                   (VInt KInt64 (tsec t)) (JNum (dec (tsec t))) (dec (tsec t)).
  Proof.
    intros Hc Hr. unfold column_ok_upto. repeat split; try assumption; try discriminate;
      try (apply export_datetime_time; assumption); try (apply export_string_time; assumption); try time_trunc_tac.
    - cbn. apply marshal_dec.
    - constructor. apply jnumber_dec.
    - cbn [rv_of_jv import_scalar to_gval]. unfold importFromTimestamp.
      change (To O (VTime t0) (VNum (dec (tsec t)))) with (ToTime O (VNum (dec (tsec t)))).
      rewrite ToTime_num_dec by assumption. reflexivity.
  Qed.

  Lemma ok_numeric_time c t0 t : ustr c -> in_range KInt64 (tsec t) ->
    column_ok_upto c FNumeric (VTime t0) (VTime t) (VTime (time_Unix O (tsec t)))
                   (VNum (dec (tsec t))) (JNum (dec (tsec t))) (dec (tsec t)).
  Proof.
    intros Hc Hr. unfold column_ok_upto. repeat split; try assumption; try discriminate;
      try (apply export_datetime_time; assumption); try (apply export_string_time; assumption); try time_trunc_tac.
    - cbn. now rewrite marshal_dec.
    - cbn. apply marshal_dec.
    - constructor. apply jnumber_dec.
    - cbn [rv_of_jv import_scalar to_gval]. unfold importFromNumeric.
      change (To O (VTime t0) (VNum (dec (tsec t)))) with (ToTime O (VNum (dec (tsec t)))).
      rewrite ToTime_num_dec by assumption. reflexivity.
  Qed.

  (* under auto the text is Time.MarshalJSON's (RFC 3339 with nanoseconds); for a whole second it is
     the RFC 3339 text *)
  Lemma time_marshal_whole t : no_wrap t -> year_ok t -> off_ok (toff t) -> tnsec t = 0 ->
    time_marshal t = Some ([34] ++ fmt_rfc3339 t ++ [34]).
  Proof.
    intros Hw Hy [Ho _] Hn. unfold time_marshal. unfold year_ok in Hy.
    destruct (Z.ltb_spec (cy (civil_of t)) 0); [lia|]. destruct (Z.ltb_spec 9999 (cy (civil_of t))); [lia|].
    cbn [orb]. destruct (Z.leb_spec 86400 (Z.abs (toff t))); [lia|].
    unfold fmt_rfc3339nano, fmt_rfc3339, fmt_frac. rewrite Hn. cbn [Z.eqb app]. reflexivity.
  Qed.

  Lemma ok_auto_time c t0 t : ustr c -> no_wrap t -> year_ok t -> off_ok (toff t) -> tnsec t = 0 ->
    column_ok c FAuto (VTime t0) (VTime t) (VTime t) (JStr (fmt_rfc3339 t)) (encode_string (fmt_rfc3339 t)).
  Proof.
    intros Hc Hw Hy Ho Hn. pose proof (fmt_rfc3339_plain t Hw Hy Ho) as Hp.
    unfold column_ok. repeat split; try assumption; try discriminate;
      try (apply export_datetime_time; assumption); try (apply export_string_time; assumption); try time_trunc_tac.
    - cbn [marshal_gval]. rewrite time_marshal_whole by assumption. rewrite encode_string_plain by exact Hp. reflexivity.
    - constructor. apply ascii_ustr, plain_ascii, Hp.
    - cbn [rv_of_jv import_scalar]. unfold cast_to. cbn [to_gval].
      change (To O (VTime t0) (VStr (fmt_rfc3339 t))) with (ToTime O (VStr (fmt_rfc3339 t))).
      rewrite ToTime_fmt by assumption. rewrite trunc_sec_id by exact Hn. reflexivity.
  Qed.

  (* ---- sub-second digits under auto: Time.MarshalJSON writes the nanoseconds without trailing
          zeros, the strict RFC 3339 parser reads every digit back ---- *)
  Lemma trim_zeros_rev_ne c r : c <> 48 -> trim_zeros_rev (c :: r) = c :: r.
  Proof.
    intros Hne. destruct c as [|q|q]; try reflexivity.
    do 6 (destruct q as [q|q|]; try reflexivity). contradiction Hne; reflexivity.
  Qed.

  Lemma trim_zeros_decomp l : exists k, l = repeat 48 k ++ trim_zeros_rev l.
  Proof.
    induction l as [|c r [k IH]]; [exists 0%nat; reflexivity|].
    destruct (Z.eq_dec c 48) as [->|Hne].
    - exists (S k). cbn [trim_zeros_rev repeat app]. f_equal. exact IH.
    - exists 0%nat. rewrite trim_zeros_rev_ne by exact Hne. reflexivity.
  Qed.

  Lemma rev_repeat48 k : rev (repeat 48 k) = repeat 48 k.
  Proof. induction k as [|k IH]; [reflexivity|]. cbn [repeat rev]. rewrite IH. symmetry. apply repeat_cons. Qed.

  Lemma strip_decomp q : exists k, rev q = rev (trim_zeros_rev q) ++ repeat 48 k.
  Proof.
    destruct (trim_zeros_decomp q) as [k E]. exists k. rewrite E at 1. rewrite rev_app_distr, rev_repeat48. reflexivity.
  Qed.

  Lemma horner_app a b : horner (a ++ b) 0 = horner a 0 * 10 ^ Z.of_nat (length b) + horner b 0.
  Proof. unfold horner. rewrite fold_left_app. exact (horner_acc b (horner a 0)). Qed.

  Lemma horner_zeros k : horner (repeat 48 k) 0 = 0.
  Proof. induction k as [|k IH]; [reflexivity|]. cbn [repeat]. rewrite horner_cons. exact IH. Qed.

  Lemma repeat48_digits k : Forall digit_char (repeat 48 k).
  Proof. induction k; cbn [repeat]; constructor; [unfold digit_char; lia | assumption]. Qed.

  Lemma pad9_spec n : 0 <= n < 10 ^ 9 ->
    Forall digit_char (pad_left 9 (dec_nat n)) /\ length (pad_left 9 (dec_nat n)) = 9%nat
    /\ horner (pad_left 9 (dec_nat n)) 0 = n.
  Proof.
    intros Hn. destruct (dec_nat_spec n ltac:(lia)) as (Hall & Hh & Hnz & Hz).
    assert (Hlen : (length (dec_nat n) <= 9)%nat).
    { destruct (Z.eq_dec n 0) as [E|E]; [rewrite (Hz E); cbn; lia|].
      destruct (Hnz ltac:(lia)) as (c & r & Er & Hc). rewrite Er in *.
      apply Forall_cons_iff in Hall. destruct Hall as [Hdc Hr].
      rewrite horner_cons, horner_acc in Hh. pose proof (horner_bound r Hr) as Hb. unfold digit_char in Hdc.
      assert (Hp : 10 ^ Z.of_nat (length r) < 10 ^ 9).
      { assert (0 < 10 ^ Z.of_nat (length r)) by (apply Z.pow_pos_nonneg; lia). nia. }
      apply Z.pow_lt_mono_r_iff in Hp; [|lia|lia]. cbn [length]. lia. }
    unfold pad_left. repeat split.
    - apply Forall_app. split; [apply repeat48_digits | exact Hall].
    - rewrite app_length, repeat_length. unfold byte in *. lia.
    - rewrite horner_app, horner_zeros, Hh. lia.
  Qed.

  Definition frac_digits (ns : Z) : str := rev (trim_zeros_rev (rev (pad_left 9 (dec_nat ns)))).

  Lemma frac_digits_spec ns : 0 < ns < 10 ^ 9 ->
    Forall digit_char (frac_digits ns) /\ frac_digits ns <> []
    /\ horner (frac_digits ns) 0 * 10 ^ 9 / 10 ^ Z.of_nat (length (frac_digits ns)) = ns.
  Proof.
    intros Hn. destruct (pad9_spec ns ltac:(lia)) as (Hall & Hlen & Hh).
    unfold frac_digits. set (p := pad_left 9 (dec_nat ns)) in *.
    destruct (strip_decomp (rev p)) as [k E]. rewrite rev_involutive in E.
    set (f := rev (trim_zeros_rev (rev p))) in *.
    assert (Hf : Forall digit_char f) by (rewrite E in Hall; apply Forall_app in Hall; tauto).
    assert (Hl : (length f + k = 9)%nat) by (rewrite <- Hlen, E, app_length, repeat_length; reflexivity).
    assert (Hv : horner f 0 * 10 ^ Z.of_nat k = ns)
      by (rewrite <- Hh, E, horner_app, horner_zeros, repeat_length; lia).
    split; [exact Hf|]. split.
    - intros Ef. rewrite Ef in Hv. cbn in Hv. lia.
    - replace 9 with (Z.of_nat k + Z.of_nat (length f)) by lia.
      rewrite Z.pow_add_r by lia. rewrite Z.mul_assoc, Z.div_mul by (apply Z.pow_nonzero; lia). exact Hv.
  Qed.

  Lemma fmt_frac_digits ns : ns <> 0 -> fmt_frac ns = 46 :: frac_digits ns.
  Proof. intros H. unfold fmt_frac. destruct (Z.eqb_spec ns 0); [contradiction | reflexivity]. Qed.

  Lemma fmt_rfc3339nano_text t : no_wrap t -> year_ok t -> off_ok (toff t) -> 0 < tnsec t < 10 ^ 9 ->
    let c := civil_of t in
    civil_ok (cy c) (cmo c) (cd c) (chh c) (cmi c) (css c)
    /\ fmt_rfc3339nano t = rfc3339_text (cy c) (cmo c) (cd c) (chh c) (cmi c) (css c) (frac_digits (tnsec t)) (zone_of_off (toff t)).
  Proof.
    intros Hw Hy Ho Hn c. destruct (civil_of_fields t Hw) as [Hv [Hh [Hmi [Hs _]]]]. fold c in Hv, Hh, Hmi, Hs.
    unfold year_ok in Hy. fold c in Hy.
    split; [unfold civil_ok; tauto|].
    destruct (frac_digits_spec (tnsec t) Hn) as (_ & Hne & _).
    unfold fmt_rfc3339nano, fmt_date_civil, rfc3339_text. fold c.
    rewrite append_int_4 by exact Hy. rewrite fmt_zone_text, fmt_frac_digits by lia.
    destruct (frac_digits (tnsec t)) as [|d0 fr] eqn:Ef; [contradiction Hne; reflexivity|]. cbn [frac_text].
    rewrite <- !app_assoc. reflexivity.
  Qed.

  Lemma parse_fmt_rfc3339nano t : no_wrap t -> year_ok t -> off_ok (toff t) -> 0 < tnsec t < 10 ^ 9 ->
    parse_rfc3339_fast (fmt_rfc3339nano t) = Some t.
  Proof.
    intros Hw Hy Ho Hn. destruct (fmt_rfc3339nano_text t Hw Hy Ho Hn) as [Hc E]. rewrite E.
    destruct (zone_of_off_ok (toff t) Ho) as [Hz Eoff].
    destruct (frac_digits_spec (tnsec t) Hn) as (Hf & _ & Hval).
    rewrite format_parse by assumption.
    destruct (civil_of_fields t Hw) as [_ [_ [_ [_ Eu]]]]. rewrite Eu, Eoff, Hval.
    destruct t as [a ns off]. cbn [tsec tnsec toff]. f_equal. f_equal. lia.
  Qed.

  Lemma time_marshal_nanos t : year_ok t -> off_ok (toff t) ->
    time_marshal t = Some ([34] ++ fmt_rfc3339nano t ++ [34]).
  Proof.
    intros Hy [Ho _]. unfold time_marshal. unfold year_ok in Hy.
    destruct (Z.ltb_spec (cy (civil_of t)) 0); [lia|]. destruct (Z.ltb_spec 9999 (cy (civil_of t))); [lia|].
    cbn [orb]. destruct (Z.leb_spec 86400 (Z.abs (toff t))); [lia|]. reflexivity.
  Qed.

  Lemma ok_auto_time_nanos c t0 t : ustr c -> no_wrap t -> year_ok t -> off_ok (toff t) -> 0 < tnsec t < 10 ^ 9 ->
    column_ok c FAuto (VTime t0) (VTime t) (VTime t) (JStr (fmt_rfc3339nano t)) (encode_string (fmt_rfc3339nano t)).
  Proof.
    intros Hc Hw Hy Ho Hn.
    assert (Hp : Forall plain_char (fmt_rfc3339nano t)).
    { destruct (fmt_rfc3339nano_text t Hw Hy Ho Hn) as [Hcv E]. rewrite E.
      apply rfc3339_text_plain; [exact Hcv | apply frac_digits_spec; exact Hn | apply zone_of_off_ok; exact Ho]. }
    unfold column_ok. repeat split; try assumption; try discriminate;
      try (apply export_datetime_time; assumption); try (apply export_string_time; assumption); try time_trunc_tac.
    - cbn [marshal_gval]. rewrite time_marshal_nanos by assumption. rewrite encode_string_plain by exact Hp. reflexivity.
    - constructor. apply ascii_ustr, plain_ascii, Hp.
    - cbn [rv_of_jv import_scalar]. unfold cast_to. cbn [to_gval].
      change (To O (VTime t0) (VStr (fmt_rfc3339nano t))) with (ToTime O (VStr (fmt_rfc3339nano t))).
      rewrite (ToTime_of_fast O _ t) by (now apply parse_fmt_rfc3339nano). reflexivity.
  Qed.

  (* whole-second times under datetime and string: lossless on the nose *)
  Lemma ok_datetime_time_whole c t0 t : ustr c -> no_wrap t -> year_ok t -> off_ok (toff t) -> tnsec t = 0 ->
    column_ok c FDateTime (VTime t0) (VTime t) (VStr (fmt_rfc3339 t)) (JStr (fmt_rfc3339 t)) (encode_string (fmt_rfc3339 t)).
  Proof.
    intros Hc Hw Hy Ho Hn. apply column_ok_of_upto. rewrite <- (trunc_sec_id t Hn) at 2. now apply ok_datetime_time.
  Qed.

  Lemma ok_string_time_whole c t0 t : ustr c -> no_wrap t -> year_ok t -> off_ok (toff t) -> tnsec t = 0 ->
    column_ok c FString (VTime t0) (VTime t) (VStr (fmt_rfc3339 t)) (JStr (fmt_rfc3339 t)) (encode_string (fmt_rfc3339 t)).
  Proof.
    intros Hc Hw Hy Ho Hn. apply column_ok_of_upto. rewrite <- (trunc_sec_id t Hn) at 2. now apply ok_string_time.
  Qed.

  (* ---------- time.Time under binary: the 8 little-endian bytes of the Unix second ---------- *)
  (* the reader first tries the bytes as text (RFC 3339, then a decimal integer): for |sec| < 2^55 the
     last byte is 0x00 or 0xFF, which no integer syntax accepts; that Go's lenient layout parser
     rejects the 8 bytes is a premise (o_time_parse_slow is an oracle) *)
  Lemma digits_loop_bad c base0 base s : In c s -> digit_val c = None -> c <> c_us ->
    forall n us, digits_loop base0 base s n us = None.
  Proof.
    intros Hin Hd Hu. induction s as [|c' s' IH]; [contradiction Hin|]. intros n us. cbn [digits_loop].
    destruct Hin as [->|Hin].
    - destruct (Z.eqb_spec c c_us); [contradiction|]. cbn [andb]. rewrite Hd. reflexivity.
    - destruct ((c' =? c_us) && base0); [apply IH; exact Hin|].
      destruct (digit_val c') as [d|]; [|reflexivity]. destruct (base <=? d); [reflexivity | apply IH; exact Hin].
  Qed.

  Lemma In_skipn {A} (x : A) k l : In x (skipn k l) -> In x l.
  Proof.
    revert l. induction k as [|k IH]; intros l H; [exact H|]. destruct l as [|y l]; [exact H|]. right. apply IH. exact H.
  Qed.

  Lemma ParseUint_bad s c : In c (skipn 2 s) -> digit_val c = None -> c <> c_us -> ParseUint s 0 64 = None.
  Proof.
    intros Hin Hd Hu. destruct s as [|c0 [|c1 r1]]; try contradiction Hin. cbn [skipn] in Hin.
    assert (H0 : In c (c1 :: r1)) by (right; exact Hin).
    assert (H1 : In c (c0 :: c1 :: r1)) by (right; exact H0).
    unfold ParseUint. change (0 =? 0) with true. cbv iota.
    destruct (c0 =? 48);
      repeat match goal with |- context [if ?b && ?b' then _ else _] => destruct (b && b') end;
      cbn [negb andb orb Z.eqb Z.ltb Z.compare Pos.compare Pos.compare_cont];
      try (rewrite (digits_loop_bad c) by assumption); reflexivity.
  Qed.

  Lemma ParseInt_bad s c : In c (skipn 3 s) -> digit_val c = None -> c <> c_us -> ParseInt s 0 64 = None.
  Proof.
    intros Hin Hd Hu. destruct s as [|c0 [|c1 [|c2 r2]]]; try contradiction Hin. cbn [skipn] in Hin.
    unfold ParseInt.
    destruct (c0 =? c_plus); [|destruct (c0 =? c_minus)]; cbv iota;
      (rewrite (ParseUint_bad _ c); [reflexivity | cbn [skipn]; auto using in_cons | assumption | assumption]).
  Qed.

  Lemma top_byte_arith z : - 36028797018963968 <= z < 36028797018963968 ->
    let x := z mod 18446744073709551616 in
    x / 256 / 256 / 256 / 256 / 256 / 256 / 256 mod 256 = 0 \/ x / 256 / 256 / 256 / 256 / 256 / 256 / 256 mod 256 = 255.
  Proof.
    intros Hz x.
    assert (Hx : 0 <= x < 18446744073709551616) by (apply Z.mod_pos_bound; lia).
    assert (Ex : x = z \/ x = z + 18446744073709551616).
    { subst x. destruct (Z_lt_le_dec z 0).
      - right. symmetry. apply Z.mod_unique with (q := -1); lia.
      - left. apply Z.mod_small. lia. }
    clearbody x.
    rewrite !Z.div_div by lia. cbn [Z.mul Pos.mul Pos.add Pos.succ].
    assert (E : x / 72057594037927936 = 0 \/ x / 72057594037927936 = 255).
    { destruct Ex as [->| ->].
      - left. apply Z.div_small. lia.
      - right. symmetry. apply Z.div_unique with (r := z + 18446744073709551616 - 255 * 72057594037927936); lia. }
    destruct E as [->| ->]; [left|right]; reflexivity.
  Qed.

  Lemma top_byte z : - 2 ^ 55 <= z < 2 ^ 55 ->
    exists b0 b1 b2 b3 b4 b5 b6 b7, int_le_bytes KInt64 z = [b0; b1; b2; b3; b4; b5; b6; b7] /\ (b7 = 0 \/ b7 = 255).
  Proof.
    intros Hz. unfold int_le_bytes. change (size_nat KInt64) with 8%nat. change (2 ^ ibits KInt64) with 18446744073709551616.
    change (2 ^ 55) with 36028797018963968 in Hz.
    cbn [le_bytes]. do 8 eexists. split; [reflexivity|]. exact (top_byte_arith z Hz).
  Qed.

  Lemma ParseInt_le_bytes z : - 2 ^ 55 <= z < 2 ^ 55 -> ParseInt (int_le_bytes KInt64 z) 0 64 = None.
  Proof.
    intros Hz. destruct (top_byte z Hz) as (b0 & b1 & b2 & b3 & b4 & b5 & b6 & b7 & -> & Hb).
    apply (ParseInt_bad _ b7); [cbn [skipn]; cbn; tauto | destruct Hb as [->| ->]; reflexivity
                               | destruct Hb as [->| ->]; discriminate].
  Qed.

  Lemma in_range_i64_55 z : - 2 ^ 55 <= z < 2 ^ 55 -> in_range KInt64 z.
  Proof.
    intros Hz. change (2 ^ 55) with 36028797018963968 in Hz.
    unfold in_range, imin, imax. cbn [isigned ibits isize].
    repeat match goal with |- context [2 ^ ?n] => let v := eval compute in (2 ^ n) in change (2 ^ n) with v end. lia.
  Qed.

  Lemma ToTime_le_bytes z : - 2 ^ 55 <= z < 2 ^ 55 -> o_time_parse_slow O (int_le_bytes KInt64 z) = None ->
    ToTime O (VBytes (mkbytes (int_le_bytes KInt64 z))) = Ok (VTime (time_Unix O z)).
  Proof.
    intros Hz Hslow.
    assert (Hr : in_range KInt64 z) by (apply in_range_i64_55; exact Hz).
    set (l := int_le_bytes KInt64 z) in *.
    change (ToTime O (VBytes (mkbytes l))) with
      (match ToTime_4 O (VStr l) with
       | Ok v_t => Ok v_t
       | Err _ => match ToInt64 O (VBytes (mkbytes l)) with
                  | Ok v_i64 => ToTime_4 O v_i64 | Err _ => Err ErrUnableToCastToTime | Panic => Panic | Fuel => Fuel end
       | Panic => Panic | Fuel => Fuel end).
    change (ToTime_4 O (VStr l)) with
      (match time_Parse O LRFC3339 l with
       | Some v_t => Ok (VTime v_t)
       | None => match ToInt64 O (VStr l) with
                 | Ok v_i64 => ToTime_3 O v_i64 | Err _ => Err ErrUnableToCastToTime | Panic => Panic | Fuel => Fuel end
       end).
    assert (Ef : parse_rfc3339_fast l = None).
    { unfold parse_rfc3339_fast. subst l. unfold int_le_bytes. rewrite le_bytes_length. reflexivity. }
    unfold time_Parse. rewrite Ef, Hslow.
    change (ToInt64 O (VStr l)) with
      (match ParseInt l 0 64 with Some v_v => Ok (VInt KInt64 v_v) | None => Err ErrUnableToCastToInt64 end).
    subst l. rewrite (ParseInt_le_bytes z Hz).
    pose proof (decode_encode O KInt64 z Hr) as E. rewrite (encode_le O KInt64 z Hr) in E. cbn [bind] in E.
    change (To O (sample KInt64) ?b) with (ToInt64 O b) in E. fold (int_le_bytes KInt64 z) in E. rewrite E.
    reflexivity.
  Qed.

  Lemma ok_binary_time c t0 t : ustr c -> - 2 ^ 55 <= tsec t < 2 ^ 55 ->
    o_time_parse_slow O (int_le_bytes KInt64 (tsec t)) = None ->
    column_ok_upto c FBinary (VTime t0) (VTime t) (VTime (time_Unix O (tsec t)))
                   (VStr (base64_encode (int_le_bytes KInt64 (tsec t))))
                   (JStr (base64_encode (int_le_bytes KInt64 (tsec t))))
                   (encode_string (base64_encode (int_le_bytes KInt64 (tsec t)))).
  Proof.
    intros Hc Hz Hslow.
    assert (Hr : in_range KInt64 (tsec t)) by (apply in_range_i64_55; exact Hz).
    assert (Hl : bytes_ok (int_le_bytes KInt64 (tsec t))) by apply le_bytes_ok.
    unfold column_ok_upto. repeat split; try assumption; try discriminate;
      try (apply export_datetime_time; assumption); try (apply export_string_time; assumption); try time_trunc_tac.
    - constructor. apply ascii_ustr, base64_encode_ascii, Hl.
    - cbn [rv_of_jv import_scalar to_gval]. unfold importFromBinary.
      change (ToString O (VStr ?s)) with (Ok (VStr s) : res gval).
      cbn [as_string]. rewrite (base64_decode_encode _ Hl). cbn [option_map].
      change (To O (VTime t0) ?b) with (ToTime O b). rewrite ToTime_le_bytes by assumption. reflexivity.
  Qed.

  (* the lossless pairings proved: (format, raw type, value) with the witnesses of the facts of
     [column_ok] (exported value, JSON value, its text). The premises of a constructor are the domain
     of the pairing and, for floats and for bool written as 0 / 1, the named hypotheses about
     strconv / json.Marshal (GoHyps.v, GoHypsJson.v) the instance rests on. *)
  Inductive proved_pairing : format -> gval -> gval -> gval -> jv -> str -> Prop :=
  (* the ten integer kinds (byte = uint8, rune = int32) *)
  | pp_numeric_int k z : in_range k z -> proved_pairing FNumeric (sample k) (VInt k z) (VNum (dec z)) (JNum (dec z)) (dec z)
  | pp_string_int k z : in_range k z -> proved_pairing FString (sample k) (VInt k z) (VStr (dec z)) (JStr (dec z)) (encode_string (dec z))
  | pp_auto_int k z : in_range k z -> proved_pairing FAuto (sample k) (VInt k z) (VInt k z) (JNum (dec z)) (dec z)
  | pp_timestamp_int k z : in_range k z -> in_range KInt64 z ->
      proved_pairing FTimestamp (sample k) (VInt k z) (VInt KInt64 z) (JNum (dec z)) (dec z)
  | pp_binary_int k z : in_range k z ->
      proved_pairing FBinary (sample k) (VInt k z) (VStr (base64_encode (int_le_bytes k z)))
                     (JStr (base64_encode (int_le_bytes k z))) (encode_string (base64_encode (int_le_bytes k z)))
  (* bool *)
  | pp_boolean_bool b : proved_pairing FBoolean (VBool true) (VBool b) (VBool b) (JBool b) (if b then s_true else s_false)
  | pp_string_bool b : proved_pairing FString (VBool true) (VBool b) (VStr (FormatBool b)) (JStr (FormatBool b)) (encode_string (FormatBool b))
  | pp_auto_bool b : proved_pairing FAuto (VBool true) (VBool b) (VBool b) (JBool b) (if b then s_true else s_false)
  | pp_binary_bool b :
      proved_pairing FBinary (VBool true) (VBool b) (VStr (base64_encode [if b then 1 else 0]))
                     (JStr (base64_encode [if b then 1 else 0])) (encode_string (base64_encode [if b then 1 else 0]))
  | pp_numeric_bool b : H_parse_bool_digits O ->
      proved_pairing FNumeric (VBool true) (VBool b) (VNum (bool_digit b)) (JNum (bool_digit b)) (bool_digit b)
  | pp_timestamp_bool b : H_parse_bool_digits O ->
      proved_pairing FTimestamp (VBool true) (VBool b) (VInt KInt64 (if b then 1 else 0)) (JNum (bool_digit b)) (bool_digit b)
  (* floats: every bit pattern under binary; finite values under numeric / string (strconv's digits)
     and auto (json.Marshal's digits) *)
  | pp_binary_f64 x : 0 <= x < 2 ^ 64 ->
      proved_pairing FBinary (VF64 0) (VF64 x) (VStr (base64_encode (le_bytes 8 x)))
                     (JStr (base64_encode (le_bytes 8 x))) (encode_string (base64_encode (le_bytes 8 x)))
  | pp_binary_f32 x : 0 <= x < 2 ^ 32 ->
      proved_pairing FBinary (VF32 0) (VF32 x) (VStr (base64_encode (le_bytes 4 x)))
                     (JStr (base64_encode (le_bytes 4 x))) (encode_string (base64_encode (le_bytes 4 x)))
  | pp_numeric_f64 x : H_float_rt O -> H_float_syn O -> 0 <= x < 2 ^ 64 -> f64_class x = FFin ->
      proved_pairing FNumeric (VF64 0) (VF64 x) (VNum (f64_txt x)) (JNum (f64_txt x)) (f64_txt x)
  | pp_string_f64 x : H_float_rt O -> H_float_syn O -> 0 <= x < 2 ^ 64 -> f64_class x = FFin ->
      proved_pairing FString (VF64 0) (VF64 x) (VStr (f64_txt x)) (JStr (f64_txt x)) (encode_string (f64_txt x))
  | pp_numeric_f32 x : H_float_rt O -> H_float_syn O -> H_f32_embed -> 0 <= x < 2 ^ 32 -> f32_class x = FFin ->
      proved_pairing FNumeric (VF32 0) (VF32 x) (VNum (f32_txt x)) (JNum (f32_txt x)) (f32_txt x)
  | pp_string_f32 x : H_float_rt O -> H_float_syn O -> H_f32_embed -> 0 <= x < 2 ^ 32 -> f32_class x = FFin ->
      proved_pairing FString (VF32 0) (VF32 x) (VStr (f32_txt x)) (JStr (f32_txt x)) (encode_string (f32_txt x))
  | pp_auto_f64 x t : jfloat false x = Some t -> jnumber t -> ParseFloat O t 64 = Some x ->
      proved_pairing FAuto (VF64 0) (VF64 x) (VF64 x) (JNum t) t
  | pp_auto_f32 x t w : jfloat true x = Some t -> jnumber t -> ParseFloat O t 32 = Some w -> f32_of_f64 w = x ->
      proved_pairing FAuto (VF32 0) (VF32 x) (VF32 x) (JNum t) t
  (* string (valid UTF-8; any bytes under binary), json.Number (a JSON number literal; valid UTF-8
     under string; any bytes under binary), []byte (non-nil, any bytes) *)
  | pp_string_string t0 s : ustr s -> proved_pairing FString (VStr t0) (VStr s) (VStr s) (JStr s) (encode_string s)
  | pp_auto_string t0 s : ustr s -> proved_pairing FAuto (VStr t0) (VStr s) (VStr s) (JStr s) (encode_string s)
  | pp_binary_string t0 s : bytes_ok s ->
      proved_pairing FBinary (VStr t0) (VStr s) (VStr (base64_encode s)) (JStr (base64_encode s)) (encode_string (base64_encode s))
  | pp_numeric_number t0 lit : jnumber lit -> proved_pairing FNumeric (VNum t0) (VNum lit) (VNum lit) (JNum lit) lit
  | pp_auto_number t0 lit : jnumber lit -> proved_pairing FAuto (VNum t0) (VNum lit) (VNum lit) (JNum lit) lit
  | pp_string_number t0 s : ustr s -> proved_pairing FString (VNum t0) (VNum s) (VStr s) (JStr s) (encode_string s)
  | pp_binary_number t0 s : bytes_ok s ->
      proved_pairing FBinary (VNum t0) (VNum s) (VStr (base64_encode s)) (JStr (base64_encode s)) (encode_string (base64_encode s))
  | pp_binary_bytes b0 s : bytes_ok s ->
      proved_pairing FBinary (VBytes b0) (VBytes (mkbytes s)) (VStr (base64_encode s)) (JStr (base64_encode s)) (encode_string (base64_encode s))
  (* time.Time holding a whole second (years 0..9999 in its own zone, whole-minute offset) *)
  | pp_datetime_time t0 t : no_wrap t -> year_ok t -> off_ok (toff t) -> tnsec t = 0 ->
      proved_pairing FDateTime (VTime t0) (VTime t) (VStr (fmt_rfc3339 t)) (JStr (fmt_rfc3339 t)) (encode_string (fmt_rfc3339 t))
  | pp_string_time t0 t : no_wrap t -> year_ok t -> off_ok (toff t) -> tnsec t = 0 ->
      proved_pairing FString (VTime t0) (VTime t) (VStr (fmt_rfc3339 t)) (JStr (fmt_rfc3339 t)) (encode_string (fmt_rfc3339 t))
  | pp_auto_time t0 t : no_wrap t -> year_ok t -> off_ok (toff t) -> tnsec t = 0 ->
      proved_pairing FAuto (VTime t0) (VTime t) (VTime t) (JStr (fmt_rfc3339 t)) (encode_string (fmt_rfc3339 t))
  (* ... and under auto with its nanoseconds (the digits survive) *)
  | pp_auto_time_nanos t0 t : no_wrap t -> year_ok t -> off_ok (toff t) -> 0 < tnsec t < 10 ^ 9 ->
      proved_pairing FAuto (VTime t0) (VTime t) (VTime t) (JStr (fmt_rfc3339nano t)) (encode_string (fmt_rfc3339nano t)).

  Lemma proved_pairing_ok c f T v e leaf txt : ustr c -> proved_pairing f T v e leaf txt -> column_ok c f T v e leaf txt.
  Proof.
    intros Hc H. destruct H;
      first [ now apply ok_numeric_int | now apply ok_string_int | now apply ok_auto_int | now apply ok_timestamp_int
            | now apply ok_binary_int | now apply ok_boolean_bool | now apply ok_string_bool | now apply ok_auto_bool
            | now apply ok_binary_bool | now apply ok_numeric_bool | now apply ok_timestamp_bool
            | now apply ok_binary_f64 | now apply ok_binary_f32 | now apply ok_numeric_f64 | now apply ok_string_f64
            | now apply ok_numeric_f32 | now apply ok_string_f32 | now apply ok_auto_f64 | now apply (ok_auto_f32 c x t w)
            | now apply ok_string_string | now apply ok_auto_string | now apply ok_binary_string
            | now apply ok_numeric_number | now apply ok_auto_number | now apply ok_string_number | now apply ok_binary_number
            | now apply ok_binary_bytes | now apply ok_datetime_time_whole | now apply ok_string_time_whole
            | now apply ok_auto_time | now apply ok_auto_time_nanos ].
  Qed.

  Theorem lossless_proved n c f T v e leaf txt : ustr c -> proved_pairing f T v e leaf txt ->
    exists line,
      bind (create_row O parse_top_rv (S (S (S n))) (tpl1 c f T) (RMap [(c, RS v)])) (marshal_row' (S (S (S n)))) = Ok line
      /\ get_row O parse_top_rv (S (S (S n))) (tpl1 c f T) line = Ok (MkRow [(c, CVal (RS v) f T)] [c]).
  Proof. intros Hc H. apply column_ok_lossless with (e := e) (leaf := leaf) (txt := txt). now apply proved_pairing_ok. Qed.

  Theorem fixed_point_proved n c f T v e leaf txt : ustr c -> proved_pairing f T v e leaf txt ->
    exists line,
      bind (create_row O parse_top_rv (S (S (S n))) (tpl1 c f T) (RMap [(c, RS v)])) (marshal_row' (S (S (S n)))) = Ok line
      /\ pipeline O encode_string parse_top_rv jfloat jother (S (S (S n))) (tpl1 c f T) (tpl1 c f T) line = Ok (line ++ [10]).
  Proof. intros Hc H. apply column_ok_fixed_point with (e := e) (leaf := leaf) (txt := txt). now apply proved_pairing_ok. Qed.

  (* time.Time with any nanoseconds: the value read back, [v'], is the time at one-second resolution —
     same instant and same offset under datetime / string, same instant in the reader's local zone
     under timestamp / numeric / binary (the text is the Unix second, resp. its 8 bytes) *)
  Inductive proved_pairing_upto : format -> gval -> gval -> gval -> gval -> jv -> str -> Prop :=
  | ppu_exact f T v e leaf txt : proved_pairing f T v e leaf txt -> proved_pairing_upto f T v v e leaf txt
  | ppu_datetime_time t0 t : no_wrap t -> year_ok t -> off_ok (toff t) ->
      proved_pairing_upto FDateTime (VTime t0) (VTime t) (VTime (trunc_sec t))
                          (VStr (fmt_rfc3339 t)) (JStr (fmt_rfc3339 t)) (encode_string (fmt_rfc3339 t))
  | ppu_string_time t0 t : no_wrap t -> year_ok t -> off_ok (toff t) ->
      proved_pairing_upto FString (VTime t0) (VTime t) (VTime (trunc_sec t))
                          (VStr (fmt_rfc3339 t)) (JStr (fmt_rfc3339 t)) (encode_string (fmt_rfc3339 t))
  | ppu_timestamp_time t0 t : in_range KInt64 (tsec t) ->
      proved_pairing_upto FTimestamp (VTime t0) (VTime t) (VTime (time_Unix O (tsec t)))
                          (VInt KInt64 (tsec t)) (JNum (dec (tsec t))) (dec (tsec t))
  | ppu_numeric_time t0 t : in_range KInt64 (tsec t) ->
      proved_pairing_upto FNumeric (VTime t0) (VTime t) (VTime (time_Unix O (tsec t)))
                          (VNum (dec (tsec t))) (JNum (dec (tsec t))) (dec (tsec t))
  | ppu_binary_time t0 t : - 2 ^ 55 <= tsec t < 2 ^ 55 -> o_time_parse_slow O (int_le_bytes KInt64 (tsec t)) = None ->
      proved_pairing_upto FBinary (VTime t0) (VTime t) (VTime (time_Unix O (tsec t)))
                          (VStr (base64_encode (int_le_bytes KInt64 (tsec t))))
                          (JStr (base64_encode (int_le_bytes KInt64 (tsec t))))
                          (encode_string (base64_encode (int_le_bytes KInt64 (tsec t)))).

  Lemma proved_pairing_upto_ok c f T v v' e leaf txt : ustr c -> proved_pairing_upto f T v v' e leaf txt ->
    column_ok_upto c f T v v' e leaf txt.
  Proof.
    intros Hc H. destruct H as [f T v e leaf txt H | | | | |].
    - apply column_ok_is_upto. now apply proved_pairing_ok.
    - now apply ok_datetime_time.
    - now apply ok_string_time.
    - now apply ok_timestamp_time.
    - now apply ok_numeric_time.
    - now apply ok_binary_time.
  Qed.

  (* what "up to" means: the value read back is the value itself, or the same instant with zero
     nanoseconds (and the same offset when the text carries one) *)
  Definition same_second (f : format) (v v' : gval) : Prop :=
    v' = v
    \/ exists t t', v = VTime t /\ v' = VTime t' /\ tsec t' = tsec t /\ tnsec t' = 0
                    /\ (f = FDateTime \/ f = FString -> toff t' = toff t).

  Lemma proved_pairing_upto_same_second f T v v' e leaf txt :
    proved_pairing_upto f T v v' e leaf txt -> same_second f v v'.
  Proof.
    intros H. destruct H as [f T v e leaf txt H | t0 t | t0 t | t0 t | t0 t | t0 t]; [left; reflexivity | | | | |];
      right; exists t; eexists; (split; [reflexivity|]); (split; [reflexivity|]); cbn [tsec tnsec toff trunc_sec time_Unix];
      repeat split; try reflexivity; intros [E|E]; discriminate E.
  Qed.

  Theorem lossless_proved_upto n c f T v v' e leaf txt : ustr c -> proved_pairing_upto f T v v' e leaf txt ->
    exists line,
      bind (create_row O parse_top_rv (S (S (S n))) (tpl1 c f T) (RMap [(c, RS v)])) (marshal_row' (S (S (S n)))) = Ok line
      /\ get_row O parse_top_rv (S (S (S n))) (tpl1 c f T) line = Ok (MkRow [(c, CVal (RS v') f T)] [c]).
  Proof. intros Hc H. apply column_ok_upto_lossless with (e := e) (leaf := leaf) (txt := txt). now apply proved_pairing_upto_ok. Qed.

  Theorem lossless_proved_upto_same_second n c f T v v' e leaf txt : ustr c -> proved_pairing_upto f T v v' e leaf txt ->
    same_second f v v'
    /\ exists line,
      bind (create_row O parse_top_rv (S (S (S n))) (tpl1 c f T) (RMap [(c, RS v)])) (marshal_row' (S (S (S n)))) = Ok line
      /\ get_row O parse_top_rv (S (S (S n))) (tpl1 c f T) line = Ok (MkRow [(c, CVal (RS v') f T)] [c]).
  Proof.
    intros Hc H. split; [exact (proved_pairing_upto_same_second f T v v' e leaf txt H) | now apply (lossless_proved_upto n c f T v v' e leaf txt)].
  Qed.

  Theorem fixed_point_proved_upto n c f T v v' e leaf txt : ustr c -> proved_pairing_upto f T v v' e leaf txt ->
    exists line,
      bind (create_row O parse_top_rv (S (S (S n))) (tpl1 c f T) (RMap [(c, RS v)])) (marshal_row' (S (S (S n)))) = Ok line
      /\ pipeline O encode_string parse_top_rv jfloat jother (S (S (S n))) (tpl1 c f T) (tpl1 c f T) line = Ok (line ++ [10]).
  Proof.
    intros Hc H. apply column_ok_upto_fixed_point with (v' := v') (e := e) (leaf := leaf) (txt := txt).
    now apply proved_pairing_upto_ok.
  Qed.

  (* the named hypothesis H_jfloat_rt gives the premises of pp_auto_f64 / pp_auto_f32 for every finite float *)
  Lemma auto_f64_pairing x : H_jfloat_rt O jfloat -> 0 <= x < 2 ^ 64 -> f64_class x = FFin ->
    exists t, proved_pairing FAuto (VF64 0) (VF64 x) (VF64 x) (JNum t) t.
  Proof. intros [H _] Hx Hc. destruct (H x Hx Hc) as (t & H1 & H2 & H3). exists t. now apply pp_auto_f64. Qed.

  Lemma auto_f32_pairing x : H_jfloat_rt O jfloat -> H_f32_embed -> 0 <= x < 2 ^ 32 -> f32_class x = FFin ->
    exists t, proved_pairing FAuto (VF32 0) (VF32 x) (VF32 x) (JNum t) t.
  Proof.
    intros [_ H] Hemb Hx Hc. destruct (H x Hx Hc) as (t & H1 & H2 & H3). exists t.
    apply pp_auto_f32 with (w := f64_of_f32 x); auto.
  Qed.
End Lossless.
