(* C13 — typed columns survive write-then-read through JSON with value and type intact.
   A generic theorem reduces the round trip of a one-column row (CreateRow -> MarshalJSON ->
   CreateRowEmpty -> UnmarshalJSON, through the text layer of JL.std.GoJson) to four facts about
   the column's conversions; the instances discharge them from the cast theorems (C10-C12). *)
From Coq Require Import ZArith List Bool Lia.
From JL.std Require Import GoBase GoFloat GoStrconv GoTime GoVal GoBase64 GoJsonNum GoJson.
From JL.gen Require Import CastGen ConvGen.
From JL.model Require Import CastRun Row RowRun Template TemplateJson.
From JL.proofs Require Import CastTotal CastBinary CastInt CastText StrconvProofs RowProofs RowSafe TemplateOrder TemplateClass
  JsonNumber JsonWrite JsonProofs.
Import ListNotations.
Open Scope Z_scope.

Section Lossless.
  Context (O : oracles) (jfloat : bool -> Z -> option str) (jother : Z -> option str).

  Notation marshal_row' := (marshal_row O encode_string jfloat jother).
  Notation marshal_cell' := (marshal_cell O encode_string jfloat jother).

  (* a one-column template *)
  Definition tpl1 (c : str) (f : format) (T : gval) : template := with_col c f T new_template.

  Lemma tpl1_eq c f T : tpl1 c f T = MkRow [(c, CVal rnil f T)] [c].
  Proof. reflexivity. Qed.

  Lemma cast_to_nil T : cast_to O T rnil = Ok rnil \/ exists e, cast_to O T rnil = Err e.
  Proof.
    unfold cast_to, rnil. cbn [to_gval]. pose proof (To_good O T VNil) as G. unfold good in G.
    destruct (To O T VNil) as [x| | |]; try contradiction; [left | right; eauto].
    destruct G as [G _]. now rewrite (proj2 G eq_refl).
  Qed.

  Lemma new_value_nil f T : new_value O rnil f T = Ok (CVal rnil f T).
  Proof. unfold new_value. destruct (cast_to_nil T) as [-> | [e ->]]; reflexivity. Qed.

  Lemma clone_tpl1 n c f T : clone_row O (S n) (tpl1 c f T) = Ok (tpl1 c f T).
  Proof.
    rewrite tpl1_eq. unfold clone_row. cbn [row_m row_l clone_cells alookup]. rewrite str_eqb_refl.
    unfold clone_value. cbn [cell_raw bind cell_format cell_rawtype]. rewrite new_value_nil. reflexivity.
  Qed.

  (* the generic round trip of one column *)
  Theorem lossless_column n c f T v e leaf txt :
    ustr c -> v <> VNil -> format_eqb f FHidden = false ->
    To O T v = Ok v ->                                              (* the value is of the column's raw type *)
    export_scalar O f (RS v) = Ok (RS e) ->                         (* Export of the column *)
    marshal_gval encode_string jfloat jother e = Ok txt ->          (* json.Marshal of the exported value *)
    write_jv leaf = Some txt -> jv_wf leaf ->                       (* ... is the text of the JSON value [leaf] *)
    rv_is_nil (rv_of_jv leaf) = false ->
    import_scalar O f T (rv_of_jv leaf) = Ok (RS v) ->              (* Import of what the reader hands back *)
    exists line,
      let t := tpl1 c f T in
      bind (create_row O parse_top_rv (S (S (S n))) t (RMap [(c, RS v)])) (marshal_row' (S (S (S n)))) = Ok line
      /\ get_row O parse_top_rv (S (S (S n))) t line = Ok (MkRow [(c, CVal (RS v) f T)] [c]).
  Proof.
    intros Hc Hv Hvis Hcast Hexp Hm Hw Hwf Hnn Himp.
    exists ([123] ++ (encode_string c ++ [58] ++ txt) ++ [125]). cbv zeta. split.
    - unfold create_row. rewrite clone_tpl1. cbn [bind]. rewrite tpl1_eq.
      cbn [create_from_map]. unfold get_value. cbn [row_m alookup]. rewrite str_eqb_refl.
      unfold fill_cell. cbn [cell_rawtype cell_format].
      assert (Ec : cast_to O T (RS v) = Ok (RS v)) by (unfold cast_to; cbn [to_gval]; now rewrite Hcast).
      unfold new_value. rewrite Ec. cbn [bind]. rewrite set_value_store. unfold store, push_if_absent, set_cell, ahas.
      cbn [alookup aset]. rewrite str_eqb_refl. cbn [aset]. rewrite str_eqb_refl.
      rewrite marshal_row_S. cbn [marshal_row_members alookup]. rewrite str_eqb_refl. cbn [cell_format].
      rewrite Hvis.
      rewrite marshal_cell_S. assert (En : rv_is_nil (RS v) = false) by (destruct v; auto; contradiction).
      rewrite En, Hexp. cbn [bind]. rewrite marshal_rv_scalar, Hm. reflexivity.
    - unfold get_row, create_row_empty. rewrite clone_tpl1. cbn [bind]. unfold unmarshal_text.
      assert (Hp : parse_top_rv ([123] ++ (encode_string c ++ [58] ++ txt) ++ [125]) = ([(c, rv_of_jv leaf)], true)).
      { unfold parse_top_rv. rewrite (write_read [(c, leaf)] ([123] ++ (encode_string c ++ [58] ++ txt) ++ [125])).
        - reflexivity.
        - constructor. constructor; [|constructor]. cbn. auto.
        - cbn [write_jv map fst snd opt_all]. rewrite Hw. cbn. rewrite <- !app_assoc. reflexivity. }
      rewrite Hp. unfold row_unmarshal. rewrite tpl1_eq. cbn [unmarshal_members row_m alookup]. rewrite str_eqb_refl.
      rewrite cell_import_S. unfold value_import. rewrite Hnn.
      destruct (rv_of_jv leaf) as [g|l0|m0|cc] eqn:El.
      4: { destruct cc as [raw' f' t'|sub].
           - destruct leaf; cbn in El; try discriminate. 
           - rewrite Himp. cbn. unfold set_cell. cbn [aset]. rewrite str_eqb_refl. reflexivity. }
      all: rewrite Himp; cbn; unfold set_cell; cbn [aset]; rewrite str_eqb_refl; reflexivity.
  Qed.

  (* C05 for one column: the line written for a value is a fixed point of the column's own template *)
  Theorem fixed_point_column n c f T v e leaf txt :
    ustr c -> v <> VNil -> format_eqb f FHidden = false ->
    To O T v = Ok v ->
    export_scalar O f (RS v) = Ok (RS e) ->
    marshal_gval encode_string jfloat jother e = Ok txt ->
    write_jv leaf = Some txt -> jv_wf leaf ->
    rv_is_nil (rv_of_jv leaf) = false ->
    import_scalar O f T (rv_of_jv leaf) = Ok (RS v) ->
    exists line,
      let t := tpl1 c f T in
      bind (create_row O parse_top_rv (S (S (S n))) t (RMap [(c, RS v)])) (marshal_row' (S (S (S n)))) = Ok line
      /\ pipeline O encode_string parse_top_rv jfloat jother (S (S (S n))) t t line = Ok (line ++ [10]).
  Proof.
    intros Hc Hv Hvis Hcast Hexp Hm Hw Hwf Hnn Himp.
    destruct (lossless_column n c f T v e leaf txt Hc Hv Hvis Hcast Hexp Hm Hw Hwf Hnn Himp) as [line [H1 H2]].
    exists line. cbv zeta in *. split; [exact H1|].
    unfold pipeline. rewrite H2. cbn [bind]. unfold export_bytes.
    (* the exporter re-creates the same row, which marshals to the same line *)
    assert (Ec : cast_to O T (RS v) = Ok (RS v)) by (unfold cast_to; cbn [to_gval]; now rewrite Hcast).
    assert (Hre : create_row O parse_top_rv (S (S (S n))) (tpl1 c f T) (RV (CRow (MkRow [(c, CVal (RS v) f T)] [c])))
                  = Ok (MkRow [(c, CVal (RS v) f T)] [c])).
    { unfold create_row. rewrite clone_tpl1. cbn [bind]. rewrite tpl1_eq.
      cbn [create_from_row alookup]. rewrite str_eqb_refl. cbn [cell_raw bind].
      unfold get_value. cbn [row_m alookup]. rewrite str_eqb_refl.
      unfold fill_cell. cbn [cell_rawtype cell_format]. rewrite Ec. unfold new_value. rewrite Ec. cbn [bind].
      rewrite set_value_store. unfold store, push_if_absent, set_cell, ahas.
      cbn [alookup aset]. rewrite str_eqb_refl. cbn [aset]. rewrite str_eqb_refl. reflexivity. }
    rewrite Hre. cbn [bind].
    assert (Hcr : create_row O parse_top_rv (S (S (S n))) (tpl1 c f T) (RMap [(c, RS v)]) = Ok (MkRow [(c, CVal (RS v) f T)] [c])).
    { unfold create_row. rewrite clone_tpl1. cbn [bind]. rewrite tpl1_eq.
      cbn [create_from_map]. unfold get_value. cbn [row_m alookup]. rewrite str_eqb_refl.
      unfold fill_cell. cbn [cell_rawtype cell_format]. rewrite Ec. unfold new_value. rewrite Ec. cbn [bind].
      rewrite set_value_store. unfold store, push_if_absent, set_cell, ahas.
      cbn [alookup aset]. rewrite str_eqb_refl. cbn [aset]. rewrite str_eqb_refl. reflexivity. }
    rewrite Hcr in H1. cbn [bind] in H1. rewrite H1. reflexivity.
  Qed.

  (* ---------- instances: the ten integer types under numeric, string and auto ---------- *)
  Lemma ascii_ustr s : Forall (fun c => 0 <= c < 128) s -> ustr s.
  Proof.
    induction 1 as [|c r Hc _ IH]; [constructor|].
    change (c :: r) with ([c] ++ r).
    assert (E : utf8_encode c = [c]).
    { unfold utf8_encode. destruct (c <? 128) eqn:E; [reflexivity | apply Z.ltb_ge in E; lia]. }
    rewrite <- E. constructor; [left; lia | exact IH].
  Qed.

  Lemma dec_ascii z : Forall (fun c => 0 <= c < 128) (dec z).
  Proof.
    assert (D : forall n, 0 <= n -> Forall (fun c => 0 <= c < 128) (dec_nat n)).
    { intros n Hn. destruct (dec_nat_spec n Hn) as [Hall _]. eapply Forall_impl; [|exact Hall].
      intros c Hc. unfold digit_char in Hc. lia. }
    unfold dec. destruct (z <? 0) eqn:E.
    - constructor; [unfold c_minus; lia | apply D; apply Z.ltb_lt in E; lia].
    - apply D. apply Z.ltb_ge in E. lia.
  Qed.

  Lemma jnumber_dec z : jnumber (dec z).
  Proof. apply is_json_number_iff, json_number_dec. Qed.

  Lemma int_self k z : in_range k z -> To O (sample k) (VInt k z) = Ok (VInt k z).
  Proof. intros H. apply (proj1 (ToInt_int_src O k k z H) H). Qed.

  Lemma marshal_dec z : marshal_number (dec z) = Some (dec z).
  Proof.
    unfold marshal_number. rewrite (json_number_dec z). destruct (dec z) eqn:E; [|reflexivity].
    pose proof (json_number_dec z) as J. rewrite E in J. discriminate J.
  Qed.

  (* the four facts, bundled *)
  Definition column_ok c f T v e leaf txt : Prop :=
    ustr c /\ v <> VNil /\ format_eqb f FHidden = false
    /\ To O T v = Ok v
    /\ export_scalar O f (RS v) = Ok (RS e)
    /\ marshal_gval encode_string jfloat jother e = Ok txt
    /\ write_jv leaf = Some txt /\ jv_wf leaf
    /\ rv_is_nil (rv_of_jv leaf) = false
    /\ import_scalar O f T (rv_of_jv leaf) = Ok (RS v).

  Lemma column_ok_lossless n c f T v e leaf txt : column_ok c f T v e leaf txt ->
    exists line,
      bind (create_row O parse_top_rv (S (S (S n))) (tpl1 c f T) (RMap [(c, RS v)])) (marshal_row' (S (S (S n)))) = Ok line
      /\ get_row O parse_top_rv (S (S (S n))) (tpl1 c f T) line = Ok (MkRow [(c, CVal (RS v) f T)] [c]).
  Proof. intros (H1 & H2 & H3 & H4 & H5 & H6 & H7 & H8 & H9 & H10). eapply lossless_column; eauto. Qed.

  Lemma column_ok_fixed_point n c f T v e leaf txt : column_ok c f T v e leaf txt ->
    exists line,
      bind (create_row O parse_top_rv (S (S (S n))) (tpl1 c f T) (RMap [(c, RS v)])) (marshal_row' (S (S (S n)))) = Ok line
      /\ pipeline O encode_string parse_top_rv jfloat jother (S (S (S n))) (tpl1 c f T) (tpl1 c f T) line = Ok (line ++ [10]).
  Proof. intros (H1 & H2 & H3 & H4 & H5 & H6 & H7 & H8 & H9 & H10). eapply fixed_point_column; eauto. Qed.

  Lemma ok_numeric_int c k z : ustr c -> in_range k z ->
    column_ok c FNumeric (sample k) (VInt k z) (VNum (dec z)) (JNum (dec z)) (dec z).
  Proof.
    intros Hc Hr. unfold column_ok. repeat split; try assumption; try discriminate.
    - now apply int_self.
    - cbn [export_scalar to_gval]. unfold exportToNumber, exportToNumber_5, exportToNumber_body.
      now rewrite (ToNumber_int O k z Hr).
    - cbn. now rewrite marshal_dec.
    - cbn. apply marshal_dec.
    - constructor. apply jnumber_dec.
    - cbn [rv_of_jv import_scalar to_gval]. pose proof (proj2 (int_text_roundtrip O k z Hr)) as E.
      unfold importFromNumeric, sample in *. cbv beta iota zeta. rewrite E. reflexivity.
  Qed.

  Lemma ok_string_int c k z : ustr c -> in_range k z ->
    column_ok c FString (sample k) (VInt k z) (VStr (dec z)) (JStr (dec z)) (encode_string (dec z)).
  Proof.
    intros Hc Hr. unfold column_ok. repeat split; try assumption; try discriminate.
    - now apply int_self.
    - cbn [export_scalar to_gval]. unfold exportToString, exportToString_5, exportToString_body.
      now rewrite (ToString_int O k z Hr).
    - constructor. apply ascii_ustr, dec_ascii.
    - cbn [rv_of_jv import_scalar to_gval]. pose proof (proj1 (int_text_roundtrip O k z Hr)) as E.
      unfold importFromString, sample in *. cbv beta iota zeta. rewrite E. reflexivity.
  Qed.

  Lemma ok_auto_int c k z : ustr c -> in_range k z ->
    column_ok c FAuto (sample k) (VInt k z) (VInt k z) (JNum (dec z)) (dec z).
  Proof.
    intros Hc Hr. unfold column_ok. repeat split; try assumption; try discriminate.
    - now apply int_self.
    - cbn. apply marshal_dec.
    - constructor. apply jnumber_dec.
    - cbn [rv_of_jv import_scalar]. pose proof (proj2 (int_text_roundtrip O k z Hr)) as E.
      unfold cast_to, sample in *. cbn [to_gval]. rewrite E. reflexivity.
  Qed.

  Lemma ok_boolean_bool c b : ustr c ->
    column_ok c FBoolean (VBool true) (VBool b) (VBool b) (JBool b) (if b then s_true else s_false).
  Proof.
    intros Hc. unfold column_ok. repeat split; try assumption; try discriminate; try (destruct b; reflexivity). constructor.
  Qed.

  (* the lossless pairings proved so far: (format, raw type, value) with the witnesses of the four facts *)
  Inductive proved_pairing : format -> gval -> gval -> gval -> jv -> str -> Prop :=
  | pp_numeric_int k z : in_range k z -> proved_pairing FNumeric (sample k) (VInt k z) (VNum (dec z)) (JNum (dec z)) (dec z)
  | pp_string_int k z : in_range k z -> proved_pairing FString (sample k) (VInt k z) (VStr (dec z)) (JStr (dec z)) (encode_string (dec z))
  | pp_auto_int k z : in_range k z -> proved_pairing FAuto (sample k) (VInt k z) (VInt k z) (JNum (dec z)) (dec z)
  | pp_boolean_bool b : proved_pairing FBoolean (VBool true) (VBool b) (VBool b) (JBool b) (if b then s_true else s_false).

  Lemma proved_pairing_ok c f T v e leaf txt : ustr c -> proved_pairing f T v e leaf txt -> column_ok c f T v e leaf txt.
  Proof.
    intros Hc H. destruct H; [now apply ok_numeric_int | now apply ok_string_int | now apply ok_auto_int | now apply ok_boolean_bool].
  Qed.

  Theorem lossless_proved n c f T v e leaf txt : ustr c -> proved_pairing f T v e leaf txt ->
    exists line,
      bind (create_row O parse_top_rv (S (S (S n))) (tpl1 c f T) (RMap [(c, RS v)])) (marshal_row' (S (S (S n)))) = Ok line
      /\ get_row O parse_top_rv (S (S (S n))) (tpl1 c f T) line = Ok (MkRow [(c, CVal (RS v) f T)] [c]).
  Proof. intros Hc H. apply column_ok_lossless with (e := e) (leaf := leaf) (txt := txt). now apply proved_pairing_ok. Qed.

  Theorem fixed_point_proved n c f T v e leaf txt : ustr c -> proved_pairing f T v e leaf txt ->
    exists line,
      bind (create_row O parse_top_rv (S (S (S n))) (tpl1 c f T) (RMap [(c, RS v)])) (marshal_row' (S (S (S n)))) = Ok line
      /\ pipeline O encode_string parse_top_rv jfloat jother (S (S (S n))) (tpl1 c f T) (tpl1 c f T) line = Ok (line ++ [10]).
  Proof. intros Hc H. apply column_ok_fixed_point with (e := e) (leaf := leaf) (txt := txt). now apply proved_pairing_ok. Qed.
End Lossless.
