(* String literals: the decoder's string scanner (str_step / scan_str, and the strict variant
   gstr_step / gscan_str) against the reference grammar jchars, and the encoder appendString
   (enc_step / enc_body / encode_string) against both. *)
From Coq Require Import ZArith List Bool Lia.
From JL.std Require Import GoBase GoStrconv GoJsonNum GoJson GoJsonStrict.
From JL.proofs Require Import JsonUtf8.
Import ListNotations.
Open Scope Z_scope.
Ltac Zify.zify_post_hook ::= Z.div_mod_to_equations.

(* ---------- list helpers ---------- *)

Lemma firstn_len_app (a b : str) : firstn (length a) (a ++ b) = a.
Proof. induction a as [|x a IH]; cbn [length firstn app]; [destruct b; reflexivity|]. rewrite IH. reflexivity. Qed.

Lemma skipn_len_app (a b : str) : skipn (length a) (a ++ b) = b.
Proof. induction a as [|x a IH]; cbn [length skipn app]; [reflexivity|]. exact IH. Qed.

Lemma Forall_firstn_ {A} (P : A -> Prop) n l : Forall P l -> Forall P (firstn n l).
Proof. intros H. revert n. induction H; intros [|n]; cbn [firstn]; constructor; auto. Qed.

Lemma Forall_skipn_ {A} (P : A -> Prop) n l : Forall P l -> Forall P (skipn n l).
Proof. intros H. revert n. induction H; intros [|n]; cbn [skipn]; try constructor; auto. Qed.

(* ---------- hex digits ---------- *)

Lemma hexd_val a x : hexd a x -> hexval a = Some x /\ 0 <= x < 16.
Proof.
  intros H. destruct H; unfold hexval, in_rng; zb; (split; [reflexivity|lia]).
Qed.

Lemma hexval_hexd a x : hexval a = Some x -> hexd a x.
Proof.
  unfold hexval, in_rng. zb; intros Hq; try discriminate; injection Hq as <-; constructor; lia.
Qed.

Lemma hex4d_hex4 a b c d v : hex4d [a; b; c; d] v <-> hex4 a b c d = Some v.
Proof.
  split.
  - intros H. inversion H; subst.
    repeat match goal with H : hexd _ _ |- _ => apply hexd_val in H; destruct H as [H ?] end.
    unfold hex4.
    repeat match goal with H : hexval _ = _ |- _ => rewrite H; clear H end.
    f_equal. lia.
  - unfold hex4.
    destruct (hexval a) as [x|] eqn:Ha; [|discriminate].
    destruct (hexval b) as [y|] eqn:Hb; [|discriminate].
    destruct (hexval c) as [z|] eqn:Hc; [|discriminate].
    destruct (hexval d) as [w|] eqn:Hd; [|discriminate].
    intros H. injection H as <-.
    replace (((x * 16 + y) * 16 + z) * 16 + w) with (x * 4096 + y * 256 + z * 16 + w) by lia.
    constructor; apply hexval_hexd; assumption.
Qed.

Lemma hex4d_shape h v : hex4d h v -> exists a b c d, h = [a; b; c; d].
Proof. intros H. inversion H; subst. eauto. Qed.

Lemma hex4d_range h v : hex4d h v -> 0 <= v < 65536.
Proof.
  intros H. inversion H; subst.
  repeat match goal with H : hexd _ _ |- _ => apply hexd_val in H; destruct H as [_ ?] end.
  lia.
Qed.

Lemma hexd_of a x : (48 <= a <= 57 /\ x = a - 48) \/ (97 <= a <= 102 /\ x = a - 87) -> hexd a x.
Proof. intros [[H ->]|[H ->]]; constructor; assumption. Qed.

Lemma hexd_hexdig n : 0 <= n < 16 -> hexd (hexdig n) n.
Proof. intros H. apply hexd_of. unfold hexdig. zb; lia. Qed.

Lemma hexdig_range n : 0 <= n < 16 -> 48 <= hexdig n <= 102.
Proof. intros H. unfold hexdig. zb; lia. Qed.

(* ---------- one character of a string body ---------- *)

(* one character of a string body, as the grammar sees it *)
Inductive jchar1 : str -> str -> str -> Prop :=
| J1_raw c s : scalar c -> 32 <= c -> c <> 34 -> c <> 92 -> jchar1 (utf8_encode c ++ s) (utf8_encode c) s
| J1_esc e d s : esc1 e d -> jchar1 (92 :: e :: s) [d] s
| J1_u h c s : hex4d h c -> scalar c -> jchar1 (92 :: 117 :: h ++ s) (utf8_encode c) s
| J1_pair h1 c1 h2 c2 s : hex4d h1 c1 -> 55296 <= c1 <= 56319 -> hex4d h2 c2 -> 56320 <= c2 <= 57343 ->
    jchar1 (92 :: 117 :: h1 ++ 92 :: 117 :: h2 ++ s) (utf8_encode (65536 + (c1 - 55296) * 1024 + (c2 - 56320))) s.

Lemma jchars_step s o r' x r : jchar1 s o r' -> jchars r' x r -> jchars s (o ++ x) r.
Proof.
  intros H J. destruct H.
  - apply C_raw; assumption.
  - cbn [app]. apply C_esc; assumption.
  - apply C_u; assumption.
  - apply C_pair; assumption.
Qed.

Lemma gstr_exact strict s : step_exact s = true -> gstr_step strict s = str_step s.
Proof. unfold gstr_step. intros ->. destruct strict; reflexivity. Qed.

Lemma gstr_step_false s : gstr_step false s = str_step s.
Proof. reflexivity. Qed.

Lemma gscan_str_false f s : gscan_str false f s = scan_str f s.
Proof.
  revert s. induction f as [|f IH]; intros s; cbn [gscan_str scan_str]; [reflexivity|].
  rewrite gstr_step_false. destruct (str_step s); try reflexivity. rewrite IH. reflexivity.
Qed.

(* unfolding equations *)
Lemma str_step_u a b c d r2 :
  str_step (92 :: 117 :: a :: b :: c :: d :: r2) =
  match hex4 a b c d with
  | None => SErr
  | Some rr =>
      if is_surrogate rr then
        match getu4 r2 with
        | Some rr1 => if is_high rr && is_low rr1
                      then SEmit (utf8_encode (combine_surr rr rr1)) (skipn 6 r2)
                      else SEmit rune_error r2
        | None => SEmit rune_error r2
        end
      else SEmit (utf8_encode rr) r2
  end.
Proof. reflexivity. Qed.

Lemma step_exact_u a b c d r2 :
  step_exact (92 :: 117 :: a :: b :: c :: d :: r2) =
  match hex4 a b c d with
  | Some rr =>
      if is_surrogate rr then
        match getu4 r2 with
        | Some rr1 => is_high rr && is_low rr1
        | None => false
        end
      else true
  | None => true
  end.
Proof. reflexivity. Qed.

Lemma str_step_esc e r1 : e <> 117 ->
  str_step (92 :: e :: r1) = match short_esc e with Some d => SEmit [d] r1 | None => SErr end.
Proof. intros H. unfold str_step. destruct (Z.eqb_spec e 117); [contradiction|]. reflexivity. Qed.

Lemma step_exact_esc e r1 : e <> 117 -> step_exact (92 :: e :: r1) = true.
Proof. intros H. unfold step_exact. destruct (Z.eqb_spec e 117); [contradiction|]. reflexivity. Qed.

Lemma getu4_u a b c d r : getu4 (92 :: 117 :: a :: b :: c :: d :: r) = hex4 a b c d.
Proof. reflexivity. Qed.

Lemma short_esc_esc1 e d : short_esc e = Some d <-> esc1 e d.
Proof.
  split.
  - unfold short_esc. zb; intros Hq; try discriminate; injection Hq as <-; subst; constructor.
  - intros H; destruct H; reflexivity.
Qed.

Lemma esc1_not_u e d : esc1 e d -> e <> 117.
Proof. intros H; destruct H; discriminate. Qed.

Lemma scalar_not_surr c : scalar c -> is_surrogate c = false.
Proof. unfold scalar, is_surrogate, in_rng. intros H. zb; reflexivity. Qed.

Lemma jchar1_exact s o r : jchar1 s o r -> step_exact s = true /\ str_step s = SEmit o r.
Proof.
  intros H. destruct H as [c s Hs H32 H34 H92 | e d s He | h c s Hh Hs | h1 c1 h2 c2 s Hh1 Hc1 Hh2 Hc2].
  - assert (Hr : 0 <= c <= 1114111) by (unfold scalar in Hs; lia).
    destruct (utf8_encode_head c Hr) as (b & t & E & Hlo & Hhi).
    destruct (Z.ltb_spec c 128) as [Hlt|Hge].
    + rewrite enc1 by assumption. cbn [app]. unfold step_exact, str_step. zb. split; reflexivity.
    + destruct (Hhi Hge) as [Hb Ht].
      pose proof (utf8_size_encode c s Hs) as Hz. rewrite E in *.
      assert (Hf : firstn (length (b :: t)) ((b :: t) ++ s) = b :: t) by apply firstn_len_app.
      assert (Hk : skipn (length (b :: t)) ((b :: t) ++ s) = s) by apply skipn_len_app.
      cbn [length app] in Hz, Hf, Hk. cbn [app].
      unfold step_exact, str_step. rewrite Hz. zb. rewrite Hf, Hk. split; reflexivity.
  - pose proof (esc1_not_u _ _ He) as Hu.
    rewrite step_exact_esc, str_step_esc by assumption.
    apply short_esc_esc1 in He. rewrite He. split; reflexivity.
  - destruct (hex4d_shape _ _ Hh) as (a & b & c0 & d & ->). cbn [app].
    rewrite step_exact_u, str_step_u. apply hex4d_hex4 in Hh. rewrite Hh.
    rewrite scalar_not_surr by assumption. split; reflexivity.
  - destruct (hex4d_shape _ _ Hh1) as (a & b & c0 & d & ->).
    destruct (hex4d_shape _ _ Hh2) as (a' & b' & c0' & d' & ->). cbn [app].
    rewrite step_exact_u, str_step_u. apply hex4d_hex4 in Hh1. apply hex4d_hex4 in Hh2.
    rewrite Hh1, getu4_u, Hh2.
    assert (E1 : is_surrogate c1 = true) by (unfold is_surrogate, in_rng; zb; reflexivity).
    assert (E2 : is_high c1 = true) by (unfold is_high, in_rng; zb; reflexivity).
    assert (E3 : is_low c2 = true) by (unfold is_low, in_rng; zb; reflexivity).
    rewrite E1, E2, E3. cbn [andb skipn]. split; reflexivity.
Qed.

Lemma jchar1_step strict s o r : jchar1 s o r -> gstr_step strict s = SEmit o r.
Proof. intros H. apply jchar1_exact in H as [E S]. rewrite gstr_exact by assumption. exact S. Qed.

Lemma gstr_step_true_emit s o r : gstr_step true s = SEmit o r -> jchar1 s o r.
Proof.
  unfold gstr_step. destruct (step_exact s) eqn:E; cbn [andb negb]; [|discriminate].
  destruct s as [|c s]; [discriminate|].
  destruct (Z.eq_dec c 92) as [->|Hc92].
  - destruct s as [|e r1]; [discriminate|].
    destruct (Z.eq_dec e 117) as [->|He].
    + destruct r1 as [|a [|b [|c2 [|d r2]]]]; try discriminate.
      rewrite str_step_u. rewrite step_exact_u in E.
      destruct (hex4 a b c2 d) as [rr|] eqn:Hh; [|discriminate].
      pose proof Hh as Hd. apply hex4d_hex4 in Hd. pose proof (hex4d_range _ _ Hd) as Hrr.
      destruct (is_surrogate rr) eqn:Hs.
      * destruct (getu4 r2) as [rr1|] eqn:Hg; [|discriminate].
        rewrite E. intros Hq; injection Hq as <- <-.
        destruct r2 as [|x1 [|x2 [|a' [|b' [|c' [|d' r3]]]]]]; try discriminate.
        unfold getu4 in Hg.
        destruct (Z.eqb_spec x1 92); [|discriminate]. destruct (Z.eqb_spec x2 117); [|discriminate].
        cbn [andb] in Hg. subst x1 x2. apply hex4d_hex4 in Hg.
        apply andb_true_iff in E as [E1 E2]. unfold is_high, is_low, in_rng in E1, E2.
        apply andb_true_iff in E1 as [E1 E1']. apply andb_true_iff in E2 as [E2 E2'].
        apply Z.leb_le in E1, E1', E2, E2'.
        cbn [skipn]. unfold combine_surr.
        exact (J1_pair [a; b; c2; d] rr [a'; b'; c'; d'] rr1 r3 Hd (conj E1 E1') Hg (conj E2 E2')).
      * intros Hq; injection Hq as <- <-.
        apply (J1_u [a; b; c2; d] rr r2 Hd).
        unfold is_surrogate, in_rng in Hs. unfold scalar. zbh Hs; try discriminate; lia.
    + rewrite str_step_esc by assumption.
      destruct (short_esc e) as [d|] eqn:Hd; [|discriminate].
      intros Hq; injection Hq as <- <-. apply J1_esc. apply short_esc_esc1. assumption.
  - unfold str_step. unfold step_exact in E.
    destruct (Z.eqb_spec c 92); [contradiction|].
    destruct (Z.eqb_spec c 34); [discriminate|].
    destruct (Z.ltb_spec c 32); [discriminate|].
    destruct (Z.ltb_spec c 128).
    + intros Hq; injection Hq as <- <-.
      assert (Hsc : scalar c) by (unfold scalar; lia).
      pose proof (J1_raw c s Hsc ltac:(lia) ltac:(lia) ltac:(lia)) as J.
      rewrite enc1 in J by assumption. exact J.
    + destruct (utf8_size (c :: s)) as [|k] eqn:Hz; [discriminate|].
      intros Hq; injection Hq as <- <-.
      destruct (utf8_size_decode c s (S k) ltac:(lia) Hz ltac:(discriminate)) as (c0 & Hsc & Hc0 & Hf & Hl).
      pose proof (J1_raw c0 (skipn (S k) (c :: s)) Hsc ltac:(lia) ltac:(lia) ltac:(lia)) as J.
      rewrite <- Hf in J. rewrite firstn_skipn in J. exact J.
Qed.

Lemma str_step_end s r : str_step s = SEnd r -> s = 34 :: r.
Proof.
  destruct s as [|c s]; [discriminate|]. unfold str_step.
  destruct (Z.eqb_spec c 34); [intros Hq; injection Hq as <-; subst; reflexivity|].
  destruct (c =? 92).
  { destruct s as [|e r1]; [discriminate|]. destruct (e =? 117).
    - destruct r1 as [|a [|b [|c2 [|d r2]]]]; try discriminate.
      destruct (hex4 a b c2 d); [|discriminate]. destruct (is_surrogate z); [|discriminate].
      destruct (getu4 r2); [|discriminate]. destruct (is_high z && is_low z0); discriminate.
    - destruct (short_esc e); discriminate. }
  destruct (c <? 32); [discriminate|]. destruct (c <? 128); [discriminate|].
  destruct (utf8_size (c :: s)); discriminate.
Qed.

Lemma gstr_step_end strict s r : gstr_step strict s = SEnd r -> s = 34 :: r.
Proof.
  unfold gstr_step. destruct (strict && negb (step_exact s)); [discriminate|]. apply str_step_end.
Qed.

Lemma str_step_dec s :
  match str_step s with SEnd r => (length r < length s)%nat | SEmit _ r => (length r < length s)%nat | SErr => True end.
Proof.
  destruct s as [|c s]; [exact I|]. unfold str_step.
  destruct (c =? 34); [cbn [length]; lia|].
  destruct (c =? 92).
  { destruct s as [|e r1]; [exact I|]. destruct (e =? 117).
    - destruct r1 as [|a [|b [|c2 [|d r2]]]]; try exact I.
      destruct (hex4 a b c2 d); [|exact I]. pose proof (skipn_length 6 r2).
      destruct (is_surrogate z); [|cbn [length]; lia].
      destruct (getu4 r2); [|cbn [length]; lia].
      destruct (is_high z && is_low z0); cbn [length]; lia.
    - destruct (short_esc e); [cbn [length]; lia|exact I]. }
  destruct (c <? 32); [exact I|]. destruct (c <? 128); [cbn [length]; lia|].
  destruct (utf8_size (c :: s)); [cbn [length]; lia|].
  cbn [skipn length]. pose proof (skipn_length n s). lia.
Qed.

Lemma gstr_step_dec strict s :
  match gstr_step strict s with SEnd r => (length r < length s)%nat | SEmit _ r => (length r < length s)%nat | SErr => True end.
Proof.
  unfold gstr_step. destruct (strict && negb (step_exact s)); [exact I|]. apply str_step_dec.
Qed.

Lemma gstr_step_nil strict : gstr_step strict [] = SErr.
Proof. destruct strict; reflexivity. Qed.

Lemma gscan_str_fuel strict f1 f2 s : (length s <= f1)%nat -> (length s <= f2)%nat -> gscan_str strict f1 s = gscan_str strict f2 s.
Proof.
  revert f2 s. induction f1 as [|f1 IH]; intros f2 s H1 H2.
  - destruct s; [|cbn [length] in H1; lia]. destruct f2; cbn [gscan_str]; [reflexivity|].
    rewrite gstr_step_nil. reflexivity.
  - destruct f2 as [|f2].
    + destruct s; [|cbn [length] in H2; lia]. cbn [gscan_str]. rewrite gstr_step_nil. reflexivity.
    + cbn [gscan_str]. pose proof (gstr_step_dec strict s) as D.
      destruct (gstr_step strict s) as [r|o r|]; try reflexivity.
      rewrite (IH f2 r) by lia. reflexivity.
Qed.

Lemma gscan_str_rest strict f s x r : gscan_str strict f s = Some (x, r) -> (length r < length s)%nat.
Proof.
  revert s x. induction f as [|f IH]; intros s x; cbn [gscan_str]; [discriminate|].
  pose proof (gstr_step_dec strict s) as D.
  destruct (gstr_step strict s) as [r0|o r0|]; try discriminate.
  - intros Hq; injection Hq as <- <-. exact D.
  - destruct (gscan_str strict f r0) as [[x' r']|] eqn:G; [|discriminate].
    intros Hq; injection Hq as <- <-. apply IH in G. lia.
Qed.

Lemma gstr_step_quote strict r : gstr_step strict (34 :: r) = SEnd r.
Proof. destruct strict; reflexivity. Qed.

Lemma gscan_emit strict f s o r' x r :
  jchar1 s o r' -> gscan_str strict f r' = Some (x, r) -> gscan_str strict (S f) s = Some (o ++ x, r).
Proof. intros J G. cbn [gscan_str]. rewrite (jchar1_step strict _ _ _ J), G. reflexivity. Qed.

Lemma gscan_str_complete s x r : jchars s x r -> forall strict f, (length s <= f)%nat -> gscan_str strict f s = Some (x, r).
Proof.
  assert (K : forall s o r' x r, jchar1 s o r' ->
              (forall strict f, (length r' <= f)%nat -> gscan_str strict f r' = Some (x, r)) ->
              forall strict f, (length s <= f)%nat -> gscan_str strict f s = Some (o ++ x, r)).
  { intros s0 o r' x0 r0 J IH strict f Hf.
    pose proof (gstr_step_dec strict s0) as D. rewrite (jchar1_step strict _ _ _ J) in D.
    destruct f as [|f]; [lia|]. apply (gscan_emit strict f _ _ _ _ _ J). apply IH. lia. }
  induction 1 as [r | c s x r Hs H32 H34 H92 J IH | e d s x r He J IH | h c s x r Hh Hs J IH
                  | h1 c1 h2 c2 s x r Hh1 Hc1 Hh2 Hc2 J IH]; intros strict f Hf.
  - destruct f as [|f]; [cbn [length] in Hf; lia|]. cbn [gscan_str]. rewrite gstr_step_quote. reflexivity.
  - apply (K _ _ _ _ _ (J1_raw c s Hs H32 H34 H92) IH). assumption.
  - apply (K _ _ _ _ _ (J1_esc e d s He) IH strict f). assumption.
  - apply (K _ _ _ _ _ (J1_u h c s Hh Hs) IH). assumption.
  - apply (K _ _ _ _ _ (J1_pair h1 c1 h2 c2 s Hh1 Hc1 Hh2 Hc2) IH). assumption.
Qed.

Lemma gscan_str_sound f s x r : gscan_str true f s = Some (x, r) -> jchars s x r.
Proof.
  revert s x. induction f as [|f IH]; intros s x; cbn [gscan_str]; [discriminate|].
  destruct (gstr_step true s) as [r0|o r0|] eqn:G; try discriminate.
  - intros Hq; injection Hq as <- <-. apply gstr_step_end in G. subst. constructor.
  - destruct (gscan_str true f r0) as [[x' r']|] eqn:G'; [|discriminate].
    intros Hq; injection Hq as <- <-. apply gstr_step_true_emit in G.
    eapply jchars_step; [exact G|]. apply IH. exact G'.
Qed.

Lemma gstr_step_true_false s : gstr_step true s <> SErr -> gstr_step false s = gstr_step true s.
Proof.
  unfold gstr_step. destruct (step_exact s); cbn [andb negb]; [reflexivity|]. intros H; contradiction H; reflexivity.
Qed.

Lemma gscan_str_lenient f s x r : gscan_str true f s = Some (x, r) -> gscan_str false f s = Some (x, r).
Proof.
  revert s x. induction f as [|f IH]; intros s x; cbn [gscan_str]; [discriminate|].
  destruct (gstr_step true s) as [r0|o r0|] eqn:G; try discriminate.
  - rewrite gstr_step_true_false by (rewrite G; discriminate). rewrite G. trivial.
  - rewrite gstr_step_true_false by (rewrite G; discriminate). rewrite G.
    destruct (gscan_str true f r0) as [[x' r']|] eqn:G'; [|discriminate].
    intros Hq; injection Hq as <- <-. rewrite (IH _ _ G'). reflexivity.
Qed.

(* ---------- the encoder ---------- *)

(* what the encoder makes of ill-formed UTF-8: every offending byte becomes U+FFFD *)
Fixpoint sanitize_fuel (fuel : nat) (s : str) : str :=
  match fuel with
  | O => []
  | S f => match s with
           | [] => []
           | c :: r => if c <? 128 then c :: sanitize_fuel f r
                       else match utf8_size s with
                            | O => rune_error ++ sanitize_fuel f r
                            | n => firstn n s ++ sanitize_fuel f (skipn n s)
                            end
           end
  end.
Definition sanitize (s : str) : str := sanitize_fuel (length s) s.

Lemma sanitize_fuel_indep f1 f2 s : (length s <= f1)%nat -> (length s <= f2)%nat ->
  sanitize_fuel f1 s = sanitize_fuel f2 s.
Proof.
  revert f2 s. induction f1 as [|f1 IH]; intros f2 s H1 H2.
  - destruct s; [|cbn [length] in H1; lia]. destruct f2; reflexivity.
  - destruct s as [|c r]; [destruct f2; reflexivity|].
    destruct f2 as [|f2]; [cbn [length] in H2; lia|].
    cbn [length] in H1, H2. cbn [sanitize_fuel].
    destruct (c <? 128); [f_equal; apply IH; lia|].
    destruct (utf8_size (c :: r)) as [|k]; f_equal; apply IH; try lia.
    + cbn [skipn]. pose proof (skipn_length k r). lia.
    + cbn [skipn]. pose proof (skipn_length k r). lia.
Qed.

Lemma sanitize_nil : sanitize [] = [].
Proof. reflexivity. Qed.

Lemma sanitize_cons c r :
  sanitize (c :: r) =
  if c <? 128 then c :: sanitize r
  else match utf8_size (c :: r) with
       | O => rune_error ++ sanitize r
       | S k => firstn (S k) (c :: r) ++ sanitize (skipn (S k) (c :: r))
       end.
Proof.
  unfold sanitize at 1. cbn [length sanitize_fuel].
  destruct (c <? 128); [reflexivity|].
  destruct (utf8_size (c :: r)) as [|k]; [reflexivity|].
  f_equal. unfold sanitize. apply sanitize_fuel_indep; [|lia].
  cbn [skipn]. pose proof (skipn_length k r). lia.
Qed.

Lemma sanitize_valid_fuel f s : utf8_valid_fuel f s = true -> sanitize_fuel f s = s.
Proof.
  revert s. induction f as [|f IH]; intros s; cbn [utf8_valid_fuel sanitize_fuel].
  - destruct s; [reflexivity|discriminate].
  - destruct s as [|c r]; [reflexivity|].
    destruct (utf8_size (c :: r)) as [|k] eqn:Hz; [discriminate|].
    intros H. apply IH in H.
    destruct (Z.ltb_spec c 128) as [Hc|Hc].
    + unfold utf8_size in Hz. destruct (Z.ltb_spec c 128); [|lia]. injection Hz as <-.
      cbn [skipn] in H. rewrite H. reflexivity.
    + rewrite H. apply firstn_skipn.
Qed.

Lemma sanitize_valid s : utf8_valid s = true -> sanitize s = s.
Proof. apply sanitize_valid_fuel. Qed.

Lemma utf8_encode_bytes c : 128 <= c <= 1114111 -> Forall (fun b => 128 <= b < 256) (utf8_encode c).
Proof. intros H. unfold utf8_encode. zb; repeat constructor; lia. Qed.

(* a well-formed multi-byte sequence is copied: it is one raw grammar character *)
Lemma copied_char c r k : 128 <= c -> utf8_size (c :: r) = S k ->
  (forall t, jchar1 (firstn (S k) (c :: r) ++ t) (firstn (S k) (c :: r)) t) /\
  Forall (fun b => 32 <= b < 256) (firstn (S k) (c :: r)).
Proof.
  intros Hc Hz.
  destruct (utf8_size_decode c r (S k) Hc Hz ltac:(discriminate)) as (c0 & Hsc & Hc0 & Hf & Hl).
  rewrite Hf. split.
  - intros t. apply J1_raw; [assumption|lia|lia|lia].
  - assert (Hr : 128 <= c0 <= 1114111) by (unfold scalar in Hsc; lia).
    pose proof (utf8_encode_bytes c0 Hr) as B. eapply Forall_impl; [|exact B].
    cbv beta. intros; lia.
Qed.

Lemma hex4d_00 c : 0 <= c < 256 -> hex4d [48; 48; hexdig (c / 16); hexdig (c mod 16)] c.
Proof.
  intros H.
  assert (K : hex4d [48; 48; hexdig (c / 16); hexdig (c mod 16)] (0 * 4096 + 0 * 256 + (c / 16) * 16 + c mod 16)).
  { constructor; try (apply hexd_of; lia); apply hexd_hexdig; lia. }
  replace (0 * 4096 + 0 * 256 + (c / 16) * 16 + c mod 16) with c in K by lia. exact K.
Qed.

Lemma hex4d_fffd : hex4d [102; 102; 102; 100] 65533.
Proof. apply hex4d_hex4. reflexivity. Qed.

Lemma hex4d_202x b2 : b2 = 168 \/ b2 = 169 -> hex4d [50; 48; 50; hexdig (b2 - 160)] (b2 + 8064).
Proof. intros [->| ->]; apply hex4d_hex4; reflexivity. Qed.

Definition out_ok (o : str) : Prop := Forall (fun b => 32 <= b < 256) o.

(* one step of appendString *)
Lemma enc_step_spec c r o r' : bytes_ok (c :: r) -> enc_step (c :: r) = (o, r') ->
  exists d, (forall t, jchar1 (o ++ t) d t) /\ sanitize (c :: r) = d ++ sanitize r' /\
            (length r' < length (c :: r))%nat /\ bytes_ok r' /\ out_ok o.
Proof.
  intros B. inversion B as [|c' r0 Hc Br]; subst. unfold is_byte in Hc.
  rewrite sanitize_cons. unfold enc_step, out_ok.
  destruct (Z.ltb_spec c 128) as [Hlt|Hge].
  - assert (Hsc : scalar c) by (unfold scalar; lia).
    assert (U : forall t, jchar1 (92 :: 117 :: [48; 48; hexdig (c / 16); hexdig (c mod 16)] ++ t) [c] t).
    { intros t. pose proof (J1_u _ c t (hex4d_00 c Hc) Hsc) as J. rewrite enc1 in J by assumption. exact J. }
    pose proof (hexdig_range (c / 16) ltac:(lia)) as D1.
    pose proof (hexdig_range (c mod 16) ltac:(lia)) as D2.
    assert (E : forall e, esc1 e c -> 32 <= e < 256 ->
                exists d, (forall t, jchar1 ([92; e] ++ t) d t) /\ c :: sanitize r = d ++ sanitize r /\
                          (length r < length (c :: r))%nat /\ bytes_ok r /\ Forall (fun b => 32 <= b < 256) [92; e]).
    { intros e He Hr. exists [c]. repeat split; try assumption.
      - intros t. apply J1_esc. assumption.
      - cbn [length]. lia.
      - repeat constructor; lia. }
    destruct (Z.eqb_spec c 34) as [->|N34]; cbn [orb].
    { intros Hq; injection Hq as <- <-. apply E; [constructor|lia]. }
    destruct (Z.eqb_spec c 92) as [->|N92].
    { intros Hq; injection Hq as <- <-. apply E; [constructor|lia]. }
    destruct (Z.eqb_spec c 8) as [->|N8].
    { intros Hq; injection Hq as <- <-. apply E; [constructor|lia]. }
    destruct (Z.eqb_spec c 12) as [->|N12].
    { intros Hq; injection Hq as <- <-. apply E; [constructor|lia]. }
    destruct (Z.eqb_spec c 10) as [->|N10].
    { intros Hq; injection Hq as <- <-. apply E; [constructor|lia]. }
    destruct (Z.eqb_spec c 13) as [->|N13].
    { intros Hq; injection Hq as <- <-. apply E; [constructor|lia]. }
    destruct (Z.eqb_spec c 9) as [->|N9].
    { intros Hq; injection Hq as <- <-. apply E; [constructor|lia]. }
    destruct ((c <? 32) || (c =? 60) || (c =? 62) || (c =? 38)) eqn:Hesc.
    + intros Hq; injection Hq as <- <-. exists [c]. repeat split; try assumption.
      * cbn [length]. lia.
      * repeat constructor; lia.
    + intros Hq; injection Hq as <- <-. exists [c].
      apply orb_false_iff in Hesc as [Hesc _]. apply orb_false_iff in Hesc as [Hesc _].
      apply orb_false_iff in Hesc as [Hesc _]. apply Z.ltb_ge in Hesc.
      repeat split; try assumption.
      * intros t. pose proof (J1_raw c t Hsc Hesc N34 N92) as J. rewrite enc1 in J by assumption. exact J.
      * cbn [length]. lia.
      * repeat constructor; lia.
  - destruct (utf8_size (c :: r)) as [|k] eqn:Hz.
    + intros Hq; injection Hq as <- <-. exists rune_error. repeat split; try assumption.
      * intros t. exact (J1_u _ 65533 t hex4d_fffd ltac:(unfold scalar; lia)).
      * cbn [length]. lia.
      * repeat constructor; lia.
    + destruct (copied_char c r k Hge Hz) as [Jc Bc].
      assert (G : exists d, (forall t, jchar1 (firstn (S k) (c :: r) ++ t) d t) /\
                  firstn (S k) (c :: r) ++ sanitize (skipn (S k) (c :: r)) = d ++ sanitize (skipn (S k) (c :: r)) /\
                  (length (skipn (S k) (c :: r)) < length (c :: r))%nat /\ bytes_ok (skipn (S k) (c :: r)) /\
                  Forall (fun b => 32 <= b < 256) (firstn (S k) (c :: r))).
      { exists (firstn (S k) (c :: r)). repeat split; try assumption.
        - cbn [skipn length]. pose proof (skipn_length k r). lia.
        - apply Forall_skipn_. assumption. }
      destruct r as [|b1 [|b2 r3]]; try (intros Hq; injection Hq as <- <-; exact G).
      destruct ((c =? 226) && (b1 =? 128) && ((b2 =? 168) || (b2 =? 169))) eqn:Hls;
        [|intros Hq; injection Hq as <- <-; exact G].
      apply andb_true_iff in Hls as [Hls H3]. apply andb_true_iff in Hls as [H1 H2].
      apply Z.eqb_eq in H1, H2. subst c b1.
      assert (Hb2 : b2 = 168 \/ b2 = 169).
      { apply orb_true_iff in H3 as [H3|H3]; apply Z.eqb_eq in H3; auto. }
      assert (Hk : k = 2%nat) by (destruct Hb2; subst b2; vm_compute in Hz; congruence).
      subst k. cbn [firstn skipn].
      intros Hq; injection Hq as <- <-. exists [226; 128; b2]. repeat split.
      * intros t. pose proof (J1_u _ (b2 + 8064) t (hex4d_202x b2 Hb2) ltac:(unfold scalar; lia)) as J.
        replace (utf8_encode (b2 + 8064)) with [226; 128; b2] in J by (destruct Hb2; subst b2; reflexivity).
        exact J.
      * cbn [length]. lia.
      * inversion Br as [|? ? ? Br1]; subst. inversion Br1; subst. assumption.
      * pose proof (hexdig_range (b2 - 160) ltac:(lia)). repeat constructor; lia.
Qed.

Lemma enc_body_chars f s : bytes_ok s -> (length s <= f)%nat -> forall t, jchars (enc_body f s ++ 34 :: t) (sanitize s) t.
Proof.
  revert s. induction f as [|f IH]; intros s B Hf t.
  - destruct s; [|cbn [length] in Hf; lia]. cbn [enc_body app]. rewrite sanitize_nil. constructor.
  - destruct s as [|c r]; [cbn [enc_body app]; rewrite sanitize_nil; constructor|].
    cbn [enc_body]. destruct (enc_step (c :: r)) as [o r'] eqn:E.
    destruct (enc_step_spec c r o r' B E) as (d & J & S & L & B' & _).
    rewrite S, <- app_assoc. eapply jchars_step; [apply J|]. apply IH; [assumption|]. cbn [length] in *. lia.
Qed.

Lemma enc_body_bytes f s : bytes_ok s -> Forall (fun b => 32 <= b < 256) (enc_body f s).
Proof.
  revert s. induction f as [|f IH]; intros s B; [constructor|].
  destruct s as [|c r]; [constructor|].
  cbn [enc_body]. destruct (enc_step (c :: r)) as [o r'] eqn:E.
  destruct (enc_step_spec c r o r' B E) as (d & _ & _ & _ & B' & O).
  apply Forall_app. split; [exact O|]. apply IH. assumption.
Qed.

Theorem encode_string_spells s t : bytes_ok s -> jvalue (encode_string s ++ t) (JStr (sanitize s)) t.
Proof.
  intros B. unfold encode_string. cbn [app]. rewrite <- app_assoc. cbn [app].
  apply V_str. apply enc_body_chars; [assumption|lia].
Qed.

Theorem encode_string_bytes s : bytes_ok s -> Forall (fun b => 32 <= b < 256) (encode_string s).
Proof.
  intros B. unfold encode_string. constructor; [lia|]. apply Forall_app. split.
  - apply enc_body_bytes. assumption.
  - repeat constructor; lia.
Qed.

Theorem encode_string_no_lf s : bytes_ok s -> ~ In 10 (encode_string s).
Proof.
  intros B H. pose proof (encode_string_bytes s B) as F. rewrite Forall_forall in F. apply F in H. lia.
Qed.

Theorem decode_encode_gen s : bytes_ok s -> decode_string (encode_string s) = Some (sanitize s).
Proof.
  intros B. unfold encode_string, decode_string. cbn [Z.eqb Pos.eqb].
  rewrite <- gscan_str_false.
  pose proof (enc_body_chars (length s) s B (le_n _) []) as J.
  rewrite (gscan_str_complete _ _ _ J false _ (le_n _)). reflexivity.
Qed.

Theorem decode_encode s : bytes_ok s -> utf8_valid s = true -> decode_string (encode_string s) = Some s.
Proof. intros B V. rewrite decode_encode_gen by assumption. rewrite sanitize_valid by assumption. reflexivity. Qed.

Example encode_string_example :
  encode_string [1; 60; 226; 128; 168; 255; 195; 169; 127; 34; 10] =
  [34; 92;117;48;48;48;49; 92;117;48;48;51;99; 92;117;50;48;50;56; 92;117;102;102;102;100; 195;169; 127; 92;34; 92;110; 34].
Proof. vm_compute. reflexivity. Qed.

Print Assumptions gscan_str_complete.
Print Assumptions gscan_str_sound.
Print Assumptions gscan_str_lenient.
Print Assumptions sanitize_valid.
Print Assumptions enc_body_chars.
Print Assumptions enc_body_bytes.
Print Assumptions encode_string_spells.
Print Assumptions encode_string_bytes.
Print Assumptions encode_string_no_lf.
Print Assumptions decode_encode_gen.
Print Assumptions decode_encode.
Print Assumptions encode_string_example.
