(* The reference recogniser of GoJson.v Part B.2 decides the RFC 8259 grammar of Part B.1. *)
From Coq Require Import ZArith List Bool Lia.
From JL.std Require Import GoBase GoStrconv GoJsonNum GoJson.
From JL.proofs Require Import JsonNumber.
Import ListNotations.
Open Scope Z_scope.

(* let lia see through division and modulo by constants *)
Ltac Zify.zify_post_hook ::= Z.div_mod_to_equations.

(* ---------------------------------------------------------------------------------- *)
(* tactics: boolean tests on Z <-> propositions                                         *)
(* ---------------------------------------------------------------------------------- *)

Ltac b2p H :=
  rewrite ?andb_true_iff, ?orb_true_iff, ?andb_false_iff, ?orb_false_iff,
          ?Z.eqb_eq, ?Z.eqb_neq, ?Z.leb_le, ?Z.leb_gt, ?Z.ltb_lt, ?Z.ltb_ge in H.

Ltac b2pg :=
  rewrite ?andb_true_iff, ?orb_true_iff, ?andb_false_iff, ?orb_false_iff,
          ?Z.eqb_eq, ?Z.eqb_neq, ?Z.leb_le, ?Z.leb_gt, ?Z.ltb_lt, ?Z.ltb_ge.

(* split on the first boolean test of the goal / of hypothesis H *)
Ltac case_if :=
  match goal with
  | |- context [if ?c then _ else _] =>
      lazymatch type of c with bool => idtac end;
      let E := fresh "E" in destruct c eqn:E; b2p E
  end.

Ltac case_if_in H :=
  match type of H with
  | context [if ?c then _ else _] =>
      lazymatch type of c with bool => idtac end;
      let E := fresh "E" in destruct c eqn:E; b2p E
  end.

Tactic Notation "case_if_at" hyp(H) "as" ident(E) :=
  match type of H with
  | context [if ?c then _ else _] =>
      lazymatch type of c with bool => idtac end;
      destruct c eqn:E; b2p E
  end.

Ltac if_true := case_if; [|exfalso; lia].
Ltac if_false := case_if; [exfalso; lia|].

(* ---------------------------------------------------------------------------------- *)
(* whitespace                                                                          *)
(* ---------------------------------------------------------------------------------- *)

Lemma ws_r_ws s : ws s (r_ws s).
Proof.
  induction s as [|c s IH]; cbn [r_ws]; [constructor|].
  case_if; [|constructor].
  apply ws_cons; [lia|exact IH].
Qed.

Definition nows_head (s : str) : Prop :=
  match s with [] => True | c :: _ => c <> 32 /\ c <> 9 /\ c <> 10 /\ c <> 13 end.

Lemma r_ws_unique s s' : ws s s' -> nows_head s' -> r_ws s = s'.
Proof.
  induction 1 as [s|c s s' Hc Hw IH]; intros Hn.
  - destruct s as [|c s]; [reflexivity|]. cbn [r_ws]. cbn in Hn. if_false. reflexivity.
  - cbn [r_ws]. if_true. apply IH, Hn.
Qed.

Lemma ws_len s s' : ws s s' -> (length s' <= length s)%nat.
Proof. induction 1; cbn [length]; lia. Qed.

Lemma ws_trans a b c : ws a b -> ws b c -> ws a c.
Proof. induction 1; intros; [assumption|]. apply ws_cons; auto. Qed.

Definition val_follow (r : str) : Prop :=
  match r with [] => True | c :: _ => c = 32 \/ c = 9 \/ c = 10 \/ c = 13 \/ c = 44 \/ c = 93 \/ c = 125 end.

Definition delim_head (s : str) : Prop :=
  match s with [] => True | c :: _ => c = 44 \/ c = 93 \/ c = 125 end.

Lemma ws_val_follow s x : ws s x -> delim_head x -> val_follow s.
Proof.
  induction 1 as [s|c s s' Hc Hw IH]; intros Hd.
  - destruct s; cbn in *; [trivial|lia].
  - cbn. lia.
Qed.

Lemma delim_nows x : delim_head x -> nows_head x.
Proof. destruct x; cbn; [trivial|lia]. Qed.

Lemma val_follow_num r : val_follow r -> num_follow r.
Proof.
  destruct r as [|c r]; cbn; [trivial|]. intros H. unfold r_numchar.
  b2pg. lia.
Qed.

(* ---------------------------------------------------------------------------------- *)
(* hex digits, scalar values, UTF-8                                                     *)
(* ---------------------------------------------------------------------------------- *)

Lemma r_hex_sound c v : r_hex c = Some v -> hexd c v.
Proof.
  unfold r_hex. intros H.
  case_if_in H. { inversion H; subst. apply hexd_dec; lia. }
  case_if_in H. { inversion H; subst. apply hexd_low; lia. }
  case_if_in H. { inversion H; subst. apply hexd_up; lia. }
  discriminate.
Qed.

Lemma r_hex_complete c v : hexd c v -> r_hex c = Some v.
Proof.
  destruct 1; unfold r_hex.
  - if_true. reflexivity.
  - if_false. if_true. reflexivity.
  - if_false. if_false. if_true. reflexivity.
Qed.

Lemma r_hex4_sound s c r : r_hex4 s = Some (c, r) -> exists h, hex4d h c /\ s = h ++ r.
Proof.
  destruct s as [|a [|b [|c0 [|d r0]]]]; try discriminate.
  unfold r_hex4.
  destruct (r_hex a) eqn:Ea; try discriminate.
  destruct (r_hex b) eqn:Eb; try discriminate.
  destruct (r_hex c0) eqn:Ec; try discriminate.
  destruct (r_hex d) eqn:Ed; try discriminate.
  intros H; inversion H; subst.
  exists [a; b; c0; d]. split; [|reflexivity].
  constructor; apply r_hex_sound; assumption.
Qed.

Lemma r_hex4_complete h c r : hex4d h c -> r_hex4 (h ++ r) = Some (c, r).
Proof.
  destruct 1 as [a b c d x y z w Ha Hb Hc Hd]. cbn [app]. unfold r_hex4.
  rewrite (r_hex_complete _ _ Ha), (r_hex_complete _ _ Hb), (r_hex_complete _ _ Hc), (r_hex_complete _ _ Hd).
  reflexivity.
Qed.

Lemma hex4d_length h c : hex4d h c -> length h = 4%nat.
Proof. destruct 1; reflexivity. Qed.

Lemma r_scalar_iff c : r_scalar c = true <-> scalar c.
Proof. unfold r_scalar, scalar. b2pg. lia. Qed.

Lemma utf8_ascii c : c < 128 -> utf8_encode c = [c].
Proof. intros H. unfold utf8_encode. if_true. reflexivity. Qed.

Lemma utf8_enc2 c : 128 <= c < 2048 -> utf8_encode c = [192 + c / 64; 128 + c mod 64].
Proof. intros H. unfold utf8_encode. if_false. if_true. reflexivity. Qed.

Lemma utf8_enc3 c : 2048 <= c < 65536 ->
  utf8_encode c = [224 + c / 4096; 128 + (c / 64) mod 64; 128 + c mod 64].
Proof. intros H. unfold utf8_encode. if_false. if_false. if_true. reflexivity. Qed.

Lemma utf8_enc4 c : 65536 <= c ->
  utf8_encode c = [240 + c / 262144; 128 + (c / 4096) mod 64; 128 + (c / 64) mod 64; 128 + c mod 64].
Proof. intros H. unfold utf8_encode. if_false. if_false. if_false. reflexivity. Qed.

Lemma utf8_two c l : utf8_encode c = l -> (2 <= length l)%nat -> 128 <= c.
Proof.
  intros He Hl. destruct (Z_lt_le_dec c 128) as [L|L]; [|exact L].
  rewrite utf8_ascii in He by lia. subst l. cbn in Hl. lia.
Qed.

Lemma utf8_head c : 128 <= c -> exists b0 t, utf8_encode c = b0 :: t /\ 128 <= b0.
Proof.
  intros H.
  destruct (Z_lt_le_dec c 2048); [|destruct (Z_lt_le_dec c 65536)].
  - rewrite utf8_enc2 by lia. eexists _, _. split; [reflexivity|]. lia.
  - rewrite utf8_enc3 by lia. eexists _, _. split; [reflexivity|]. lia.
  - rewrite utf8_enc4 by lia. eexists _, _. split; [reflexivity|]. lia.
Qed.

Lemma r_utf8_sound s r :
  r_utf8 s = Some r -> exists c, scalar c /\ 128 <= c /\ s = utf8_encode c ++ r.
Proof.
  unfold r_utf8. destruct s as [|b0 [|b1 r0]]; try discriminate.
  intros H. cbv zeta in H. case_if_at H as Ea.
  - case_if_at H as Eb; [|discriminate].
    destruct Eb as [[E1 E2] E3]. apply str_eqb_eq in E3. apply r_scalar_iff in E2.
    inversion H; subst. eexists. split; [exact E2|]. split.
    + eapply utf8_two; [exact E3|cbn; lia].
    + rewrite E3. reflexivity.
  - destruct r0 as [|b2 r2]; try discriminate. case_if_at H as Eb.
    + case_if_at H as Ec; [|discriminate].
      destruct Ec as [[[E1 E1'] E2] E3]. apply str_eqb_eq in E3. apply r_scalar_iff in E2.
      inversion H; subst. eexists. split; [exact E2|]. split.
      * eapply utf8_two; [exact E3|cbn; lia].
      * rewrite E3. reflexivity.
    + destruct r2 as [|b3 r3]; try discriminate. case_if_at H as Ec; [|discriminate].
      case_if_at H as Ed; [|discriminate].
      destruct Ed as [[[[E3 E3'] E3''] E4] E5]. apply str_eqb_eq in E5. apply r_scalar_iff in E4.
      inversion H; subst. eexists. split; [exact E4|]. split.
      * eapply utf8_two; [exact E5|cbn; lia].
      * rewrite E5. reflexivity.
Qed.

Lemma r_utf8_2 b0 b1 r c :
  c = (b0 - 192) * 64 + (b1 - 128) ->
  192 <= b0 < 224 -> 128 <= b1 <= 191 -> scalar c -> utf8_encode c = [b0; b1] ->
  r_utf8 (b0 :: b1 :: r) = Some r.
Proof.
  intros Hc H0 H1 Hs He. unfold r_utf8. cbv zeta. rewrite <- Hc.
  unfold r_cont. rewrite He, str_eqb_refl, (proj2 (r_scalar_iff c) Hs), !andb_true_r.
  if_true. if_true. reflexivity.
Qed.

Lemma r_utf8_3 b0 b1 b2 r c :
  c = (b0 - 224) * 4096 + (b1 - 128) * 64 + (b2 - 128) ->
  224 <= b0 < 240 -> 128 <= b1 <= 191 -> 128 <= b2 <= 191 -> scalar c ->
  utf8_encode c = [b0; b1; b2] ->
  r_utf8 (b0 :: b1 :: b2 :: r) = Some r.
Proof.
  intros Hc H0 H1 H2 Hs He. unfold r_utf8. cbv zeta. rewrite <- Hc.
  unfold r_cont. rewrite He, str_eqb_refl, (proj2 (r_scalar_iff c) Hs), !andb_true_r.
  if_false. if_true. if_true. reflexivity.
Qed.

Lemma r_utf8_4 b0 b1 b2 b3 r c :
  c = (b0 - 240) * 262144 + (b1 - 128) * 4096 + (b2 - 128) * 64 + (b3 - 128) ->
  240 <= b0 < 248 -> 128 <= b1 <= 191 -> 128 <= b2 <= 191 -> 128 <= b3 <= 191 -> scalar c ->
  utf8_encode c = [b0; b1; b2; b3] ->
  r_utf8 (b0 :: b1 :: b2 :: b3 :: r) = Some r.
Proof.
  intros Hc H0 H1 H2 H3 Hs He. unfold r_utf8. cbv zeta. rewrite <- Hc.
  unfold r_cont. rewrite He, str_eqb_refl, (proj2 (r_scalar_iff c) Hs), !andb_true_r.
  if_false. if_false. if_true. if_true. reflexivity.
Qed.

Lemma r_utf8_complete c r : scalar c -> 128 <= c -> r_utf8 (utf8_encode c ++ r) = Some r.
Proof.
  intros Hs Hc. unfold scalar in Hs.
  destruct (Z_lt_le_dec c 2048); [|destruct (Z_lt_le_dec c 65536)].
  - assert (He := utf8_enc2 c ltac:(lia)). rewrite He. cbn [app].
    apply r_utf8_2 with (c := c); try exact He; unfold scalar; lia.
  - assert (He := utf8_enc3 c ltac:(lia)). rewrite He. cbn [app].
    apply r_utf8_3 with (c := c); try exact He; unfold scalar; lia.
  - assert (He := utf8_enc4 c ltac:(lia)). rewrite He. cbn [app].
    apply r_utf8_4 with (c := c); try exact He; unfold scalar; lia.
Qed.

(* ---------------------------------------------------------------------------------- *)
(* strings                                                                             *)
(* ---------------------------------------------------------------------------------- *)

Theorem r_chars_sound : forall f s r, r_chars f s = Some r -> exists x, jchars s x r.
Proof.
  induction f as [|f IH]; intros s r H; [discriminate|].
  destruct s as [|c s]; [discriminate|]. cbn [r_chars] in H.
  case_if_at H as E1.
  { subst c. inversion H; subst. exists []. constructor. }
  case_if_at H as E2.
  { subst c. destruct s as [|e r1]; [discriminate|].
    case_if_at H as E3.
    { apply IH in H as [x Hx].
      destruct E3 as [[[[[[[E|E]|E]|E]|E]|E]|E]|E]; subst e; eexists;
        (eapply C_esc; [constructor|eassumption]). }
    case_if_at H as E4; [|discriminate]. subst e.
    destruct (r_hex4 r1) as [[c1 r2]|] eqn:Eh; [|discriminate].
    apply r_hex4_sound in Eh as [h [Hh ->]].
    destruct (r_scalar c1) eqn:Es.
    { apply r_scalar_iff in Es. apply IH in H as [x Hx]. eexists. apply (C_u h c1); eassumption. }
    case_if_at H as E5; [|discriminate].
    destruct r2 as [|bs [|u r3]]; try discriminate.
    case_if_at H as E6; [|discriminate]. destruct E6 as [-> ->].
    destruct (r_hex4 r3) as [[c2 r4]|] eqn:Eh2; [|discriminate].
    case_if_at H as E7; [|discriminate].
    apply r_hex4_sound in Eh2 as [h2 [Hh2 ->]].
    apply IH in H as [x Hx]. eexists.
    apply (C_pair h c1 h2 c2); try eassumption; lia. }
  case_if_at H as E3; [discriminate|].
  case_if_at H as E4.
  { apply IH in H as [x Hx]. exists (utf8_encode c ++ x).
    replace (c :: s) with (utf8_encode c ++ s) by (rewrite utf8_ascii by lia; reflexivity).
    apply C_raw; try lia; [unfold scalar; lia|assumption]. }
  destruct (r_utf8 (c :: s)) as [r'|] eqn:Eu; [|discriminate].
  apply r_utf8_sound in Eu as (c' & Hs & Hc & Heq). rewrite Heq.
  apply IH in H as [x Hx]. exists (utf8_encode c' ++ x).
  apply C_raw; auto; lia.
Qed.

Theorem r_chars_complete : forall s x r, jchars s x r -> forall f, (length s <= f)%nat -> r_chars f s = Some r.
Proof.
  induction 1 as [r | c s x r Hs H32 H34 H92 Hj IH | e d s x r He Hj IH
                  | h c s x r Hh Hs Hj IH | h1 c1 h2 c2 s x r Hh1 Hc1 Hh2 Hc2 Hj IH]; intros f Hf.
  - destruct f; [cbn in Hf; lia|]. reflexivity.
  - destruct (Z_lt_le_dec c 128) as [L|L].
    + rewrite (utf8_ascii c) in * by lia. cbn [app length] in *.
      destruct f; [lia|]. cbn [r_chars].
      if_false. if_false. if_false. if_true. apply IH. lia.
    + destruct (utf8_head c L) as (b0 & t & He & Hb).
      assert (Hu := r_utf8_complete c s Hs L).
      rewrite He in Hu, Hf |- *. cbn [app length] in Hu, Hf |- *.
      destruct f; [lia|]. cbn [r_chars].
      if_false. if_false. if_false. if_false. rewrite Hu. apply IH.
      rewrite app_length in Hf. lia.
  - cbn [length] in Hf. destruct f; [lia|].
    destruct He; cbn [r_chars]; if_false; if_true; if_true; apply IH; lia.
  - cbn [length] in Hf. rewrite app_length in Hf. destruct f; [lia|].
    cbn [r_chars]. if_false. if_true. if_false. if_true.
    rewrite (r_hex4_complete h c s Hh). cbv beta iota.
    rewrite (proj2 (r_scalar_iff c) Hs). apply IH. lia.
  - cbn [length] in Hf. rewrite app_length in Hf. cbn [length] in Hf. rewrite app_length in Hf.
    destruct f; [lia|].
    cbn [r_chars]. if_false. if_true. if_false. if_true.
    rewrite (r_hex4_complete h1 c1 _ Hh1). cbv beta iota.
    destruct (r_scalar c1) eqn:Es; [apply r_scalar_iff in Es; unfold scalar in Es; lia|].
    if_true. if_true.
    rewrite (r_hex4_complete h2 c2 _ Hh2). cbv beta iota.
    if_true. apply IH. lia.
Qed.

(* ---------------------------------------------------------------------------------- *)
(* values: one-step unfoldings of the mutual recogniser                                *)
(* ---------------------------------------------------------------------------------- *)

Lemma r_value_S f c r :
  r_value (S f) (c :: r) =
    if c =? 34 then r_chars (length r) r
    else if c =? 123 then
      match r_ws r with
      | c1 :: r1 => if c1 =? 125 then Some r1 else r_members f (c1 :: r1)
      | [] => None
      end
    else if c =? 91 then
      match r_ws r with
      | c1 :: r1 => if c1 =? 93 then Some r1 else r_elems f (c1 :: r1)
      | [] => None
      end
    else if c =? 116 then
      match r with
      | a :: b :: c2 :: r' => if (a =? 114) && (b =? 117) && (c2 =? 101) then Some r' else None
      | _ => None
      end
    else if c =? 102 then
      match r with
      | a :: b :: c2 :: d :: r' => if (a =? 97) && (b =? 108) && (c2 =? 115) && (d =? 101) then Some r' else None
      | _ => None
      end
    else if c =? 110 then
      match r with
      | a :: b :: c2 :: r' => if (a =? 117) && (b =? 108) && (c2 =? 108) then Some r' else None
      | _ => None
      end
    else
      let (lit, r') := r_span (c :: r) in
      if is_json_number lit then Some r' else None.
Proof. reflexivity. Qed.

Lemma r_elems_S f s :
  r_elems (S f) s =
    match r_value f s with
    | None => None
    | Some r =>
        match r_ws r with
        | c :: r1 =>
            if c =? 93 then Some r1
            else if c =? 44 then r_elems f (r_ws r1)
            else None
        | [] => None
        end
    end.
Proof. reflexivity. Qed.

Lemma r_members_S f q r :
  r_members (S f) (q :: r) =
    if q =? 34 then
      match r_chars (length r) r with
      | None => None
      | Some r1 =>
          match r_ws r1 with
          | col :: r2 =>
              if col =? 58 then
                match r_value f (r_ws r2) with
                | None => None
                | Some r3 =>
                    match r_ws r3 with
                    | c :: r4 =>
                        if c =? 125 then Some r4
                        else if c =? 44 then r_members f (r_ws r4)
                        else None
                    | [] => None
                    end
                end
              else None
          | [] => None
          end
      end
    else None.
Proof. reflexivity. Qed.

Lemma r_value_O s : r_value 0 s = None. Proof. reflexivity. Qed.
Lemma r_elems_O s : r_elems 0 s = None. Proof. reflexivity. Qed.
Lemma r_members_O s : r_members 0 s = None. Proof. reflexivity. Qed.
Lemma r_value_nil f : r_value f [] = None. Proof. destruct f; reflexivity. Qed.
Lemma r_members_nil f : r_members f [] = None. Proof. destruct f; reflexivity. Qed.

(* ---------------------------------------------------------------------------------- *)
(* values: shape facts of the grammar                                                  *)
(* ---------------------------------------------------------------------------------- *)

Definition vhead (c : Z) : Prop :=
  c = 110 \/ c = 116 \/ c = 102 \/ c = 34 \/ c = 91 \/ c = 123 \/ c = 45 \/ 48 <= c <= 57.

Lemma jnumber_head' lit : jnumber lit -> exists c t, lit = c :: t /\ (c = 45 \/ 48 <= c <= 57).
Proof.
  intros H. destruct (jnumber_head lit H) as (c & t & -> & Hc).
  exists c, t. split; [reflexivity|]. destruct Hc as [->|Hd]; [lia|].
  unfold is_digit in Hd. b2p Hd. lia.
Qed.

Lemma jvalue_head s v r : jvalue s v r -> exists c s', s = c :: s' /\ vhead c.
Proof.
  destruct 1; try (eexists _, _; split; [reflexivity|unfold vhead; lia]).
  destruct (jnumber_head' lit H) as (c & t & -> & Hc).
  exists c, (t ++ r). split; [reflexivity|unfold vhead; lia].
Qed.

Lemma vhead_nows c t : vhead c -> nows_head (c :: t).
Proof. unfold vhead. cbn. lia. Qed.

Lemma jvalue_nows s v r : jvalue s v r -> nows_head s.
Proof. intros H. destruct (jvalue_head _ _ _ H) as (c & t & -> & Hc). apply vhead_nows, Hc. Qed.

Lemma jchars_len s x r : jchars s x r -> (length r < length s)%nat.
Proof. induction 1; cbn [length]; rewrite ?app_length; cbn [length]; rewrite ?app_length; lia. Qed.

Scheme jvalue_min := Minimality for jvalue Sort Prop
  with jelems_min := Minimality for jelems Sort Prop
  with jmembers_min := Minimality for jmembers Sort Prop.
Combined Scheme jvalue_mutmin from jvalue_min, jelems_min, jmembers_min.

Lemma j_len :
  (forall s v r, jvalue s v r -> (length r < length s)%nat) /\
  (forall s l r, jelems s l r -> (length r < length s)%nat) /\
  (forall s m r, jmembers s m r -> (length r < length s)%nat).
Proof.
  apply jvalue_mutmin; intros;
    repeat match goal with
           | H : ws _ _ |- _ => apply ws_len in H
           | H : jchars _ _ _ |- _ => apply jchars_len in H
           end;
    cbn [length] in *; try lia.
  destruct (jnumber_head' lit H) as (c & t & -> & _).
  cbn [app length]. rewrite app_length. lia.
Qed.

Lemma jvalue_len s v r : jvalue s v r -> (length r < length s)%nat.
Proof. apply j_len. Qed.

Lemma jelems_ws s s1 l r : ws s s1 -> jelems s1 l r -> jelems s l r.
Proof.
  intros Hw He. inversion He; subst.
  - eapply E_last; [eapply ws_trans; eassumption|eassumption..].
  - eapply E_more; [eapply ws_trans; eassumption|eassumption..].
Qed.

Lemma jmembers_ws s s1 m r : ws s s1 -> jmembers s1 m r -> jmembers s m r.
Proof.
  intros Hw Hm. inversion Hm; subst.
  - eapply M_last; [eapply ws_trans; eassumption|eassumption..].
  - eapply M_more; [eapply ws_trans; eassumption|eassumption..].
Qed.

Lemma jelems_start s l r : jelems s l r -> exists c t, r_ws s = c :: t /\ vhead c.
Proof.
  intros H. inversion H; subst;
    match goal with Hv : jvalue ?s1 _ _, Hw : ws s ?s1 |- _ =>
      destruct (jvalue_head _ _ _ Hv) as (c & t & -> & Hc);
      exists c, t; split; [apply r_ws_unique; [exact Hw|apply vhead_nows, Hc]|exact Hc]
    end.
Qed.

Lemma jmembers_start s m r : jmembers s m r -> exists t, r_ws s = 34 :: t.
Proof.
  intros H. inversion H; subst;
    match goal with Hw : ws s (34 :: ?s1) |- _ =>
      exists s1; apply r_ws_unique; [exact Hw|cbn; lia]
    end.
Qed.

(* ---------------------------------------------------------------------------------- *)
(* values: grammar => recogniser                                                       *)
(* ---------------------------------------------------------------------------------- *)

Lemma complete_all :
  (forall s v r, jvalue s v r -> val_follow r ->
     forall f, (2 * length s + 1 <= f)%nat -> r_value f s = Some r) /\
  (forall s l r, jelems s l r ->
     forall f, (2 * length s + 2 <= f)%nat -> r_elems f (r_ws s) = Some r) /\
  (forall s m r, jmembers s m r ->
     forall f, (2 * length s + 2 <= f)%nat -> r_members f (r_ws s) = Some r).
Proof.
  apply jvalue_mutmin.
  - (* null *) intros r _ f Hf. destruct f; [lia|]. reflexivity.
  - (* true *) intros r _ f Hf. destruct f; [lia|]. reflexivity.
  - (* false *) intros r _ f Hf. destruct f; [lia|]. reflexivity.
  - (* number *)
    intros lit r Hn Hv f Hf. destruct f; [lia|].
    destruct (jnumber_head' lit Hn) as (c & t & El & Hc).
    assert (Es := r_span_number lit r Hn (val_follow_num r Hv)).
    rewrite El in Es |- *. cbn [app] in Es |- *. rewrite r_value_S.
    if_false. if_false. if_false. if_false. if_false. if_false.
    rewrite Es. rewrite <- El. rewrite (proj2 (is_json_number_iff lit) Hn). reflexivity.
  - (* string *)
    intros s x r Hc _ f Hf. destruct f; [lia|]. rewrite r_value_S. if_true.
    apply (r_chars_complete s x r Hc). lia.
  - (* [] *)
    intros s r Hw _ f Hf. destruct f; [lia|]. rewrite r_value_S.
    if_false. if_false. if_true.
    rewrite (r_ws_unique s (93 :: r) Hw) by (cbn; lia). if_true. reflexivity.
  - (* [ elements ] *)
    intros s l r He IH _ f Hf. cbn [length] in Hf. destruct f; [lia|]. rewrite r_value_S.
    if_false. if_false. if_true.
    destruct (jelems_start s l r He) as (c1 & r1 & Ew & Hc1).
    specialize (IH f ltac:(lia)). rewrite Ew in IH |- *.
    unfold vhead in Hc1. if_false. exact IH.
  - (* {} *)
    intros s r Hw _ f Hf. destruct f; [lia|]. rewrite r_value_S.
    if_false. if_true.
    rewrite (r_ws_unique s (125 :: r) Hw) by (cbn; lia). if_true. reflexivity.
  - (* { members } *)
    intros s m r Hm IH _ f Hf. cbn [length] in Hf. destruct f; [lia|]. rewrite r_value_S.
    if_false. if_true.
    destruct (jmembers_start s m r Hm) as (r1 & Ew).
    specialize (IH f ltac:(lia)). rewrite Ew in IH |- *.
    if_false. exact IH.
  - (* last element *)
    intros s s1 v s2 r Hw Hv IHv Hw2 f Hf. destruct f; [lia|].
    rewrite (r_ws_unique s s1 Hw (jvalue_nows _ _ _ Hv)). rewrite r_elems_S.
    apply ws_len in Hw.
    rewrite (IHv (ws_val_follow s2 _ Hw2 ltac:(cbn; lia)) f ltac:(lia)).
    rewrite (r_ws_unique s2 _ Hw2) by (cbn; lia). if_true. reflexivity.
  - (* element, more *)
    intros s s1 v s2 s3 l r Hw Hv IHv Hw2 He IHe f Hf. destruct f; [lia|].
    rewrite (r_ws_unique s s1 Hw (jvalue_nows _ _ _ Hv)). rewrite r_elems_S.
    apply ws_len in Hw. apply jvalue_len in Hv.
    rewrite (IHv (ws_val_follow s2 _ Hw2 ltac:(cbn; lia)) f ltac:(lia)).
    rewrite (r_ws_unique s2 _ Hw2) by (cbn; lia). if_false. if_true.
    apply ws_len in Hw2. cbn [length] in Hw2. apply IHe. lia.
  - (* last member *)
    intros s s1 k s2 s3 s4 v s5 r Hw Hc Hw2 Hw3 Hv IHv Hw5 f Hf. destruct f; [lia|].
    rewrite (r_ws_unique s _ Hw) by (cbn; lia). rewrite r_members_S. if_true.
    rewrite (r_chars_complete s1 k s2 Hc _ (le_n _)).
    rewrite (r_ws_unique s2 _ Hw2) by (cbn; lia). if_true.
    rewrite (r_ws_unique s3 s4 Hw3 (jvalue_nows _ _ _ Hv)).
    apply ws_len in Hw, Hw2, Hw3. apply jchars_len in Hc. cbn [length] in *.
    rewrite (IHv (ws_val_follow s5 _ Hw5 ltac:(cbn; lia)) f ltac:(lia)).
    rewrite (r_ws_unique s5 _ Hw5) by (cbn; lia). if_true. reflexivity.
  - (* member, more *)
    intros s s1 k s2 s3 s4 v s5 s6 m r Hw Hc Hw2 Hw3 Hv IHv Hw5 Hm IHm f Hf. destruct f; [lia|].
    rewrite (r_ws_unique s _ Hw) by (cbn; lia). rewrite r_members_S. if_true.
    rewrite (r_chars_complete s1 k s2 Hc _ (le_n _)).
    rewrite (r_ws_unique s2 _ Hw2) by (cbn; lia). if_true.
    rewrite (r_ws_unique s3 s4 Hw3 (jvalue_nows _ _ _ Hv)).
    apply ws_len in Hw, Hw2, Hw3. apply jchars_len in Hc. apply jvalue_len in Hv. cbn [length] in *.
    rewrite (IHv (ws_val_follow s5 _ Hw5 ltac:(cbn; lia)) f ltac:(lia)).
    rewrite (r_ws_unique s5 _ Hw5) by (cbn; lia). if_false. if_true.
    apply ws_len in Hw5. cbn [length] in Hw5. apply IHm. lia.
Qed.

Theorem r_value_complete : forall s v r, jvalue s v r -> val_follow r ->
  forall f, (2 * length s + 1 <= f)%nat -> r_value f s = Some r.
Proof. apply complete_all. Qed.

(* ---------------------------------------------------------------------------------- *)
(* values: recogniser => grammar                                                       *)
(* ---------------------------------------------------------------------------------- *)

Lemma sound_all f :
  (forall s r, r_value f s = Some r -> exists v, jvalue s v r) /\
  (forall s r, r_elems f s = Some r -> exists l, jelems s l r) /\
  (forall s r, r_members f s = Some r -> exists m, jmembers s m r).
Proof.
  induction f as [|f (IHv & IHe & IHm)].
  { split; [|split]; intros s r H.
    - rewrite r_value_O in H. discriminate.
    - rewrite r_elems_O in H. discriminate.
    - rewrite r_members_O in H. discriminate. }
  split; [|split]; intros s r H.
  - (* r_value *)
    destruct s as [|c s]; [rewrite r_value_nil in H; discriminate|].
    rewrite r_value_S in H.
    case_if_at H as E1.
    { subst c. apply r_chars_sound in H as [x Hx]. exists (JStr x). constructor. exact Hx. }
    case_if_at H as E2.
    { subst c. destruct (r_ws s) as [|c1 r1] eqn:Ew; [discriminate|].
      pose proof (ws_r_ws s) as Hw. rewrite Ew in Hw.
      case_if_at H as E3.
      { subst c1. inversion H; subst. exists (JObj []). apply V_obj0. exact Hw. }
      apply IHm in H as [m Hm]. exists (JObj m). apply V_obj.
      eapply jmembers_ws; eassumption. }
    case_if_at H as E3.
    { subst c. destruct (r_ws s) as [|c1 r1] eqn:Ew; [discriminate|].
      pose proof (ws_r_ws s) as Hw. rewrite Ew in Hw.
      case_if_at H as E4.
      { subst c1. inversion H; subst. exists (JArr []). apply V_arr0. exact Hw. }
      apply IHe in H as [l Hl]. exists (JArr l). apply V_arr.
      eapply jelems_ws; eassumption. }
    case_if_at H as E4.
    { subst c. destruct s as [|a [|b [|c2 r']]]; try discriminate.
      case_if_at H as E5; [|discriminate]. destruct E5 as [[-> ->] ->].
      inversion H; subst. eexists. apply V_true. }
    case_if_at H as E5.
    { subst c. destruct s as [|a [|b [|c2 [|d r']]]]; try discriminate.
      case_if_at H as E6; [|discriminate]. destruct E6 as [[[-> ->] ->] ->].
      inversion H; subst. eexists. apply V_false. }
    case_if_at H as E6.
    { subst c. destruct s as [|a [|b [|c2 r']]]; try discriminate.
      case_if_at H as E7; [|discriminate]. destruct E7 as [[-> ->] ->].
      inversion H; subst. eexists. apply V_null. }
    destruct (r_span (c :: s)) as [lit r'] eqn:Es.
    destruct (is_json_number lit) eqn:En; [|discriminate].
    inversion H; subst. apply r_span_sound in Es as [Heq _]. rewrite Heq.
    exists (JNum lit). apply V_num. apply is_json_number_iff. exact En.
  - (* r_elems *)
    rewrite r_elems_S in H.
    destruct (r_value f s) as [r0|] eqn:Ev; [|discriminate].
    apply IHv in Ev as [v Hv].
    destruct (r_ws r0) as [|c r1] eqn:Ew; [discriminate|].
    pose proof (ws_r_ws r0) as Hw. rewrite Ew in Hw.
    case_if_at H as E1.
    { subst c. inversion H; subst. exists [v].
      eapply E_last; [apply ws_nil|eassumption|eassumption]. }
    case_if_at H as E2; [|discriminate]. subst c.
    apply IHe in H as [l Hl]. exists (v :: l).
    eapply E_more; [apply ws_nil|eassumption|eassumption|].
    eapply jelems_ws; [apply ws_r_ws|eassumption].
  - (* r_members *)
    destruct s as [|q s]; [rewrite r_members_nil in H; discriminate|].
    rewrite r_members_S in H.
    case_if_at H as E1; [|discriminate]. subst q.
    destruct (r_chars (length s) s) as [r1|] eqn:Ec; [|discriminate].
    apply r_chars_sound in Ec as [k Hk].
    destruct (r_ws r1) as [|col r2] eqn:Ew1; [discriminate|].
    pose proof (ws_r_ws r1) as Hw1. rewrite Ew1 in Hw1.
    case_if_at H as E2; [|discriminate]. subst col.
    destruct (r_value f (r_ws r2)) as [r3|] eqn:Ev; [|discriminate].
    apply IHv in Ev as [v Hv].
    destruct (r_ws r3) as [|c r4] eqn:Ew3; [discriminate|].
    pose proof (ws_r_ws r3) as Hw3. rewrite Ew3 in Hw3.
    case_if_at H as E3.
    { subst c. inversion H; subst. exists [(k, v)].
      eapply M_last; [apply ws_nil|eassumption|eassumption|apply ws_r_ws|eassumption|eassumption]. }
    case_if_at H as E4; [|discriminate]. subst c.
    apply IHm in H as [m Hm]. exists ((k, v) :: m).
    eapply M_more; [apply ws_nil|eassumption|eassumption|apply ws_r_ws|eassumption|eassumption|].
    eapply jmembers_ws; [apply ws_r_ws|eassumption].
Qed.

Theorem r_value_sound : forall f s r, r_value f s = Some r -> exists v, jvalue s v r.
Proof. intros f. apply (sound_all f). Qed.

(* ---------------------------------------------------------------------------------- *)
(* whole texts                                                                         *)
(* ---------------------------------------------------------------------------------- *)

Theorem is_json_value_iff : forall b, is_json_value b = true <-> exists v, spells b v.
Proof.
  intros b. split.
  - unfold is_json_value.
    destruct (r_value _ (r_ws b)) as [r|] eqn:E; [|discriminate].
    destruct (r_ws r) eqn:Er; [|discriminate]. intros _.
    apply r_value_sound in E as [v Hv]. exists v, (r_ws b), r.
    split; [apply ws_r_ws|]. split; [assumption|]. rewrite <- Er. apply ws_r_ws.
  - intros (v & s1 & r & Hw & Hv & Hr). unfold is_json_value.
    rewrite (r_ws_unique b s1 Hw (jvalue_nows _ _ _ Hv)).
    apply ws_len in Hw.
    rewrite (r_value_complete s1 v r Hv (ws_val_follow r [] Hr I)) by lia.
    rewrite (r_ws_unique r [] Hr I). reflexivity.
Qed.

Theorem is_json_object_iff : forall b, is_json_object b = true <-> exists m, spells b (JObj m).
Proof.
  intros b. split.
  - unfold is_json_object. destruct (r_ws b) as [|c t] eqn:Ew; [discriminate|].
    intros H. apply andb_true_iff in H as [Hc Hj]. apply Z.eqb_eq in Hc. subst c.
    apply is_json_value_iff in Hj as (v & s1 & r & Hw & Hv & Hr).
    assert (Es : s1 = 123 :: t).
    { transitivity (r_ws b); [|exact Ew]. symmetry. apply r_ws_unique; [exact Hw|exact (jvalue_nows _ _ _ Hv)]. }
    subst s1.
    assert (exists m, v = JObj m) as [m ->].
    { inversion Hv; subst; try (eexists; reflexivity).
      match goal with Hn : jnumber ?lit |- _ =>
        destruct (jnumber_head' lit Hn) as (c & t' & -> & Hc) end.
      match goal with Hq : _ ++ _ = _ |- _ => cbn [app] in Hq; inversion Hq; subst end. lia. }
    exists m, (123 :: t), r. auto.
  - intros (m & Hs). assert (Hj : is_json_value b = true) by (apply is_json_value_iff; eauto).
    destruct Hs as (s1 & r & Hw & Hv & Hr). unfold is_json_object.
    rewrite (r_ws_unique b s1 Hw (jvalue_nows _ _ _ Hv)).
    inversion Hv; subst.
    + rewrite Hj. reflexivity.
    + rewrite Hj. reflexivity.
Qed.

Print Assumptions r_chars_sound.
Print Assumptions r_chars_complete.
Print Assumptions r_value_sound.
Print Assumptions r_value_complete.
Print Assumptions is_json_value_iff.
Print Assumptions is_json_object_iff.
