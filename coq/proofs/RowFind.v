(* C18 — FindValuesAtPath (row.go:414) against a reference search that has no fuel.
   [find_ref keys r] is written by structural recursion on the list of segments only (the row is
   a plain argument, so descending into a row found inside a value needs no measure), with the
   loop over the elements of an array as the nested [elems_ref]. The fuelled model
   [find_values_at_keys] (JL.model.Row) spends one unit of fuel per segment — also when it
   descends into the elements of an array — so [length keys] units are enough (and one unit
   for the degenerate empty list); with that much fuel it IS the reference. *)
From Coq Require Import ZArith List Bool Lia.
From JL.std Require Import GoBase GoVal.
From JL.model Require Import Row.
From JL.proofs Require Import RowProofs RowPaths.
Import ListNotations.

(* ---------- the reference ---------- *)
(* what one element of an array contributes: the values found in it when it is a row that has
   the rest of the path, nothing otherwise (not a row, or a row without the path) *)
Definition elem_ref (rec : crow -> option (list cell)) (e : rv) : list cell :=
  match e with
  | RV (CRow er) => match rec er with Some vs => vs | None => [] end
  | _ => []
  end.

(* the loop over the elements: contributions concatenated in element order *)
Definition elems_ref (rec : crow -> option (list cell)) (elems : list rv) : list cell :=
  flat_map (elem_ref rec) elems.

Fixpoint find_ref (keys : list str) (r : crow) : option (list cell) :=
  match keys with
  | [] => None                                   (* strings.SplitN never returns an empty slice *)
  | k :: rest =>
      match get_value k r with
      | None => None                             (* missing key *)
      | Some c =>
          match rest with
          | [] => Some [c]                       (* last segment: the value itself *)
          | _ :: _ =>
              match sub_row c with
              | Some sub => find_ref rest sub    (* a row, or a value holding a row *)
              | None =>
                  match c with
                  | CVal (RArr elems) _ _ => Some (elems_ref (find_ref rest) elems)
                  | _ => None                    (* a further segment below anything else *)
                  end
              end
          end
      end
  end.

(* unfolding equations *)
Lemma find_ref_nil r : find_ref [] r = None.
Proof. reflexivity. Qed.

Lemma find_ref_one k r : find_ref [k] r = match get_value k r with Some c => Some [c] | None => None end.
Proof. cbn [find_ref]. destruct (get_value k r); reflexivity. Qed.

Lemma find_ref_cons2 k k2 rest r :
  find_ref (k :: k2 :: rest) r =
  match get_value k r with
  | None => None
  | Some c =>
      match sub_row c with
      | Some sub => find_ref (k2 :: rest) sub
      | None => match c with
                | CVal (RArr elems) _ _ => Some (elems_ref (find_ref (k2 :: rest)) elems)
                | _ => None
                end
      end
  end.
Proof. reflexivity. Qed.

(* ---------- document order ---------- *)
Lemma elems_ref_nil rec : elems_ref rec [] = [].
Proof. reflexivity. Qed.

Lemma elems_ref_cons rec e more : elems_ref rec (e :: more) = elem_ref rec e ++ elems_ref rec more.
Proof. reflexivity. Qed.

Lemma elems_ref_app rec a b : elems_ref rec (a ++ b) = elems_ref rec a ++ elems_ref rec b.
Proof. unfold elems_ref. apply flat_map_app. Qed.

Lemma elems_ref_concat rec elems : elems_ref rec elems = concat (map (elem_ref rec) elems).
Proof. unfold elems_ref. apply flat_map_concat_map. Qed.

(* below an array the result is the concatenation, in element order, of what each element
   contributes; the array itself is always "found" (an empty result included) *)
Lemma find_ref_array k rest r elems f t :
  rest <> [] -> get_value k r = Some (CVal (RArr elems) f t) ->
  find_ref (k :: rest) r = Some (concat (map (elem_ref (find_ref rest)) elems)).
Proof.
  intros Hne Hg. destruct rest as [|k2 rest]; [congruence|].
  rewrite find_ref_cons2, Hg. cbn [sub_row]. now rewrite elems_ref_concat.
Qed.

(* splitting the array splits the result: values of earlier elements come first *)
Lemma find_ref_array_app k rest r a b f t ra rb fa ta fb tb :
  rest <> [] ->
  get_value k r = Some (CVal (RArr (a ++ b)) f t) ->
  get_value k ra = Some (CVal (RArr a) fa ta) ->
  get_value k rb = Some (CVal (RArr b) fb tb) ->
  exists va vb, find_ref (k :: rest) ra = Some va /\ find_ref (k :: rest) rb = Some vb
                /\ find_ref (k :: rest) r = Some (va ++ vb).
Proof.
  intros Hne H Ha Hb. destruct rest as [|k2 rest]; [congruence|].
  rewrite !find_ref_cons2, H, Ha, Hb. cbn [sub_row]. rewrite elems_ref_app. eauto.
Qed.

(* an element that is not a row, or is a row that lacks the rest of the path, contributes nothing *)
Lemma elem_ref_not_row rec e : (forall er, e <> RV (CRow er)) -> elem_ref rec e = [].
Proof. intros H. destruct e as [g|l|m|[raw f t|er]]; try reflexivity. now destruct (H er). Qed.

Lemma elem_ref_row rec er : elem_ref rec (RV (CRow er)) = match rec er with Some vs => vs | None => [] end.
Proof. reflexivity. Qed.

(* ---------- the fuelled model is the reference ---------- *)
Section Find.


  Lemma find_in_elems_ref recf rec elems :
    (forall er, recf er = Ok (rec er)) ->
    find_in_elems recf elems = Ok (Some (elems_ref rec elems)).
  Proof.
    intros Hrec. induction elems as [|e more IH]; [reflexivity|].
    rewrite elems_ref_cons.
    destruct e as [g|l|m|[raw f t|er]]; cbn [find_in_elems elem_ref]; try exact IH.
    rewrite Hrec, IH. cbn [bind]. destruct (rec er); reflexivity.
  Qed.

  Lemma fvak_S n keys r :
    find_values_at_keys (S n) keys r =
    match keys with
    | [] => Ok None
    | [k] => Ok (match get_value k r with Some c => Some [c] | None => None end)
    | k :: rest =>
        match get_value k r with
        | None => Ok None
        | Some (CRow sub) => find_values_at_keys n rest sub
        | Some (CVal (RV (CRow sub)) _ _) => find_values_at_keys n rest sub
        | Some (CVal (RArr elems) _ _) => find_in_elems (find_values_at_keys n rest) elems
        | Some (CVal _ _ _) => Ok None
        end
    end.
  Proof. reflexivity. Qed.

  (* exact bound: one unit per segment, and at least one unit *)
  Theorem find_values_at_keys_ref keys : forall n r,
    (1 <= n)%nat -> (length keys <= n)%nat ->
    find_values_at_keys n keys r = Ok (find_ref keys r).
  Proof.
    induction keys as [|k rest IH]; intros n r H1 Hn.
    - destruct n as [|n]; [lia | reflexivity].
    - destruct n as [|n]; [lia|]. rewrite fvak_S. destruct rest as [|k2 rest].
      + now rewrite find_ref_one.
      + assert (Hrec : forall sub, find_values_at_keys n (k2 :: rest) sub = Ok (find_ref (k2 :: rest) sub)).
        { intros sub. apply IH; cbn [length] in *; lia. }
        rewrite find_ref_cons2. destruct (get_value k r) as [[raw f t|sub]|]; [| |reflexivity].
        * destruct raw as [g|elems|m|[raw' f' t'|sub]]; cbn [sub_row]; try reflexivity.
          -- now apply find_in_elems_ref.
          -- apply Hrec.
        * cbn [sub_row]. apply Hrec.
  Qed.

  Corollary find_values_at_keys_ref_gt n keys r :
    (n > length keys)%nat -> find_values_at_keys n keys r = Ok (find_ref keys r).
  Proof. intros H. apply find_values_at_keys_ref; lia. Qed.

  (* out-of-fuel (and any error or panic) is unreachable with that much fuel *)
  Corollary find_values_no_fuel n keys r :
    (n > length keys)%nat ->
    find_values_at_keys n keys r <> Fuel /\ find_values_at_keys n keys r <> Panic
    /\ forall e, find_values_at_keys n keys r <> Err e.
  Proof. intros H. rewrite find_values_at_keys_ref_gt by exact H. repeat split; discriminate. Qed.

  (* more fuel changes nothing *)
  Corollary find_values_fuel_irrelevant n m keys r :
    (n > length keys)%nat -> (m > length keys)%nat ->
    find_values_at_keys n keys r = find_values_at_keys m keys r.
  Proof. intros Hn Hm. now rewrite !find_values_at_keys_ref_gt. Qed.

  (* the entry point, on the path text *)
  Corollary find_values_at_path_ref n p r :
    (n > length (split_dot p))%nat -> find_values_at_path n p r = Ok (find_ref (split_dot p) r).
  Proof. apply find_values_at_keys_ref_gt. Qed.

  Corollary find_values_at_joined_path n keys r :
    keys <> [] -> Forall no_dot keys -> (n > length keys)%nat ->
    find_values_at_path n (join_dot keys) r = Ok (find_ref keys r).
  Proof.
    intros Hne Hnd Hn. unfold find_values_at_path. rewrite split_join by assumption.
    now apply find_values_at_keys_ref_gt.
  Qed.
End Find.

(* ---------- paths that cross no array: FindValuesAtPath is GetValueAtPath ---------- *)
(* no value met before the last segment is an array ([]interface{}) *)
Fixpoint crosses_no_array (keys : list str) (r : crow) : Prop :=
  match keys with
  | [] => True
  | k :: rest =>
      match rest with
      | [] => True
      | _ :: _ =>
          match get_value k r with
          | None => True
          | Some c =>
              match sub_row c with
              | Some sub => crosses_no_array rest sub
              | None => match c with CVal (RArr _) _ _ => False | _ => True end
              end
          end
      end
  end.

Lemma find_ref_no_array keys : forall r,
  keys <> [] -> crosses_no_array keys r ->
  find_ref keys r = match get_value_at_keys keys r with Some c => Some [c] | None => None end.
Proof.
  induction keys as [|k rest IH]; intros r Hne Hc; [congruence|]. destruct rest as [|k2 rest].
  - rewrite find_ref_one. reflexivity.
  - rewrite find_ref_cons2, gvak_cons2. cbn [crosses_no_array] in Hc.
    destruct (get_value k r) as [c|]; [|reflexivity].
    destruct (sub_row c) as [sub|] eqn:Es.
    + apply IH; [discriminate | exact Hc].
    + destruct c as [raw f t|sub]; [|discriminate]. destruct raw as [g|elems|m|[raw' f' t'|sub]]; try reflexivity.
      destruct Hc.
Qed.

(* whenever GetValueAtPath finds a value, the walk went through rows only, and
   FindValuesAtPath returns exactly that value *)
Lemma get_found_no_array keys : forall r c,
  get_value_at_keys keys r = Some c -> crosses_no_array keys r.
Proof.
  induction keys as [|k rest IH]; intros r c H; [exact I|]. destruct rest as [|k2 rest]; [exact I|].
  rewrite gvak_cons2 in H. cbn [crosses_no_array]. destruct (get_value k r) as [c0|]; [|exact I].
  destruct (sub_row c0) as [sub|]; [eapply IH; exact H | discriminate].
Qed.

Lemma find_ref_of_get keys r c :
  keys <> [] -> get_value_at_keys keys r = Some c -> find_ref keys r = Some [c].
Proof.
  intros Hne H. rewrite find_ref_no_array; [now rewrite H | exact Hne | eapply get_found_no_array; exact H].
Qed.

(* conversely a path FindValuesAtPath finds without crossing an array is found by GetValueAtPath *)
Lemma get_of_find_ref keys r vs :
  keys <> [] -> crosses_no_array keys r -> find_ref keys r = Some vs ->
  exists c, vs = [c] /\ get_value_at_keys keys r = Some c.
Proof.
  intros Hne Hc H. rewrite find_ref_no_array in H by assumption.
  destruct (get_value_at_keys keys r) as [c|]; [|discriminate]. injection H as <-. eauto.
Qed.

(* through C18_get_agrees: on the path text, against key-by-key navigation *)
Theorem find_no_array_navigate (n : nat) keys r :
  keys <> [] -> Forall no_dot keys -> (n > length keys)%nat -> crosses_no_array keys r ->
  find_values_at_path n (join_dot keys) r =
  Ok (match navigate keys (CRow r) with Some c => Some [c] | None => None end).
Proof.
  intros Hne Hnd Hn Hc. rewrite find_values_at_joined_path by assumption.
  rewrite find_ref_no_array by assumption. now rewrite get_agrees by exact Hne.
Qed.
