(* C13 / C05 for WHOLE ROWS: the one-column theorems of TemplateLossless.v ([lossless_column_upto],
   [fixed_point_column_upto]) lifted to a template with any number of declared columns (pairwise
   distinct names), each holding a typed value of a lossless pairing, nil, or — for a hidden column —
   anything castable, followed by any number of undeclared keys holding parsed JSON values.

     tpl_of cols            the template  With(c1,f1,T1).With(c2,f2,T2)...  (TemplateRun.build_template
                            without sub-rows)
     spec                   the declared columns, each with its content ([slot])
     row_map spec           the map handed to CreateRow (declaration order; [..._perm]: any order)
     row_members spec       the members row.MarshalJSON writes: visible columns in declaration order,
                            null for a nil column, nothing for a hidden column
     row_read spec extras   the row importer.GetRow builds from the written line

   Route, as in the one-column proofs: CreateRow(map) -> row.MarshalJSON -> CreateRowEmpty ->
   UnmarshalJSON (C13), then exporter.Export of that row under the same template (C05).
   The proofs go by induction over lists of keys with the row kept in the form
   [row_of cols g] (the declared cells, column i holding [g ci]); a step on a declared key is an
   update of [g]. *)
From Coq Require Import ZArith List Bool Lia Permutation.
From JL.std Require Import GoBase GoFloat GoStrconv GoTime GoVal GoBase64 GoJsonNum GoJson GoJsonMarshal.
From JL.gen Require Import CastGen ConvGen.
From JL.model Require Import CastRun Row RowRun Template TemplateJson.
From JL.std Require Import GoHyps GoHypsJson.
From JL.proofs Require Import CastTotal CastBinary RowProofs TemplateOrder TemplateClass JsonNumber JsonWrite JsonProofs
  UntemplatedBridge TemplateLossless.
Import ListNotations.
Open Scope Z_scope.

(* ================= declared columns and the rows over them ================= *)

(* a column declaration: name, output format, raw type (the sample value handed to With) *)
Definition cdecl := (str * format * gval)%type.
Definition cname (d : cdecl) : str := fst (fst d).
Definition cfmt (d : cdecl) : format := snd (fst d).
Definition ctyp (d : cdecl) : gval := snd d.

(* template.With(...) for each declaration, from an empty template *)
Definition tpl_of (cols : list cdecl) : template :=
  fold_left (fun t d => with_col (cname d) (cfmt d) (ctyp d) t) cols new_template.

(* the declared cells when column c holds [g c] *)
Definition cells (cols : list cdecl) (g : str -> rv) : list (str * cell) :=
  map (fun d => (cname d, CVal (g (cname d)) (cfmt d) (ctyp d))) cols.
Definition row_of (cols : list cdecl) (g : str -> rv) : crow := MkRow (cells cols g) (map cname cols).
Definition upd (g : str -> rv) (k : str) (x : rv) : str -> rv := fun k' => if str_eqb k' k then x else g k'.
Definition upds (g : str -> rv) (us : list (str * rv)) : str -> rv :=
  fold_left (fun g u => upd g (fst u) (snd u)) us g.
Definition gnil : str -> rv := fun _ => rnil.

Lemma map_fst_cells cols g : map fst (cells cols g) = map cname cols.
Proof. unfold cells. rewrite map_map. reflexivity. Qed.

Lemma alookup_notin {A} k (m : list (str * A)) : ~ In k (map fst m) -> alookup k m = None.
Proof.
  induction m as [|[k' v'] m IH]; cbn [alookup map fst]; intros Hn; [reflexivity|].
  rewrite str_eqb_neq by (intros ->; apply Hn; now left). apply IH. intros H. apply Hn. now right.
Qed.

Lemma alookup_some_in {A} k (m : list (str * A)) v : alookup k m = Some v -> In k (map fst m).
Proof.
  induction m as [|[k' v'] m IH]; cbn [alookup map fst]; [discriminate|].
  destruct (str_eqb k k') eqn:E; [apply str_eqb_eq in E; subst; now left | intros H; right; now apply IH].
Qed.

Lemma alookup_app_some {A} k (m1 m2 : list (str * A)) v : alookup k m1 = Some v -> alookup k (m1 ++ m2) = Some v.
Proof.
  induction m1 as [|[k' v'] m1 IH]; cbn [alookup app]; [discriminate|].
  destruct (str_eqb k k'); [auto | exact IH].
Qed.

Lemma cells_ext cols g g' : (forall d, In d cols -> g (cname d) = g' (cname d)) -> cells cols g = cells cols g'.
Proof. intros H. unfold cells. apply map_ext_in. intros d Hd. now rewrite (H d Hd). Qed.

Lemma same_name_same_decl cols d d' :
  NoDup (map cname cols) -> In d cols -> In d' cols -> cname d = cname d' -> d = d'.
Proof.
  induction cols as [|d0 cols IH]; intros Hnd Hd Hd' E; [destruct Hd|].
  cbn [map] in Hnd. inversion Hnd as [|? ? Hn Hnd']; subst.
  destruct Hd as [->|Hd], Hd' as [->|Hd']; auto.
  - exfalso. apply Hn. rewrite E. now apply in_map.
  - exfalso. apply Hn. rewrite <- E. now apply in_map.
Qed.

Lemma alookup_cells cols g d :
  NoDup (map cname cols) -> In d cols ->
  alookup (cname d) (cells cols g) = Some (CVal (g (cname d)) (cfmt d) (ctyp d)).
Proof.
  induction cols as [|d0 cols IH]; intros Hnd Hd; [destruct Hd|].
  cbn [cells map alookup]. fold (cells cols g).
  destruct (str_eqb (cname d) (cname d0)) eqn:E.
  - apply str_eqb_eq in E.
    assert (d = d0) by (apply (same_name_same_decl (d0 :: cols) d d0 Hnd Hd); [now left | exact E]). now subst.
  - destruct Hd as [->|Hd]; [now rewrite str_eqb_refl in E|].
    cbn [map] in Hnd. inversion Hnd; subst. now apply IH.
Qed.

Lemma alookup_cells_none cols g k : ~ In k (map cname cols) -> alookup k (cells cols g) = None.
Proof. intros H. apply alookup_notin. now rewrite map_fst_cells. Qed.

Lemma aset_cells cols g d x :
  NoDup (map cname cols) -> In d cols ->
  aset (cname d) (CVal x (cfmt d) (ctyp d)) (cells cols g) = cells cols (upd g (cname d) x).
Proof.
  induction cols as [|d0 cols IH]; intros Hnd Hd; [destruct Hd|].
  pose proof Hnd as Hnd0. cbn [map] in Hnd. inversion Hnd as [|? ? Hn Hnd']; subst.
  cbn [cells map aset]. fold (cells cols g). fold (cells cols (upd g (cname d) x)).
  destruct (str_eqb (cname d) (cname d0)) eqn:E.
  - apply str_eqb_eq in E.
    assert (d = d0) by (apply (same_name_same_decl (d0 :: cols) d d0 Hnd0 Hd); [now left | exact E]). subst d0.
    unfold upd at 1. rewrite str_eqb_refl. f_equal.
    apply cells_ext. intros d1 H1. unfold upd. rewrite str_eqb_neq; [reflexivity|].
    intros E1. apply Hn. rewrite <- E1. now apply in_map.
  - destruct Hd as [->|Hd]; [now rewrite str_eqb_refl in E|].
    unfold upd at 1. rewrite str_eqb_neq by (intros E1; rewrite E1, str_eqb_refl in E; discriminate).
    f_equal. now apply IH.
Qed.

(* storing a cell of its own format and raw type under a declared key only changes what the column holds *)
Lemma store_row_of cols g d x :
  NoDup (map cname cols) -> In d cols ->
  store (cname d) (CVal x (cfmt d) (ctyp d)) (row_of cols g) = row_of cols (upd g (cname d) x).
Proof.
  intros Hnd Hd. unfold store, row_of, push_if_absent, ahas. rewrite (alookup_cells cols g d Hnd Hd).
  unfold set_cell. now rewrite aset_cells.
Qed.

Lemma row_has_row_of cols g d : NoDup (map cname cols) -> In d cols -> row_has (cname d) (row_of cols g) = true.
Proof. intros Hnd Hd. unfold row_has, ahas, row_of. cbn [row_m]. now rewrite (alookup_cells cols g d Hnd Hd). Qed.

(* a sequence of updates with distinct keys: each key holds its own update *)
Lemma upds_lookup us : forall g k, NoDup (map fst us) ->
  upds g us k = match alookup k us with Some x => x | None => g k end.
Proof.
  induction us as [|[k0 x0] us IH]; intros g k Hnd; [reflexivity|].
  cbn [map fst] in Hnd. inversion Hnd as [|? ? Hn Hnd']; subst.
  unfold upds in *. cbn [fold_left fst snd alookup]. rewrite IH by exact Hnd'.
  destruct (str_eqb k k0) eqn:E.
  - apply str_eqb_eq in E. subst k0. rewrite (alookup_notin k us Hn). unfold upd. now rewrite str_eqb_refl.
  - destruct (alookup k us); [reflexivity|]. unfold upd. now rewrite E.
Qed.

(* a row whose map lists distinct keys, followed by a store under a fresh key *)
Lemma store_fresh m l k c : alookup k m = None -> store k c (MkRow m l) = MkRow (m ++ [(k, c)]) (l ++ [k]).
Proof.
  intros H. unfold store, push_if_absent, set_cell. rewrite (alookup_none_ahas _ _ H), (aset_fresh _ _ _ H). reflexivity.
Qed.

Lemma fold_with_col cols : forall pre,
  NoDup (map fst pre ++ map cname cols) ->
  fold_left (fun t d => with_col (cname d) (cfmt d) (ctyp d) t) cols (MkRow pre (map fst pre))
  = MkRow (pre ++ cells cols gnil) (map fst pre ++ map cname cols).
Proof.
  induction cols as [|d cols IH]; intros pre Hnd.
  - cbn [fold_left cells map]. now rewrite !app_nil_r.
  - cbn [fold_left map cells]. fold (cells cols gnil). unfold with_col at 2. rewrite set_value_store.
    assert (Hfresh : alookup (cname d) pre = None).
    { apply alookup_notin. intros Hin. apply NoDup_remove_2 in Hnd. apply Hnd. apply in_or_app. now left. }
    rewrite store_fresh by exact Hfresh.
    replace (map fst pre ++ [cname d]) with (map fst (pre ++ [(cname d, CVal rnil (cfmt d) (ctyp d))]))
      by (rewrite map_app; reflexivity).
    rewrite IH.
    + rewrite map_app. cbn [map fst]. rewrite <- !app_assoc. reflexivity.
    + rewrite map_app. cbn [map fst]. rewrite <- app_assoc. exact Hnd.
Qed.

Lemma tpl_of_eq cols : NoDup (map cname cols) -> tpl_of cols = row_of cols gnil.
Proof. intros Hnd. unfold tpl_of, new_template, new_row. apply (fold_with_col cols [] Hnd). Qed.

(* ================= the content of a row ================= *)

(* what a declared column holds *)
Inductive slot :=
| SlNil (inmap : bool)       (* nil: the key is absent from the map handed to CreateRow (false) or maps to nil (true) *)
| SlVal (v v' e : gval) (leaf : jv) (txt : str)
                             (* the typed value v; e, leaf, txt: exported value, JSON value, its text; v': the value read back *)
| SlHid (x x' : rv).         (* a hidden column: the map holds x, the cell x' = cast.To(T, x) *)

Definition sname (cs : cdecl * slot) : str := cname (fst cs).
Definition visible_col (cs : cdecl * slot) : bool := negb (format_eqb (cfmt (fst cs)) FHidden).

(* the entry of the map handed to CreateRow *)
Definition slot_entry (cs : cdecl * slot) : list (str * rv) :=
  match snd cs with
  | SlNil false => []
  | SlNil true => [(sname cs, rnil)]
  | SlVal v _ _ _ _ => [(sname cs, RS v)]
  | SlHid x _ => [(sname cs, x)]
  end.
Definition row_map (spec : list (cdecl * slot)) : list (str * rv) := flat_map slot_entry spec.

(* the member row.MarshalJSON writes: none for a hidden column, null for a nil column *)
Definition slot_member (cs : cdecl * slot) : list (str * jv) :=
  if visible_col cs
  then [(sname cs, match snd cs with SlVal _ _ _ leaf _ => leaf | _ => JNull end)]
  else [].
Definition row_members (spec : list (cdecl * slot)) : list (str * jv) := flat_map slot_member spec.

(* what the column holds after the written line is read back: hidden columns are not written, so they
   come back as the template's nil *)
Definition slot_read (cs : cdecl * slot) : rv :=
  if visible_col cs then match snd cs with SlVal _ v' _ _ _ => RS v' | _ => rnil end else rnil.
Definition read_cell (cs : cdecl * slot) : str * cell :=
  (sname cs, CVal (slot_read cs) (cfmt (fst cs)) (ctyp (fst cs))).

(* ... and what it holds in the row CreateRow builds *)
Definition slot_stored (cs : cdecl * slot) : rv :=
  match snd cs with SlNil _ => rnil | SlVal v _ _ _ _ => RS v | SlHid _ x' => x' end.

(* the row read back: declared columns in declaration order, then the undeclared keys as Auto values *)
Definition row_read (spec : list (cdecl * slot)) (extras : list (str * jv)) : crow :=
  MkRow (map read_cell spec ++ auto_cells (rv_members extras)) (map sname spec ++ map fst extras).

(* generic: keyed triples (key, value given, value kept) selected from the columns *)
Definition trip (F : cdecl * slot -> option (rv * rv)) (spec : list (cdecl * slot)) : list (str * rv * rv) :=
  flat_map (fun cs => match F cs with Some ab => [(sname cs, fst ab, snd ab)] | None => [] end) spec.
Definition kin (u : str * rv * rv) : str * rv := (fst (fst u), snd (fst u)).
Definition kout (u : str * rv * rv) : str * rv := (fst (fst u), snd u).

Lemma trip_keys_in F spec k : In k (map fst (map kout (trip F spec))) -> In k (map sname spec).
Proof.
  induction spec as [|cs spec IH]; [intros []|]. unfold trip. cbn [flat_map]. fold (trip F spec).
  rewrite !map_app, in_app_iff. intros [H|H]; [|right; now apply IH].
  destruct (F cs) as [ab|]; [|destruct H]. destruct H as [<-|[]]. now left.
Qed.

Lemma trip_keys_NoDup F spec : NoDup (map sname spec) -> NoDup (map fst (map kout (trip F spec))).
Proof.
  induction spec as [|cs spec IH]; intros Hnd; [constructor|].
  cbn [map] in Hnd. inversion Hnd as [|? ? Hn Hnd']; subst.
  unfold trip. cbn [flat_map]. fold (trip F spec). destruct (F cs) as [ab|]; cbn [app map fst kout]; [|now apply IH].
  constructor; [|now apply IH]. intros H. apply Hn. eapply trip_keys_in. exact H.
Qed.

Lemma alookup_trip F spec cs :
  NoDup (map sname spec) -> In cs spec ->
  alookup (sname cs) (map kout (trip F spec)) = option_map snd (F cs).
Proof.
  induction spec as [|cs0 spec IH]; intros Hnd Hin; [destruct Hin|].
  cbn [map] in Hnd. inversion Hnd as [|? ? Hn Hnd']; subst.
  unfold trip. cbn [flat_map]. fold (trip F spec). rewrite map_app.
  destruct Hin as [->|Hin].
  - destruct (F cs) as [ab|]; cbn [map app kout fst snd alookup option_map].
    + now rewrite str_eqb_refl.
    + apply alookup_notin. intros H. apply Hn. eapply trip_keys_in. exact H.
  - assert (Hne : sname cs <> sname cs0) by (intros E; apply Hn; rewrite <- E; now apply in_map).
    destruct (F cs0) as [ab|]; cbn [map app kout fst snd alookup]; [rewrite str_eqb_neq by exact Hne|]; now apply IH.
Qed.

(* after the updates of a selection, each declared column holds its own kept value, or what it held *)
Lemma upds_trip F spec g cs :
  NoDup (map sname spec) -> In cs spec ->
  upds g (map kout (trip F spec)) (sname cs) = match F cs with Some ab => snd ab | None => g (sname cs) end.
Proof.
  intros Hnd Hin. rewrite upds_lookup by (now apply trip_keys_NoDup). rewrite alookup_trip by assumption.
  destruct (F cs); reflexivity.
Qed.

Lemma cells_read (spec : list (cdecl * slot)) (R : cdecl * slot -> rv) g :
  (forall cs, In cs spec -> g (sname cs) = R cs) ->
  cells (map fst spec) g = map (fun cs => (sname cs, CVal (R cs) (cfmt (fst cs)) (ctyp (fst cs)))) spec.
Proof.
  intros H. unfold cells. rewrite map_map. apply map_ext_in. intros cs Hcs. unfold sname in *. now rewrite (H cs Hcs).
Qed.

Lemma map_cname_fst (spec : list (cdecl * slot)) : map cname (map fst spec) = map sname spec.
Proof. rewrite map_map. reflexivity. Qed.

Lemma opt_all_app {A} (a b : list (option A)) x y :
  opt_all a = Some x -> opt_all b = Some y -> opt_all (a ++ b) = Some (x ++ y).
Proof.
  revert x. induction a as [|[o|] a IH]; intros x Ha Hb; cbn [opt_all app] in *.
  - injection Ha as <-. exact Hb.
  - destruct (opt_all a) as [xs|]; [|discriminate]. injection Ha as <-. now rewrite (IH xs eq_refl Hb).
  - discriminate.
Qed.

Section LosslessRow.
  Context (O : oracles) (jfloat : bool -> Z -> option str) (jother : Z -> option str).

  Notation marshal_row' := (marshal_row O encode_string jfloat jother).
  Notation marshal_cell' := (marshal_cell O encode_string jfloat jother).
  Notation marshal_rv' := (marshal_rv O encode_string jfloat jother).

  (* cast.To(T, nil) = nil: true of every raw type cast.To knows (all but an unknown dynamic type) *)
  Definition nil_castable (T : gval) : Prop := To O T VNil = Ok VNil.
  Definition known_rawtype (T : gval) : Prop :=
    match T with VByteArr _ | VOther _ => False | _ => True end.

  Lemma known_nil_castable T : known_rawtype T -> nil_castable T.
  Proof.
    unfold nil_castable. destruct T as [| b | k z | x | x | s | b | s | t | s | g]; try destruct k;
      cbn [known_rawtype]; intros H; try contradiction; reflexivity.
  Qed.

  Lemma cast_to_nil_ok T : nil_castable T -> cast_to O T rnil = Ok rnil.
  Proof. unfold nil_castable, cast_to, rnil. cbn [to_gval]. now intros ->. Qed.

  Lemma cast_to_self T v : To O T v = Ok v -> cast_to O T (RS v) = Ok (RS v).
  Proof. unfold cast_to. cbn [to_gval]. now intros ->. Qed.

  (* ---------- CloneRow of a template is the template ---------- *)
  Lemma clone_cells_fresh n rest : forall pre,
    NoDup (map fst (pre ++ rest)) ->
    Forall (fun kc => clone_value O n (snd kc) = Ok (snd kc)) rest ->
    clone_cells O n (pre ++ rest) (map fst rest) (MkRow pre (map fst pre)) = Ok (MkRow (pre ++ rest) (map fst (pre ++ rest))).
  Proof.
    induction rest as [|[k c] rest IH]; intros pre Hnd Hcl.
    - cbn [map clone_cells]. now rewrite app_nil_r.
    - inversion Hcl as [|? ? Hc Hcl']; subst. cbn [snd] in Hc.
      assert (Hfresh : alookup k pre = None).
      { apply alookup_notin. rewrite map_app in Hnd. cbn [map fst] in Hnd. apply NoDup_remove_2 in Hnd.
        intros Hin. apply Hnd. apply in_or_app. now left. }
      cbn [map fst clone_cells]. rewrite (alookup_app_none k pre ((k, c) :: rest) Hfresh).
      cbn [alookup]. rewrite str_eqb_refl, Hc. cbn [bind]. rewrite set_value_store, store_fresh by exact Hfresh.
      replace (map fst pre ++ [k]) with (map fst (pre ++ [(k, c)])) by (rewrite map_app; reflexivity).
      change ((k, c) :: rest) with ([(k, c)] ++ rest). rewrite app_assoc.
      apply IH; [|exact Hcl']. rewrite <- app_assoc. exact Hnd.
  Qed.

  Lemma clone_tpl n cols : NoDup (map cname cols) -> clone_row O (S n) (row_of cols gnil) = Ok (row_of cols gnil).
  Proof.
    intros Hnd. unfold clone_row, row_of. cbn [row_m row_l]. rewrite <- (map_fst_cells cols gnil).
    apply (clone_cells_fresh (S n) (cells cols gnil) []).
    - cbn [app]. now rewrite map_fst_cells.
    - unfold cells. apply Forall_forall. intros kc Hin. apply in_map_iff in Hin as [d [<- _]]. cbn [snd].
      unfold clone_value. cbn [cell_raw bind cell_format cell_rawtype]. apply (new_value_nil O).
  Qed.

  (* ---------- CreateRow(map): declared keys, then undeclared ones ---------- *)
  Lemma create_from_map_decl cols : NoDup (map cname cols) -> forall us g rest,
    Forall (fun u => exists d, In d cols /\ cname d = fst (kin u) /\ cast_to O (ctyp d) (snd (kin u)) = Ok (snd (kout u))) us ->
    create_from_map O (map kin us ++ rest) (row_of cols g)
    = create_from_map O rest (row_of cols (upds g (map kout us))).
  Proof.
    intros Hnd. induction us as [|u us IH]; intros g rest Hus; [reflexivity|].
    inversion Hus as [|? ? (d & Hd & Hk & Hc) Hus']; subst.
    destruct u as [[k x] x']. cbn [kin kout fst snd] in *. subst k.
    cbn [map app kin kout fst snd create_from_map]. unfold get_value, row_of at 1. cbn [row_m].
    rewrite (alookup_cells cols g d Hnd Hd). unfold fill_cell. cbn [cell_rawtype cell_format].
    rewrite Hc. unfold new_value. rewrite Hc. cbn [bind].
    rewrite set_value_store, store_row_of by assumption. unfold upds. cbn [fold_left fst snd]. apply IH. exact Hus'.
  Qed.

  Lemma create_from_map_fresh ms : forall r,
    NoDup (map fst ms) -> (forall k, In k (map fst ms) -> alookup k (row_m r) = None) ->
    create_from_map O ms r = Ok (fold_left obj_step ms r).
  Proof.
    induction ms as [|[k v] ms IH]; intros r Hnd Hfr; [reflexivity|].
    cbn [map fst] in Hnd, Hfr. inversion Hnd as [|? ? Hni Hnd']; subst.
    cbn [create_from_map fold_left]. unfold get_value. rewrite (Hfr k (or_introl eq_refl)). cbn [fill_cell bind].
    change (set_value k (Some (new_value_auto v)) r) with (obj_step r (k, v)).
    apply IH; [exact Hnd'|]. intros k' Hk'.
    rewrite obj_step_lookup_other; [apply (Hfr k'); right; exact Hk'|].
    cbn [fst]. intros ->. contradiction.
  Qed.

  (* ---------- row.MarshalJSON ---------- *)
  Lemma marshal_row_members_app (rec : cell -> res str) m l1 : forall l2 s1 s2,
    marshal_row_members encode_string rec m l1 = Ok s1 ->
    marshal_row_members encode_string rec m l2 = Ok s2 ->
    marshal_row_members encode_string rec m (l1 ++ l2) = Ok (s1 ++ s2).
  Proof.
    induction l1 as [|k l1 IH]; intros l2 s1 s2 H1 H2.
    - cbn in H1. injection H1 as <-. exact H2.
    - cbn [app marshal_row_members] in *. destruct (alookup k m) as [c|]; [|discriminate].
      destruct (format_eqb (cell_format c) FHidden); [now apply IH|].
      destruct (rec c) as [s| | |]; cbn [bind] in *; try discriminate.
      destruct (marshal_row_members encode_string rec m l1) as [ss| | |] eqn:E; cbn [bind] in *; try discriminate.
      injection H1 as <-. rewrite (IH l2 ss s2 eq_refl H2). reflexivity.
  Qed.

  (* what a visible column must hold for the row to be written as [row_members]: nil, or a value that
     exports to the slot's exported value (the value written, or the value read back) *)
  Definition holds (cs : cdecl * slot) (x : rv) : Prop :=
    visible_col cs = true ->
    match snd cs with
    | SlVal _ _ e leaf txt =>
        exists w, x = RS w /\ w <> VNil /\ export_scalar O (cfmt (fst cs)) (RS w) = Ok (RS e)
                  /\ marshal_gval encode_string jfloat jother e = Ok txt /\ write_jv leaf = Some txt
    | _ => x = rnil
    end.

  Lemma marshal_decl n cols g X : NoDup (map cname cols) -> forall sub,
    (forall cs, In cs sub -> In (fst cs) cols /\ holds cs (g (sname cs))) ->
    exists parts,
      marshal_row_members encode_string (marshal_cell' (S (S n))) (cells cols g ++ X) (map sname sub) = Ok parts
      /\ opt_all (map UntemplatedBridge.member_text (row_members sub)) = Some parts.
  Proof.
    intros Hnd. induction sub as [|cs sub IH]; intros Hsub; [exists []; split; reflexivity|].
    destruct IH as (parts & IH1 & IH2); [intros cs' H'; apply Hsub; now right|].
    destruct (Hsub cs (or_introl eq_refl)) as [Hd Hh].
    cbn [map marshal_row_members]. unfold sname at 1.
    rewrite (alookup_app_some _ _ X _ (alookup_cells cols g (fst cs) Hnd Hd)). cbn [cell_format].
    unfold row_members. cbn [flat_map]. fold (row_members sub). unfold slot_member, holds, visible_col in *.
    destruct (format_eqb (cfmt (fst cs)) FHidden) eqn:Ev; cbn [negb] in *.
    - exists parts. split; [exact IH1 | exact IH2].
    - specialize (Hh eq_refl). rewrite (marshal_cell_S O encode_string jfloat jother). fold (sname cs).
      destruct (snd cs) as [inmap | v v' e leaf txt | x x'] eqn:Es.
      + rewrite Hh. cbn [rv_is_nil rnil bind]. rewrite IH1. cbn [bind].
        eexists. split; [reflexivity|]. cbn [app map opt_all]. unfold UntemplatedBridge.member_text at 1.
        cbn [fst snd write_jv]. rewrite IH2. reflexivity.
      + destruct Hh as (w & Hx & Hw & Hexp & Hm & Hwj). rewrite Hx.
        assert (En : rv_is_nil (RS w) = false) by (destruct w; auto; contradiction).
        rewrite En, Hexp. cbn [bind]. rewrite (marshal_rv_scalar O encode_string jfloat jother), Hm, IH1. cbn [bind].
        eexists. split; [reflexivity|]. cbn [app map opt_all]. unfold UntemplatedBridge.member_text at 1.
        cbn [fst snd]. rewrite Hwj, IH2. reflexivity.
      + rewrite Hh. cbn [rv_is_nil rnil bind]. rewrite IH1. cbn [bind].
        eexists. split; [reflexivity|]. cbn [app map opt_all]. unfold UntemplatedBridge.member_text at 1.
        cbn [fst snd write_jv]. rewrite IH2. reflexivity.
  Qed.

  (* undeclared keys: Auto cells holding parsed JSON values, written as write_jv writes them *)
  Definition extras_ok (n : nat) (names : list str) (extras : list (str * jv)) : Prop :=
    NoDup (map fst extras) /\ (forall k, In k (map fst extras) -> ~ In k names)
    /\ Forall (fun kv => ustr (fst kv) /\ jv_wf (snd kv) /\ uniq_jv (snd kv) /\ (jfuel (snd kv) <= S n)%nat) extras.

  Lemma marshal_extras n m : forall extras,
    Forall (fun kv => alookup (fst kv) m = Some (auto_cell (rv_of_jv (snd kv)))) extras ->
    Forall (fun kv => ustr (fst kv) /\ jv_wf (snd kv) /\ uniq_jv (snd kv) /\ (jfuel (snd kv) <= S n)%nat) extras ->
    exists parts,
      marshal_row_members encode_string (marshal_cell' (S (S n))) m (map fst extras) = Ok parts
      /\ opt_all (map UntemplatedBridge.member_text extras) = Some parts.
  Proof.
    induction extras as [|[k d] extras IH]; intros Hl Hok; [exists []; split; reflexivity|].
    inversion Hl as [|? ? Hk Hl']; subst. inversion Hok as [|? ? (_ & Hwf & Hu & Hf) Hok']; subst. cbn [fst snd] in *.
    destruct (IH Hl' Hok') as (parts & IH1 & IH2).
    destruct (wf_writes d Hwf) as (_ & _ & b & Hb).
    cbn [map fst marshal_row_members]. rewrite Hk. unfold auto_cell at 1. cbn [cell_format format_eqb].
    fold (auto_cell (rv_of_jv d)). rewrite (marshal_auto_cell O jfloat jother) by lia.
    rewrite (marshal_rv_of_jv_fuel O jfloat jother d Hu (S n) Hf), Hb. cbn [wres bind]. rewrite IH1. cbn [bind].
    eexists. split; [reflexivity|]. cbn [map opt_all]. unfold UntemplatedBridge.member_text at 1. cbn [fst snd].
    rewrite Hb, IH2. reflexivity.
  Qed.

  Lemma alookup_extras cols g extras k v :
    NoDup (map fst extras) -> (forall k, In k (map fst extras) -> ~ In k (map cname cols)) ->
    In (k, v) extras ->
    alookup k (cells cols g ++ auto_cells (rv_members extras)) = Some (auto_cell (rv_of_jv v)).
  Proof.
    intros Hnd Hfr Hin.
    rewrite alookup_app_none by (apply alookup_cells_none, Hfr; change k with (fst (k, v)); now apply in_map).
    apply alookup_auto_cells.
    - unfold rv_members. now rewrite map_fst_rv.
    - unfold rv_members. change (k, rv_of_jv v) with ((fun kv : str * jv => (fst kv, rv_of_jv (snd kv))) (k, v)). now apply in_map.
  Qed.

  (* the whole row: declared columns holding values that export to the slots' values, then the undeclared keys *)
  Lemma marshal_row_spec n spec extras g :
    NoDup (map sname spec) -> (forall cs, In cs spec -> holds cs (g (sname cs))) ->
    extras_ok n (map sname spec) extras ->
    exists line, write_jv (JObj (row_members spec ++ extras)) = Some line
      /\ marshal_row' (S (S (S n))) (MkRow (cells (map fst spec) g ++ auto_cells (rv_members extras))
                                           (map sname spec ++ map fst extras)) = Ok line.
  Proof.
    intros Hnd Hh (Hne & Hfr & Hok). rewrite <- map_cname_fst in Hnd, Hfr.
    destruct (marshal_decl n (map fst spec) g (auto_cells (rv_members extras)) Hnd spec) as (p1 & A1 & A2).
    { intros cs Hcs. split; [now apply in_map | now apply Hh]. }
    destruct (marshal_extras n (cells (map fst spec) g ++ auto_cells (rv_members extras)) extras) as (p2 & B1 & B2); [|exact Hok|].
    { apply Forall_forall. intros [k v] Hin. cbn [fst snd]. now apply alookup_extras. }
    exists (123 :: join 44 (p1 ++ p2) ++ [125]). split.
    - change (write_jv (JObj (row_members spec ++ extras)))
        with (match opt_all (map UntemplatedBridge.member_text (row_members spec ++ extras)) with
              | Some parts => Some (123 :: join 44 parts ++ [125]) | None => None end).
      rewrite map_app, (opt_all_app _ _ _ _ A2 B2). reflexivity.
    - rewrite (marshal_row_S O encode_string jfloat jother).
      rewrite (marshal_row_members_app _ _ _ _ _ _ A1 B1). cbn [bind]. rewrite join_with_comma. reflexivity.
  Qed.

  (* ---------- UnmarshalJSON of the written line ---------- *)
  Lemma value_import_nil n raw f T : value_import O n raw f T rnil = (CVal rnil f T, Ok tt).
  Proof. reflexivity. Qed.

  Lemma value_import_leaf n raw f T leaf v' :
    rv_is_nil (rv_of_jv leaf) = false -> import_scalar O f T (rv_of_jv leaf) = Ok (RS v') ->
    value_import O n raw f T (rv_of_jv leaf) = (CVal (RS v') f T, Ok tt).
  Proof.
    intros Hnn Himp. unfold value_import. rewrite Hnn. revert Himp.
    destruct (rv_of_jv leaf) as [g|l0|m0|cc] eqn:El; intros Himp.
    4: { destruct cc as [raw' f' t'|sub].
         - destruct leaf; cbn in El; discriminate.
         - rewrite Himp. reflexivity. }
    all: rewrite Himp; reflexivity.
  Qed.

  Lemma unmarshal_members_decl n cols : NoDup (map cname cols) -> forall us g rest,
    Forall (fun u => exists d, In d cols /\ cname d = fst (kin u)
                     /\ forall raw, value_import O n raw (cfmt d) (ctyp d) (snd (kin u))
                                    = (CVal (snd (kout u)) (cfmt d) (ctyp d), Ok tt)) us ->
    unmarshal_members O (S n) (map kin us ++ rest) (row_of cols g)
    = unmarshal_members O (S n) rest (row_of cols (upds g (map kout us))).
  Proof.
    intros Hnd. induction us as [|u us IH]; intros g rest Hus; [reflexivity|].
    inversion Hus as [|? ? (d & Hd & Hk & Hv) Hus']; subst.
    destruct u as [[k x] x']. cbn [kin kout fst snd] in *. subst k.
    cbn [map app kin kout fst snd unmarshal_members]. unfold row_of at 1. cbn [row_m].
    rewrite (alookup_cells cols g d Hnd Hd). rewrite cell_import_S, Hv.
    fold (row_of cols g). rewrite set_cell_existing by (now apply row_has_row_of).
    rewrite store_row_of by assumption. unfold upds. cbn [fold_left fst snd]. apply IH. exact Hus'.
  Qed.

  (* ---------- CreateRow(Row): the exporter's re-creation ---------- *)
  Lemma alookup_map_h cols (h : str -> rv) k :
    In k (map cname cols) -> alookup k (map (fun d => (cname d, h (cname d))) cols) = Some (h k).
  Proof.
    induction cols as [|d cols IH]; intros Hin; [destruct Hin|]. cbn [map alookup].
    destruct (str_eqb k (cname d)) eqn:E; [apply str_eqb_eq in E; now subst|].
    destruct Hin as [Hin|Hin]; [subst k; now rewrite str_eqb_refl in E | now apply IH].
  Qed.

  Lemma create_from_row_decl n cols m2 (h : str -> rv) : NoDup (map cname cols) -> forall sub g rest,
    (forall d, In d sub -> In d cols
       /\ alookup (cname d) m2 = Some (CVal (h (cname d)) (cfmt d) (ctyp d))
       /\ cast_to O (ctyp d) (h (cname d)) = Ok (h (cname d))) ->
    create_from_row O (S n) m2 (map cname sub ++ rest) (row_of cols g)
    = create_from_row O (S n) m2 rest (row_of cols (upds g (map (fun d => (cname d, h (cname d))) sub))).
  Proof.
    intros Hnd. induction sub as [|d sub IH]; intros g rest Hsub; [reflexivity|].
    destruct (Hsub d (or_introl eq_refl)) as (Hd & Hl & Hc).
    cbn [map app create_from_row]. rewrite Hl. cbn [cell_raw bind].
    unfold get_value, row_of at 1. cbn [row_m]. rewrite (alookup_cells cols g d Hnd Hd).
    unfold fill_cell. cbn [cell_rawtype cell_format]. rewrite Hc. unfold new_value. rewrite Hc. cbn [bind].
    rewrite set_value_store, store_row_of by assumption. unfold upds. cbn [fold_left fst snd].
    apply IH. intros d' H'. apply Hsub. now right.
  Qed.

  (* ================= the premises on the content of a row ================= *)

  (* per column: a typed value with the bundle of facts of the one-column theorems; nil (a visible
     column must have a well-formed UTF-8 name, as in [column_ok_upto]; a nil put in the map must be
     castable); a hidden column holding anything castable *)
  Definition slot_ok (cs : cdecl * slot) : Prop :=
    match snd cs with
    | SlNil inmap =>
        (visible_col cs = true -> ustr (sname cs)) /\ (inmap = true -> nil_castable (ctyp (fst cs)))
    | SlVal v v' e leaf txt =>
        column_ok_upto O jfloat jother (sname cs) (cfmt (fst cs)) (ctyp (fst cs)) v v' e leaf txt
    | SlHid x x' => cfmt (fst cs) = FHidden /\ cast_to O (ctyp (fst cs)) x = Ok x'
    end.

  (* for the fixed point (C05) the exporter re-creates the row read back: a column that came back nil
     (nil or hidden) is cast again, so its raw type must be one cast.To knows *)
  Definition slot_ok_fp (cs : cdecl * slot) : Prop :=
    slot_ok cs /\ match snd cs with SlVal _ _ _ _ _ => True | _ => nil_castable (ctyp (fst cs)) end.

  Lemma slot_val_visible cs v v' e leaf txt :
    snd cs = SlVal v v' e leaf txt -> slot_ok cs -> visible_col cs = true.
  Proof.
    unfold slot_ok, visible_col. intros -> H. unfold column_ok_upto in H.
    destruct H as (_ & _ & _ & Hv & _). now rewrite Hv.
  Qed.

  (* the selections: what CreateRow(map) is given / keeps, what UnmarshalJSON is given / keeps *)
  Definition Fc (cs : cdecl * slot) : option (rv * rv) :=
    match snd cs with
    | SlNil false => None
    | SlNil true => Some (rnil, rnil)
    | SlVal v _ _ _ _ => Some (RS v, RS v)
    | SlHid x x' => Some (x, x')
    end.
  Definition Fu (cs : cdecl * slot) : option (rv * rv) :=
    if visible_col cs
    then Some (match snd cs with SlVal _ _ _ leaf _ => rv_of_jv leaf | _ => rnil end, slot_read cs)
    else None.

  Lemma row_map_trip spec : row_map spec = map kin (trip Fc spec).
  Proof.
    induction spec as [|cs spec IH]; [reflexivity|]. unfold row_map, trip in *. cbn [flat_map]. rewrite map_app, IH.
    f_equal. unfold slot_entry, Fc. destruct (snd cs) as [[|]| |]; reflexivity.
  Qed.

  Lemma row_members_trip spec : rv_members (row_members spec) = map kin (trip Fu spec).
  Proof.
    induction spec as [|cs spec IH]; [reflexivity|]. unfold row_members, trip, rv_members in *. cbn [flat_map].
    rewrite !map_app, IH. f_equal. unfold slot_member, Fu. destruct (visible_col cs); [|reflexivity].
    destruct (snd cs); reflexivity.
  Qed.

  Lemma trip_Forall (P : str * rv * rv -> Prop) F spec :
    (forall cs ab, In cs spec -> F cs = Some ab -> P (sname cs, fst ab, snd ab)) -> Forall P (trip F spec).
  Proof.
    intros H. induction spec as [|cs spec IH]; [constructor|]. unfold trip. cbn [flat_map]. fold (trip F spec).
    apply Forall_app. split; [|apply IH; intros cs' ab H1 H2; apply (H cs' ab); [now right | exact H2]].
    destruct (F cs) as [ab|] eqn:E; [|constructor]. constructor; [|constructor]. apply H; [now left | exact E].
  Qed.

  Lemma stored_after_create spec cs :
    NoDup (map sname spec) -> In cs spec ->
    upds gnil (map kout (trip Fc spec)) (sname cs) = slot_stored cs.
  Proof.
    intros Hnd Hin. rewrite upds_trip by assumption. unfold Fc, slot_stored, gnil.
    destruct (snd cs) as [[|]| |]; reflexivity.
  Qed.

  Lemma read_after_unmarshal spec cs :
    NoDup (map sname spec) -> In cs spec ->
    upds gnil (map kout (trip Fu spec)) (sname cs) = slot_read cs.
  Proof.
    intros Hnd Hin. rewrite upds_trip by assumption. unfold Fu, slot_read, gnil.
    destruct (visible_col cs); reflexivity.
  Qed.

  Lemma holds_stored cs : slot_ok cs -> holds cs (slot_stored cs).
  Proof.
    unfold holds, slot_stored. intros Hok Hvis. unfold slot_ok in Hok.
    destruct (snd cs) as [inmap | v v' e leaf txt | x x']; [reflexivity | |].
    - destruct Hok as (_ & Hv & _ & _ & _ & _ & Hexp & _ & Hm & Hw & _). exists v. tauto.
    - destruct Hok as [Hf _]. unfold visible_col in Hvis. rewrite Hf in Hvis. discriminate.
  Qed.

  Lemma holds_read cs : slot_ok cs -> holds cs (slot_read cs).
  Proof.
    unfold holds, slot_read. intros Hok Hvis. rewrite Hvis. unfold slot_ok in Hok.
    destruct (snd cs) as [inmap | v v' e leaf txt | x x']; [reflexivity | | reflexivity].
    destruct Hok as (_ & _ & Hv' & _ & _ & _ & _ & Hexp' & Hm & Hw & _). exists v'. tauto.
  Qed.

  Lemma row_members_wf spec : Forall slot_ok spec ->
    Forall (fun kv : str * jv => ustr (fst kv) /\ jv_wf (snd kv)) (row_members spec).
  Proof.
    induction 1 as [|cs spec Hok _ IH]; [constructor|]. unfold row_members. cbn [flat_map]. fold (row_members spec).
    apply Forall_app. split; [|exact IH]. unfold slot_member. destruct (visible_col cs) eqn:Ev; [|constructor].
    constructor; [|constructor]. cbn [fst snd]. unfold slot_ok in Hok.
    destruct (snd cs) as [inmap | v v' e leaf txt | x x'].
    - split; [now apply Hok | constructor].
    - destruct Hok as (Hc & _ & _ & _ & _ & _ & _ & _ & _ & _ & Hwf & _). tauto.
    - destruct Hok as [Hf _]. unfold visible_col in Ev. rewrite Hf in Ev. discriminate.
  Qed.

  (* ================= the round trip of a row ================= *)
  Lemma row_roundtrip n spec extras :
    NoDup (map sname spec) -> Forall slot_ok spec -> extras_ok n (map sname spec) extras ->
    exists line g1 g2,
      write_jv (JObj (row_members spec ++ extras)) = Some line
      /\ (forall cs, In cs spec -> g1 (sname cs) = slot_stored cs)
      /\ (forall cs, In cs spec -> g2 (sname cs) = slot_read cs)
      /\ create_row O parse_top_rv (S (S (S n))) (tpl_of (map fst spec)) (RMap (row_map spec ++ rv_members extras))
         = Ok (MkRow (cells (map fst spec) g1 ++ auto_cells (rv_members extras)) (map sname spec ++ map fst extras))
      /\ marshal_row' (S (S (S n))) (MkRow (cells (map fst spec) g1 ++ auto_cells (rv_members extras)) (map sname spec ++ map fst extras))
         = Ok line
      /\ get_row O parse_top_rv (S (S (S n))) (tpl_of (map fst spec)) line
         = Ok (MkRow (cells (map fst spec) g2 ++ auto_cells (rv_members extras)) (map sname spec ++ map fst extras)).
  Proof.
    intros Hnd Hok Hex. pose proof Hex as (Hne & Hfr & Hexok).
    pose proof Hnd as Hndc. rewrite <- map_cname_fst in Hndc.
    set (cols := map fst spec) in *.
    set (g1 := upds gnil (map kout (trip Fc spec))). set (g2 := upds gnil (map kout (trip Fu spec))).
    assert (H1 : forall cs, In cs spec -> g1 (sname cs) = slot_stored cs)
      by (intros cs Hcs; now apply stored_after_create).
    assert (H2 : forall cs, In cs spec -> g2 (sname cs) = slot_read cs)
      by (intros cs Hcs; now apply read_after_unmarshal).
    rewrite Forall_forall in Hok.
    destruct (marshal_row_spec n spec extras g1 Hnd) as (line & Hw & Hm); [|exact Hex|].
    { intros cs Hcs. rewrite (H1 cs Hcs). apply holds_stored. now apply Hok. }
    assert (Hnex : NoDup (map fst (rv_members extras))) by (unfold rv_members; now rewrite map_fst_rv).
    assert (Hfrex : forall g k, In k (map fst (rv_members extras)) -> alookup k (row_m (row_of cols g)) = None).
    { intros g k Hk. unfold rv_members in Hk. rewrite map_fst_rv in Hk. unfold row_of. cbn [row_m].
      apply alookup_cells_none. unfold cols. rewrite map_cname_fst. now apply Hfr. }
    exists line, g1, g2. split; [exact Hw|]. split; [exact H1|]. split; [exact H2|]. split; [|split; [exact Hm|]].
    - (* CreateRow(map) *)
      unfold create_row. rewrite (tpl_of_eq cols Hndc), (clone_tpl _ cols Hndc). cbn [bind].
      rewrite row_map_trip, (create_from_map_decl cols Hndc).
      + fold g1. rewrite create_from_map_fresh; [|exact Hnex|apply Hfrex].
        unfold row_of. rewrite obj_fold_fresh.
        * unfold rv_members at 2. rewrite map_fst_rv. unfold cols. rewrite map_cname_fst. reflexivity.
        * exact Hnex.
        * apply (Hfrex g1).
      + apply trip_Forall. intros cs ab Hcs HF. cbn [kin kout fst snd]. exists (fst cs).
        split; [unfold cols; now apply in_map|]. split; [reflexivity|].
        specialize (Hok cs Hcs). unfold slot_ok in Hok. unfold Fc in HF.
        destruct (snd cs) as [[|] | v v' e leaf txt | x x'].
        * injection HF as <-. cbn [fst snd]. apply cast_to_nil_ok. now apply Hok.
        * discriminate.
        * injection HF as <-. cbn [fst snd]. apply cast_to_self.
          destruct Hok as (_ & _ & _ & _ & Hc & _). exact Hc.
        * injection HF as <-. cbn [fst snd]. apply Hok.
    - (* GetRow of the line *)
      unfold get_row, create_row_empty. rewrite (tpl_of_eq cols Hndc), (clone_tpl _ cols Hndc). cbn [bind].
      unfold unmarshal_text, parse_top_rv.
      rewrite (write_read (row_members spec ++ extras) line); [|constructor; apply Forall_app; split|exact Hw].
      + fold (rv_members (row_members spec ++ extras)). unfold rv_members at 1. rewrite map_app.
        fold (rv_members (row_members spec)). fold (rv_members extras). rewrite row_members_trip.
        unfold row_unmarshal. rewrite (unmarshal_members_decl _ cols Hndc).
        * fold g2. rewrite unmarshal_members_fresh; [|exact Hnex|apply Hfrex].
          unfold row_of. rewrite obj_fold_fresh; [|exact Hnex|apply (Hfrex g2)].
          cbn [bind]. unfold rv_members at 2. rewrite map_fst_rv. unfold cols. rewrite map_cname_fst. reflexivity.
        * apply trip_Forall. intros cs ab Hcs HF. cbn [kin kout fst snd]. exists (fst cs).
          split; [unfold cols; now apply in_map|]. split; [reflexivity|]. intros raw.
          specialize (Hok cs Hcs). unfold slot_ok in Hok. unfold Fu, slot_read in HF.
          destruct (visible_col cs) eqn:Ev; [|discriminate]. injection HF as <-. cbn [fst snd].
          destruct (snd cs) as [inmap | v v' e leaf txt | x x']; try apply value_import_nil.
          destruct Hok as (_ & _ & _ & _ & _ & _ & _ & _ & _ & _ & _ & Hnn & Himp).
          now apply value_import_leaf.
      + apply row_members_wf. now apply Forall_forall.
      + eapply Forall_impl; [|exact Hexok]. intros kv (A & B & _). split; assumption.
  Qed.

  (* C13 for a whole row: CreateRow of the map succeeds, the row is written as one line — the JSON text
     of the object whose members are the visible columns in declaration order (null for a nil column)
     followed by the undeclared keys — and reading that line through the same template gives the row
     whose declared columns hold the values read back v'_i with their format and raw type, nil columns
     nil, hidden columns nil, and the undeclared keys as Auto values after them *)
  Theorem lossless_row_upto n spec extras :
    NoDup (map sname spec) -> Forall slot_ok spec -> extras_ok n (map sname spec) extras ->
    exists line,
      let t := tpl_of (map fst spec) in
      write_jv (JObj (row_members spec ++ extras)) = Some line
      /\ bind (create_row O parse_top_rv (S (S (S n))) t (RMap (row_map spec ++ rv_members extras)))
              (marshal_row' (S (S (S n)))) = Ok line
      /\ get_row O parse_top_rv (S (S (S n))) t line = Ok (row_read spec extras).
  Proof.
    intros Hnd Hok Hex. destruct (row_roundtrip n spec extras Hnd Hok Hex) as (line & g1 & g2 & Hw & _ & H2 & Hc & Hm & Hg).
    exists line. cbv zeta. split; [exact Hw|]. split; [rewrite Hc; exact Hm|].
    rewrite Hg. unfold row_read. rewrite (cells_read spec slot_read g2 H2). reflexivity.
  Qed.

  (* C05 for a whole row: that line, read by the importer and written by the exporter of the same
     template, comes out byte for byte (plus the line feed) *)
  Theorem fixed_point_row_upto n spec extras :
    NoDup (map sname spec) -> Forall slot_ok_fp spec -> extras_ok n (map sname spec) extras ->
    exists line,
      let t := tpl_of (map fst spec) in
      write_jv (JObj (row_members spec ++ extras)) = Some line
      /\ bind (create_row O parse_top_rv (S (S (S n))) t (RMap (row_map spec ++ rv_members extras)))
              (marshal_row' (S (S (S n)))) = Ok line
      /\ pipeline O encode_string parse_top_rv jfloat jother (S (S (S n))) t t line = Ok (line ++ [10]).
  Proof.
    intros Hnd Hfp Hex.
    assert (Hok : Forall slot_ok spec) by (eapply Forall_impl; [|exact Hfp]; intros cs H; apply H).
    destruct (row_roundtrip n spec extras Hnd Hok Hex) as (line & g1 & g2 & Hw & _ & H2 & Hc & Hm & Hg).
    exists line. cbv zeta. split; [exact Hw|]. split; [rewrite Hc; exact Hm|].
    pose proof Hex as (Hne & Hfr & Hexok). rewrite Forall_forall in Hok, Hfp.
    pose proof Hnd as Hndc. rewrite <- map_cname_fst in Hndc. set (cols := map fst spec) in *.
    assert (Hnex : NoDup (map fst (rv_members extras))) by (unfold rv_members; now rewrite map_fst_rv).
    unfold pipeline. rewrite Hg. cbn [bind]. unfold export_bytes, create_row.
    rewrite (tpl_of_eq cols Hndc), (clone_tpl _ cols Hndc). cbn [bind].
    rewrite <- (map_cname_fst spec). fold cols.
    set (m2 := cells cols g2 ++ auto_cells (rv_members extras)).
    rewrite (create_from_row_decl _ cols m2 g2 Hndc cols gnil (map fst extras)).
    - set (g3 := upds gnil (map (fun d => (cname d, g2 (cname d))) cols)).
      assert (H3 : forall d, In d cols -> g3 (cname d) = g2 (cname d)).
      { intros d Hd. unfold g3. rewrite upds_lookup by (rewrite map_map; exact Hndc).
        rewrite alookup_map_h by (now apply in_map). reflexivity. }
      replace (map fst extras) with (map fst (rv_members extras)) by (unfold rv_members; now rewrite map_fst_rv).
      rewrite (create_from_row_fresh O); [|lia| |exact Hnex|].
      + unfold row_of. rewrite obj_fold_fresh; [|exact Hnex|].
        * cbn [bind]. rewrite (cells_ext cols g3 g2 H3).
          destruct (marshal_row_spec n spec extras g2 Hnd) as (line' & Hw' & Hm'); [|exact Hex|].
          { intros cs Hcs. rewrite (H2 cs Hcs). apply holds_read. now apply Hok. }
          rewrite Hw in Hw'. injection Hw' as <-. unfold rv_members at 2. rewrite map_fst_rv.
          unfold cols. rewrite map_cname_fst, Hm'. reflexivity.
        * intros k Hk. unfold rv_members in Hk. rewrite map_fst_rv in Hk.
          apply alookup_cells_none. apply Hfr in Hk. unfold cols. now rewrite map_cname_fst.
      + apply Forall_forall. intros [k v] Hin. cbn [fst snd]. unfold m2, rv_members in *.
        apply in_map_iff in Hin as [[k0 d0] [E Hin]]. cbn [fst snd] in E. injection E as <- <-.
        apply alookup_extras; [exact Hne | unfold cols; now rewrite map_cname_fst | exact Hin].
      + intros k Hk. unfold rv_members in Hk. rewrite map_fst_rv in Hk. unfold row_of. cbn [row_m].
        apply alookup_cells_none. apply Hfr in Hk. unfold cols. now rewrite map_cname_fst.
    - intros d Hd. split; [exact Hd|]. split.
      + unfold m2. apply alookup_app_some. now apply alookup_cells.
      + unfold cols in Hd. apply in_map_iff in Hd as [cs [<- Hcs]]. fold (sname cs). rewrite (H2 cs Hcs).
        destruct (Hfp cs Hcs) as [Hs Hn]. unfold slot_ok in Hs. unfold slot_read.
        destruct (visible_col cs) eqn:Ev.
        * destruct (snd cs) as [inmap | v v' e leaf txt | x x']; try (now apply cast_to_nil_ok).
          apply cast_to_self. destruct Hs as (_ & _ & _ & _ & _ & Hc' & _). exact Hc'.
        * apply cast_to_nil_ok. destruct (snd cs) as [inmap | v v' e leaf txt | x x'] eqn:Es; try exact Hn.
          rewrite (slot_val_visible cs v v' e leaf txt Es (Hok cs Hcs)) in Ev. discriminate.
  Qed.

  (* ================= instances: every column a proved pairing ================= *)

  (* a typed value of one of the 86 proved pairings (the constructors of [proved_pairing] /
     [proved_pairing_upto] carry its domain and hypotheses); nil in a column of a raw type cast.To knows;
     a hidden column of such a raw type holding anything castable *)
  Definition slot_proved (cs : cdecl * slot) : Prop :=
    match snd cs with
    | SlNil _ => (visible_col cs = true -> ustr (sname cs)) /\ known_rawtype (ctyp (fst cs))
    | SlVal v v' e leaf txt =>
        ustr (sname cs) /\ proved_pairing_upto O jfloat (cfmt (fst cs)) (ctyp (fst cs)) v v' e leaf txt
    | SlHid x x' =>
        cfmt (fst cs) = FHidden /\ cast_to O (ctyp (fst cs)) x = Ok x' /\ known_rawtype (ctyp (fst cs))
    end.

  (* what "read back" means for a typed value: [same_second] of TemplateLossless.v *)
  Definition slot_same_second (cs : cdecl * slot) : Prop :=
    match snd cs with SlVal v v' _ _ _ => same_second (cfmt (fst cs)) v v' | _ => True end.

  Lemma slot_proved_ok_fp cs : slot_proved cs -> slot_ok_fp cs.
  Proof.
    unfold slot_proved, slot_ok_fp, slot_ok. destruct (snd cs) as [inmap | v v' e leaf txt | x x'].
    - intros [Hu Hk]. pose proof (known_nil_castable _ Hk). tauto.
    - intros [Hu Hp]. split; [|exact I]. now apply proved_pairing_upto_ok.
    - intros (Hf & Hc & Hk). pose proof (known_nil_castable _ Hk). tauto.
  Qed.

  Lemma slot_proved_same_second cs : slot_proved cs -> slot_same_second cs.
  Proof.
    unfold slot_proved, slot_same_second. destruct (snd cs) as [inmap | v v' e leaf txt | x x']; try (intros _; exact I).
    intros [_ Hp]. eapply proved_pairing_upto_same_second. exact Hp.
  Qed.

  Theorem lossless_row_proved_upto n spec extras :
    NoDup (map sname spec) -> Forall slot_proved spec -> extras_ok n (map sname spec) extras ->
    Forall slot_same_second spec
    /\ exists line,
      let t := tpl_of (map fst spec) in
      write_jv (JObj (row_members spec ++ extras)) = Some line
      /\ bind (create_row O parse_top_rv (S (S (S n))) t (RMap (row_map spec ++ rv_members extras)))
              (marshal_row' (S (S (S n)))) = Ok line
      /\ get_row O parse_top_rv (S (S (S n))) t line = Ok (row_read spec extras).
  Proof.
    intros Hnd Hp Hex. split.
    - eapply Forall_impl; [|exact Hp]. exact slot_proved_same_second.
    - apply lossless_row_upto; [exact Hnd | | exact Hex].
      eapply Forall_impl; [|exact Hp]. intros cs H. apply slot_proved_ok_fp in H. apply H.
  Qed.

  Theorem fixed_point_row_proved_upto n spec extras :
    NoDup (map sname spec) -> Forall slot_proved spec -> extras_ok n (map sname spec) extras ->
    exists line,
      let t := tpl_of (map fst spec) in
      write_jv (JObj (row_members spec ++ extras)) = Some line
      /\ bind (create_row O parse_top_rv (S (S (S n))) t (RMap (row_map spec ++ rv_members extras)))
              (marshal_row' (S (S (S n)))) = Ok line
      /\ pipeline O encode_string parse_top_rv jfloat jother (S (S (S n))) t t line = Ok (line ++ [10]).
  Proof.
    intros Hnd Hp Hex. apply fixed_point_row_upto; [exact Hnd | | exact Hex].
    eapply Forall_impl; [|exact Hp]. exact slot_proved_ok_fp.
  Qed.

  (* ================= the order of the declared keys in the map is irrelevant ================= *)
  Lemma alookup_perm {A} (a b : list (str * A)) k :
    Permutation a b -> NoDup (map fst a) -> alookup k a = alookup k b.
  Proof.
    induction 1 as [|[k0 x0] a b Hp IH|[k0 x0] [k1 x1] a|a b c H1 IH1 H2 IH2]; intros Hnd.
    - reflexivity.
    - cbn [map fst] in Hnd. inversion Hnd; subst. cbn [alookup]. destruct (str_eqb k k0); auto.
    - cbn [map fst] in Hnd. inversion Hnd as [|? ? Hn _]; subst. cbn [alookup].
      destruct (str_eqb k k1) eqn:E1, (str_eqb k k0) eqn:E0; try reflexivity.
      apply str_eqb_eq in E1, E0. subst. exfalso. apply Hn. now left.
    - rewrite IH1 by exact Hnd. apply IH2. eapply Permutation_NoDup; [apply Permutation_map; exact H1 | exact Hnd].
  Qed.

  (* CreateRow of a map listing the declared entries in any order builds the same row *)
  Theorem create_row_any_order n spec kvs rest :
    NoDup (map sname spec) -> Forall slot_ok spec -> Permutation kvs (row_map spec) ->
    create_row O parse_top_rv (S n) (tpl_of (map fst spec)) (RMap (kvs ++ rest))
    = create_row O parse_top_rv (S n) (tpl_of (map fst spec)) (RMap (row_map spec ++ rest)).
  Proof.
    intros Hnd Hok Hperm. pose proof Hnd as Hndc. rewrite <- map_cname_fst in Hndc. set (cols := map fst spec) in *.
    rewrite row_map_trip in Hperm |- *.
    destruct (Permutation_map_inv _ _ Hperm) as (us' & -> & Hp').
    assert (HF : Forall (fun u => exists d, In d cols /\ cname d = fst (kin u)
                                  /\ cast_to O (ctyp d) (snd (kin u)) = Ok (snd (kout u))) (trip Fc spec)).
    { rewrite Forall_forall in Hok. apply trip_Forall. intros cs ab Hcs HFc. cbn [kin kout fst snd]. exists (fst cs).
      split; [unfold cols; now apply in_map|]. split; [reflexivity|].
      specialize (Hok cs Hcs). unfold slot_ok in Hok. unfold Fc in HFc.
      destruct (snd cs) as [[|] | v v' e leaf txt | x x'].
      - injection HFc as <-. cbn [fst snd]. apply cast_to_nil_ok. now apply Hok.
      - discriminate.
      - injection HFc as <-. cbn [fst snd]. apply cast_to_self. destruct Hok as (_ & _ & _ & _ & Hc & _). exact Hc.
      - injection HFc as <-. cbn [fst snd]. apply Hok. }
    unfold create_row. rewrite (tpl_of_eq cols Hndc), (clone_tpl _ cols Hndc). cbn [bind].
    rewrite !(create_from_map_decl cols Hndc); [| exact HF | eapply Permutation_Forall; [exact Hp' | exact HF]].
    f_equal. unfold row_of. f_equal. apply cells_ext. intros d Hd.
    assert (Hk : NoDup (map fst (map kout (trip Fc spec)))) by (now apply trip_keys_NoDup).
    assert (Hpk : Permutation (map kout (trip Fc spec)) (map kout us')) by (now apply Permutation_map).
    rewrite !upds_lookup; [| exact Hk | eapply Permutation_NoDup; [apply Permutation_map; exact Hpk | exact Hk]].
    rewrite (alookup_perm _ _ (cname d) Hpk Hk). reflexivity.
  Qed.

  Theorem lossless_row_upto_any_order n spec extras kvs :
    NoDup (map sname spec) -> Forall slot_ok spec -> extras_ok n (map sname spec) extras ->
    Permutation kvs (row_map spec) ->
    exists line,
      let t := tpl_of (map fst spec) in
      write_jv (JObj (row_members spec ++ extras)) = Some line
      /\ bind (create_row O parse_top_rv (S (S (S n))) t (RMap (kvs ++ rv_members extras)))
              (marshal_row' (S (S (S n)))) = Ok line
      /\ get_row O parse_top_rv (S (S (S n))) t line = Ok (row_read spec extras).
  Proof.
    intros Hnd Hok Hex Hp. cbv zeta. rewrite (create_row_any_order _ spec kvs _ Hnd Hok Hp).
    now apply lossless_row_upto.
  Qed.

  Theorem fixed_point_row_upto_any_order n spec extras kvs :
    NoDup (map sname spec) -> Forall slot_ok_fp spec -> extras_ok n (map sname spec) extras ->
    Permutation kvs (row_map spec) ->
    exists line,
      let t := tpl_of (map fst spec) in
      write_jv (JObj (row_members spec ++ extras)) = Some line
      /\ bind (create_row O parse_top_rv (S (S (S n))) t (RMap (kvs ++ rv_members extras)))
              (marshal_row' (S (S (S n)))) = Ok line
      /\ pipeline O encode_string parse_top_rv jfloat jother (S (S (S n))) t t line = Ok (line ++ [10]).
  Proof.
    intros Hnd Hfp Hex Hp. cbv zeta.
    assert (Hok : Forall slot_ok spec) by (eapply Forall_impl; [|exact Hfp]; intros cs H; apply H).
    rewrite (create_row_any_order _ spec kvs _ Hnd Hok Hp). now apply fixed_point_row_upto.
  Qed.

End LosslessRow.

(* ================= a concrete row (non-vacuity of the premises) =================
   columns, in declaration order:
     "n"  numeric(int64)      -1234567890123
     "h"  hidden(string)      int 7 (kept as "7", not written)
     "é"  string(string)      "é€!"
     "z"  numeric(int64)      nil (absent from the map)
     "b"  boolean(bool)       true
     "y"  binary([]byte)      00 FF 10
     "w"  string(time.Time)   nil (present in the map)
     "t"  datetime(time.Time) 2023-11-14T23:13:20.000000005+01:00 (read back without the nanoseconds)
   undeclared keys: "u": [1,{"k":"v"}], "x": null *)
Definition ex_time : gtime := {| tsec := 1700000000; tnsec := 5; toff := 3600 |}.
Definition ex_text : str := [195; 169; 226; 130; 172; 33].
Definition ex_bytes : str := [0; 255; 16].
Definition ex_spec : list (cdecl * slot) :=
  [ (([110], FNumeric, VInt KInt64 0),
     SlVal (VInt KInt64 (-1234567890123)) (VInt KInt64 (-1234567890123)) (VNum (dec (-1234567890123)))
           (JNum (dec (-1234567890123))) (dec (-1234567890123)));
    (([104], FHidden, VStr []), SlHid (RS (VInt KInt 7)) (RS (VStr [55])));
    (([195; 169], FString, VStr []), SlVal (VStr ex_text) (VStr ex_text) (VStr ex_text) (JStr ex_text) (encode_string ex_text));
    (([122], FNumeric, VInt KInt64 0), SlNil false);
    (([98], FBoolean, VBool true), SlVal (VBool true) (VBool true) (VBool true) (JBool true) s_true);
    (([121], FBinary, VBytes (mkbytes [])),
     SlVal (VBytes (mkbytes ex_bytes)) (VBytes (mkbytes ex_bytes)) (VStr (base64_encode ex_bytes))
           (JStr (base64_encode ex_bytes)) (encode_string (base64_encode ex_bytes)));
    (([119], FString, VTime zero_time), SlNil true);
    (([116], FDateTime, VTime zero_time),
     SlVal (VTime ex_time) (VTime (trunc_sec ex_time)) (VStr (fmt_rfc3339 ex_time)) (JStr (fmt_rfc3339 ex_time))
           (encode_string (fmt_rfc3339 ex_time))) ].
Definition ex_extras : list (str * jv) :=
  [ ([117], JArr [JNum [49]; JObj [([107], JStr [118])]]); ([120], JNull) ].


(* {"n":-1234567890123,"é":"é€!","z":null,"b":true,"y":"AP8Q","w":null,"t":"2023-11-14T23:13:20+01:00","u":[1,{"k":"v"}],"x":null} *)
Definition ex_line : str :=
  [123; 34; 110; 34; 58; 45; 49; 50; 51; 52; 53; 54; 55; 56; 57; 48; 49; 50;
   51; 44; 34; 195; 169; 34; 58; 34; 195; 169; 226; 130; 172; 33; 34; 44;
   34; 122; 34; 58; 110; 117; 108; 108; 44; 34; 98; 34; 58; 116; 114; 117;
   101; 44; 34; 121; 34; 58; 34; 65; 80; 56; 81; 34; 44; 34; 119; 34; 58;
   110; 117; 108; 108; 44; 34; 116; 34; 58; 34; 50; 48; 50; 51; 45; 49; 49;
   45; 49; 52; 84; 50; 51; 58; 49; 51; 58; 50; 48; 43; 48; 49; 58; 48; 48;
   34; 44; 34; 117; 34; 58; 91; 49; 44; 123; 34; 107; 34; 58; 34; 118; 34;
   125; 93; 44; 34; 120; 34; 58; 110; 117; 108; 108; 125].

Lemma ex_text_ustr : ustr ex_text.
Proof.
  change ex_text with (utf8_encode 233 ++ utf8_encode 8364 ++ utf8_encode 33 ++ []).
  repeat (constructor; [unfold scalar; lia|]). constructor.
Qed.

Lemma ex_name_ustr : ustr [195; 169].
Proof. change [195; 169] with (utf8_encode 233 ++ []). constructor; [unfold scalar; lia | constructor]. Qed.

Lemma ascii1_ustr c : 0 <= c < 128 -> ustr [c].
Proof. intros H. apply (ascii_ustr (fun _ _ => None) (fun _ => None)). constructor; [exact H | constructor]. Qed.

Lemma ex_row_ok O jf :
  NoDup (map sname ex_spec) /\ Forall (slot_proved O jf) ex_spec /\ extras_ok 5 (map sname ex_spec) ex_extras.
Proof.
  split; [apply keys_distinct_NoDup; vm_compute; reflexivity|]. split.
  - unfold ex_spec. repeat (apply Forall_cons); try apply Forall_nil; unfold slot_proved, sname, visible_col, cname, cfmt, ctyp; cbn [fst snd].
    + split; [apply ascii1_ustr; lia|]. apply ppu_exact. apply (pp_numeric_int O jf KInt64). vm_compute. split; congruence.
    + split; [reflexivity|]. split; [reflexivity | exact I].
    + split; [exact ex_name_ustr|]. apply ppu_exact. apply pp_string_string. exact ex_text_ustr.
    + split; [intros _; apply ascii1_ustr; lia | exact I].
    + split; [apply ascii1_ustr; lia|]. apply ppu_exact. apply (pp_boolean_bool O jf true).
    + split; [apply ascii1_ustr; lia|]. apply ppu_exact. apply pp_binary_bytes. repeat constructor; unfold is_byte; lia.
    + split; [intros _; apply ascii1_ustr; lia | exact I].
    + split; [apply ascii1_ustr; lia|]. apply (ppu_datetime_time O jf zero_time ex_time); vm_compute; repeat split; congruence.
  - split; [apply keys_distinct_NoDup; vm_compute; reflexivity|]. split.
    + intros k Hk Hn. cbn in Hk, Hn. 
      repeat match goal with H : _ \/ _ |- _ => destruct H end; try contradiction; subst; discriminate.
    + unfold ex_extras. repeat (apply Forall_cons); try apply Forall_nil; cbn [fst snd].
      * split; [apply ascii1_ustr; lia|]. split.
        { repeat (constructor; cbn [fst snd]); try (apply ascii1_ustr; lia). apply is_json_number_iff. reflexivity. }
        split; [apply uniq_jvb_sound; reflexivity | vm_compute; lia].
      * split; [apply ascii1_ustr; lia|]. split; [constructor|]. split; [exact I | vm_compute; lia].
Qed.

(* the row is written as [ex_line] *)
Lemma ex_row_line O jf jo :
  bind (create_row O parse_top_rv 8 (tpl_of (map fst ex_spec)) (RMap (row_map ex_spec ++ rv_members ex_extras)))
       (marshal_row O encode_string jf jo 8) = Ok ex_line.
Proof. vm_compute. reflexivity. Qed.

(* why nil and hidden columns need a raw type cast.To knows ([nil_castable]) in the fixed-point theorem:
   with an unknown dynamic type as raw type (a struct, an array) the importer accepts {"c":null} and
   the exporter of the same template refuses the row (cast.To(struct{}, nil) fails) — checked on the
   real package. Such a raw type is outside the lossless table, so this is not a C05 violation. *)
Example nil_unknown_rawtype_refused : forall O jf jo,
  pipeline O encode_string parse_top_rv jf jo 4 (tpl_of [([99], FAuto, VOther 1)]) (tpl_of [([99], FAuto, VOther 1)])
    [123; 34; 99; 34; 58; 110; 117; 108; 108; 125]
  = Err ErrUnableToCast.
Proof. intros. vm_compute. reflexivity. Qed.
