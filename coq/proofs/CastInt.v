(* C09 — integer casts return the exact value or an error: lemmas over CastGen. *)
From Coq Require Import ZArith Reals List Bool Lia Lra.
From Flocq Require Import Core IEEE754.Binary IEEE754.Bits.
From Flocq Require IEEE754.BinarySingleNaN.
From JL.std Require Import GoBase GoFloat GoStrconv GoTime GoVal GoBase64.
From JL.gen Require Import CastGen.
From JL.proofs Require Import CastTactics FloatBridge CastBinary StrconvProofs.
Import ListNotations.
Open Scope Z_scope.

(* the real value of a finite float given by its bits *)
Definition f64_R (x : Z) : R := B2R 53 1024 (b64 x).
Definition f32_R (x : Z) : R := B2R 24 128 (b32 x).

Lemma f64_finite_class x : is_finite 53 1024 (b64 x) = true <-> f64_class x = FFin.
Proof. unfold f64_class. destruct (b64 x); simpl; split; congruence. Qed.

Lemma f32_finite_class x : is_finite 24 128 (b32 x) = true <-> f32_class x = FFin.
Proof. unfold f32_class. destruct (b32 x); simpl; split; congruence. Qed.

Lemma f64_guard_sound x lo hi1 lo' hi1' :
  B2R 53 1024 (norm64 lo 0 false) = IZR lo' /\ is_finite 53 1024 (norm64 lo 0 false) = true ->
  B2R 53 1024 (norm64 hi1 0 false) = IZR hi1' /\ is_finite 53 1024 (norm64 hi1 0 false) = true ->
  0 < hi1' ->
  f64_ge x (f64_of_Z lo) = true -> f64_lt x (f64_of_Z hi1) = true ->
  f64_class x = FFin /\ lo' <= f64_trunc x < hi1'.
Proof.
  intros [Rl Fl] [Rh Fh] Hpos Hge Hlt.
  unfold f64_ge, f64_lt, f64_cmp, f64_of_Z in Hge, Hlt. rewrite b64_bits in Hge, Hlt.
  destruct (guard_trunc 53 1024 eq_refl (b64 x) _ _ lo' hi1' Fl Fh Rl Rh Hpos Hge Hlt) as [Hf Hb].
  split; [apply f64_finite_class; exact Hf | exact Hb].
Qed.

Lemma f32_guard_sound x lo hi1 lo' hi1' :
  B2R 24 128 (norm32 lo 0 false) = IZR lo' /\ is_finite 24 128 (norm32 lo 0 false) = true ->
  B2R 24 128 (norm32 hi1 0 false) = IZR hi1' /\ is_finite 24 128 (norm32 hi1 0 false) = true ->
  0 < hi1' ->
  f32_ge x (f32_of_Z lo) = true -> f32_lt x (f32_of_Z hi1) = true ->
  f32_class x = FFin /\ lo' <= f32_trunc x < hi1'.
Proof.
  intros [Rl Fl] [Rh Fh] Hpos Hge Hlt.
  unfold f32_ge, f32_lt, f32_cmp, f32_of_Z in Hge, Hlt. rewrite b32_bits in Hge, Hlt.
  destruct (guard_trunc 24 128 eq_refl (b32 x) _ _ lo' hi1' Fl Fh Rl Rh Hpos Hge Hlt) as [Hf Hb].
  split; [apply f32_finite_class; exact Hf | exact Hb].
Qed.

Lemma f64_guard_complete x z lo hi1 lo' hi1' :
  B2R 53 1024 (norm64 lo 0 false) = IZR lo' /\ is_finite 53 1024 (norm64 lo 0 false) = true ->
  B2R 53 1024 (norm64 hi1 0 false) = IZR hi1' /\ is_finite 53 1024 (norm64 hi1 0 false) = true ->
  f64_class x = FFin -> f64_R x = IZR z -> lo' <= z < hi1' ->
  f64_ge x (f64_of_Z lo) = true /\ f64_lt x (f64_of_Z hi1) = true /\ f64_trunc x = z.
Proof.
  intros [Rl Fl] [Rh Fh] Hc Hr Hz. apply f64_finite_class in Hc.
  unfold f64_ge, f64_lt, f64_cmp, f64_of_Z. rewrite !b64_bits.
  exact (guard_complete 53 1024 eq_refl (b64 x) _ _ z lo' hi1' Hc Fl Fh Hr Rl Rh Hz).
Qed.

Lemma f32_guard_complete x z lo hi1 lo' hi1' :
  B2R 24 128 (norm32 lo 0 false) = IZR lo' /\ is_finite 24 128 (norm32 lo 0 false) = true ->
  B2R 24 128 (norm32 hi1 0 false) = IZR hi1' /\ is_finite 24 128 (norm32 hi1 0 false) = true ->
  f32_class x = FFin -> f32_R x = IZR z -> lo' <= z < hi1' ->
  f32_ge x (f32_of_Z lo) = true /\ f32_lt x (f32_of_Z hi1) = true /\ f32_trunc x = z.
Proof.
  intros [Rl Fl] [Rh Fh] Hc Hr Hz. apply f32_finite_class in Hc.
  unfold f32_ge, f32_lt, f32_cmp, f32_of_Z. rewrite !b32_bits.
  exact (guard_complete 24 128 eq_refl (b32 x) _ _ z lo' hi1' Hc Fl Fh Hr Rl Rh Hz).
Qed.

Section CastInt.
  Context (O : oracles).

  Lemma f2i_in_range k f :
    fv_class f = FFin -> in_range k (fv_trunc f) -> cvt_f2i O k f = fv_trunc f.
  Proof.
    intros Hc Hr. unfold cvt_f2i, f2i. rewrite Hc.
    apply in_rangeb_spec in Hr. rewrite Hr. reflexivity.
  Qed.

  Ltac range_k := unfold in_range, imin, imax; cbn [isigned ibits isize]; 
                  repeat match goal with |- context [2 ^ ?n] => let v := eval compute in (2 ^ n) in change (2 ^ n) with v end.
  Ltac range_k_in H := unfold in_range, imin, imax in H; cbn [isigned ibits isize] in H;
                  repeat match type of H with context [2 ^ ?n] => let v := eval compute in (2 ^ n) in change (2 ^ n) with v in H end.

  (* ---- float64 sources: a nil error means the float is finite and the result is its truncation ---- *)
  Lemma ToInt_f64_sound k x r :
    To O (sample k) (VF64 x) = Ok r ->
    f64_class x = FFin /\ r = VInt k (f64_trunc x) /\ in_range k (f64_trunc x).
  Proof.
    intros H. destruct k; unfold sample in H; cast_unfold_top_in H;
    match type of H with context [f64_ge x (f64_of_Z ?lo) && f64_lt x (f64_of_Z ?hi1)] =>
      destruct (f64_ge x (f64_of_Z lo)) eqn:Hge; [|discriminate H];
      destruct (f64_lt x (f64_of_Z hi1)) eqn:Hlt; [|discriminate H];
      const64 lo; const64 hi1;
      match goal with
        Hl : B2R _ _ (norm64 lo _ _) = IZR ?lo' /\ _, Hh : B2R _ _ (norm64 hi1 _ _) = IZR ?hi1' /\ _ |- _ =>
        let Hpos := fresh "Hpos" in
        assert (Hpos : 0 < hi1') by lia;
        destruct (f64_guard_sound x lo hi1 lo' hi1' Hl Hh Hpos Hge Hlt) as [Hcl Hb] end
    end;
    cbn [negb andb] in H;
    match type of H with context [cvt_f2i O ?K _] =>
      assert (Hr : in_range K (fv_trunc (F64 x))) by (range_k; cbn [fv_trunc]; lia) end;
    rewrite (f2i_in_range _ (F64 x) Hcl Hr) in H; inversion H; subst;
    (split; [exact Hcl | split; [reflexivity | exact Hr]]).
  Qed.

  Lemma ToInt_f32_sound k x r :
    To O (sample k) (VF32 x) = Ok r ->
    f32_class x = FFin /\ r = VInt k (f32_trunc x) /\ in_range k (f32_trunc x).
  Proof.
    intros H. destruct k; unfold sample in H; cast_unfold_top_in H;
    match type of H with context [f32_ge x (f32_of_Z ?lo) && f32_lt x (f32_of_Z ?hi1)] =>
      destruct (f32_ge x (f32_of_Z lo)) eqn:Hge; [|discriminate H];
      destruct (f32_lt x (f32_of_Z hi1)) eqn:Hlt; [|discriminate H];
      const32 lo; const32 hi1;
      match goal with
        Hl : B2R _ _ (norm32 lo _ _) = IZR ?lo' /\ _, Hh : B2R _ _ (norm32 hi1 _ _) = IZR ?hi1' /\ _ |- _ =>
        let Hpos := fresh "Hpos" in
        assert (Hpos : 0 < hi1') by lia;
        destruct (f32_guard_sound x lo hi1 lo' hi1' Hl Hh Hpos Hge Hlt) as [Hcl Hb] end
    end;
    cbn [negb andb] in H;
    match type of H with context [cvt_f2i O ?K _] =>
      assert (Hr : in_range K (fv_trunc (F32 x))) by (range_k; cbn [fv_trunc]; lia) end;
    rewrite (f2i_in_range _ (F32 x) Hcl Hr) in H; inversion H; subst;
    (split; [exact Hcl | split; [reflexivity | exact Hr]]).
  Qed.

  (* ---- every integral float value that fits the target is accepted ---- *)
  Lemma ToInt_f64_complete k x z :
    f64_class x = FFin -> f64_R x = IZR z -> in_range k z ->
    To O (sample k) (VF64 x) = Ok (VInt k z).
  Proof.
    intros Hcl HR Hz.
    destruct k; range_k_in Hz; unfold sample; cast_unfold_top;
    match goal with |- context [f64_ge x (f64_of_Z ?lo) && f64_lt x (f64_of_Z ?hi1)] =>
      const64 lo; const64 hi1;
      match goal with
        Hl : B2R _ _ (norm64 lo _ _) = IZR ?lo' /\ _, Hh : B2R _ _ (norm64 hi1 _ _) = IZR ?hi1' /\ _ |- _ =>
        let Hb := fresh "Hb" in
        assert (Hb : lo' <= z < hi1') by lia;
        destruct (f64_guard_complete x z lo hi1 lo' hi1' Hl Hh Hcl HR Hb) as [Hge [Hlt Ht]] end
    end;
    rewrite Hge, Hlt; cbn [negb andb];
    rewrite (f2i_in_range _ (F64 x) Hcl) by (cbn [fv_trunc]; rewrite Ht; range_k; lia);
    cbn [fv_trunc]; rewrite Ht; reflexivity.
  Qed.

  Lemma ToInt_f32_complete k x z :
    f32_class x = FFin -> f32_R x = IZR z -> in_range k z ->
    To O (sample k) (VF32 x) = Ok (VInt k z).
  Proof.
    intros Hcl HR Hz.
    destruct k; range_k_in Hz; unfold sample; cast_unfold_top;
    match goal with |- context [f32_ge x (f32_of_Z ?lo) && f32_lt x (f32_of_Z ?hi1)] =>
      const32 lo; const32 hi1;
      match goal with
        Hl : B2R _ _ (norm32 lo _ _) = IZR ?lo' /\ _, Hh : B2R _ _ (norm32 hi1 _ _) = IZR ?hi1' /\ _ |- _ =>
        let Hb := fresh "Hb" in
        assert (Hb : lo' <= z < hi1') by lia;
        destruct (f32_guard_complete x z lo hi1 lo' hi1' Hl Hh Hcl HR Hb) as [Hge [Hlt Ht]] end
    end;
    rewrite Hge, Hlt; cbn [negb andb];
    rewrite (f2i_in_range _ (F32 x) Hcl) by (cbn [fv_trunc]; rewrite Ht; range_k; lia);
    cbn [fv_trunc]; rewrite Ht; reflexivity.
  Qed.

  (* ---- integer sources: exact when the value fits, the type's sentinel otherwise ---- *)
  Ltac cmp_cases :=
    repeat match goal with
    | |- context [?a >? ?b] => destruct (Z.gtb_spec a b)
    | |- context [?a <? ?b] => destruct (Z.ltb_spec a b)
    end; cbn [orb].

  Lemma ToInt_int_src k k' z :
    in_range k' z ->
    (in_range k z -> To O (sample k) (VInt k' z) = Ok (VInt k z))
    /\ (~ in_range k z -> To O (sample k) (VInt k' z) = Err (sentinel_of k)).
  Proof.
    intros Hsrc.
    destruct k, k'; range_k_in Hsrc; split; intros Hin; range_k_in Hin;
      unfold sample, sentinel_of; cast_unfold_top;
      rewrite ?conv_int_id by (range_k; lia);
      cmp_cases;
      repeat match goal with H : context [conv_int ?kk ?zz] |- _ =>
        rewrite (conv_int_id kk zz) in H by (range_k; lia) end;
      rewrite ?conv_int_id by (range_k; lia);
      try reflexivity; try (exfalso; lia).
  Qed.

  Lemma ToInt_bool_src k b :
    To O (sample k) (VBool b) = Ok (VInt k (if b then 1 else 0)).
  Proof. destruct k, b; reflexivity. Qed.

  (* ---- text sources (string, json.Number): whatever spelling Go's ParseInt/ParseUint
          accepts, the result is the parsed value and it fits the target: never a wrapped one ---- *)
  Definition parse_for (k : ikind) (s : str) : option Z :=
    if isigned k then ParseInt s 0 (if Z.eqb (isize k) 8 then (match k with KInt => 0 | _ => 64 end) else ibits k)
    else ParseUint s 0 (if Z.eqb (isize k) 8 then (match k with KUint => 0 | _ => 64 end) else ibits k).

  Lemma parse_for_range k s z : parse_for k s = Some z -> in_range k z.
  Proof.
    unfold parse_for. destruct k; cbn [isigned isize ibits Z.eqb Pos.eqb Z.mul Pos.mul]; intros H;
      first [ apply ParseInt_range in H; [|lia] | apply ParseUint_range in H ];
      cbn [Z.eqb] in H; range_k;
      repeat match type of H with context [2 ^ ?n] => let v := eval compute in (2 ^ n) in change (2 ^ n) with v in H end;
      lia.
  Qed.

  Lemma ToInt_text_src k s :
    To O (sample k) (VStr s) =
      match parse_for k s with Some z => Ok (VInt k z) | None => Err (sentinel_of k) end.
  Proof.
    destruct k; unfold sample, sentinel_of; cast_unfold_top; unfold parse_for;
      cbn [isigned isize ibits Z.eqb Pos.eqb Z.mul Pos.mul];
      match goal with |- context [match ?p with Some _ => _ | None => _ end] => destruct p as [z|] eqn:Ep end;
      try reflexivity;
      rewrite ?conv_int_id; try reflexivity;
      match goal with |- in_range ?kk ?zz => apply (parse_for_range kk s); unfold parse_for;
        cbn [isigned isize ibits Z.eqb Pos.eqb Z.mul Pos.mul]; exact Ep end.
  Qed.

  Lemma ToInt_num_src k s : To O (sample k) (VNum s) = To O (sample k) (VStr s).
  Proof. destruct k; reflexivity. Qed.

  (* canonical decimal text of an integer: accepted exactly when it fits *)
  Lemma parse_for_dec k z : parse_for k (dec z) = if in_rangeb k z then Some z else None.
  Proof.
    unfold parse_for, in_rangeb, imin, imax.
    destruct k; cbn [isigned isize ibits Z.eqb Pos.eqb Z.mul Pos.mul];
      try (rewrite ParseInt_dec by lia; reflexivity).
    - (* int: bitSize 0 means 64 *)
      unfold ParseInt at 1. fold (ParseInt (dec z) 0 64).
      transitivity (ParseInt (dec z) 0 64); [|rewrite ParseInt_dec by lia; reflexivity].
      unfold ParseInt. reflexivity.
    - (* uint: bitSize 0 means 64 *)
      transitivity (ParseUint (dec z) 0 64); [unfold ParseUint; reflexivity|].
      destruct (Z.ltb_spec z 0).
      + rewrite ParseUint_dec_neg by lia. destruct (Z.leb_spec 0 z); [lia|]. reflexivity.
      + unfold dec. destruct (Z.ltb_spec z 0); [lia|]. rewrite ParseUint_dec by lia.
        destruct (Z.leb_spec 0 z); [|lia]. reflexivity.
    - destruct (Z.ltb_spec z 0).
      + rewrite ParseUint_dec_neg by lia. destruct (Z.leb_spec 0 z); [lia|]. reflexivity.
      + unfold dec. destruct (Z.ltb_spec z 0); [lia|]. rewrite ParseUint_dec by lia.
        destruct (Z.leb_spec 0 z); [|lia]. reflexivity.
    - destruct (Z.ltb_spec z 0).
      + rewrite ParseUint_dec_neg by lia. destruct (Z.leb_spec 0 z); [lia|]. reflexivity.
      + unfold dec. destruct (Z.ltb_spec z 0); [lia|]. rewrite ParseUint_dec by lia.
        destruct (Z.leb_spec 0 z); [|lia]. reflexivity.
    - destruct (Z.ltb_spec z 0).
      + rewrite ParseUint_dec_neg by lia. destruct (Z.leb_spec 0 z); [lia|]. reflexivity.
      + unfold dec. destruct (Z.ltb_spec z 0); [lia|]. rewrite ParseUint_dec by lia.
        destruct (Z.leb_spec 0 z); [|lia]. reflexivity.
    - destruct (Z.ltb_spec z 0).
      + rewrite ParseUint_dec_neg by lia. destruct (Z.leb_spec 0 z); [lia|]. reflexivity.
      + unfold dec. destruct (Z.ltb_spec z 0); [lia|]. rewrite ParseUint_dec by lia.
        destruct (Z.leb_spec 0 z); [|lia]. reflexivity.
  Qed.
End CastInt.
