From Coq Require Import ZArith List Bool Lia.
From JL.std Require Import GoBase GoStrconv GoJsonNum GoJson.
Import ListNotations.

(* ---------------------------------------------------------------------------------- *)
(* One-step unfolding equations                                                         *)
(* ---------------------------------------------------------------------------------- *)

Lemma p_value_S : forall f t rest,
  p_value (S f) t rest =
  match t with
  | TDelim c =>
      if (c =? 123)%Z then
        match p_object f rest [] with
        | (m, Some r) => Some (JObj m, r)
        | (_, None) => None
        end
      else if (c =? 91)%Z then
        match p_array f rest [] with
        | Some (l, r) => Some (JArr l, r)
        | None => None
        end
      else None
  | TStr s => Some (JStr s, rest)
  | TNum n => Some (JNum n, rest)
  | TBool b => Some (JBool b, rest)
  | TNull => Some (JNull, rest)
  end.
Proof. reflexivity. Qed.

Lemma p_object_S : forall f toks acc,
  p_object (S f) toks acc =
  match toks with
  | [] => (rev acc, None)
  | TDelim c :: rest =>
      if (c =? 125)%Z then (rev acc, Some rest) else (rev acc, None)
  | TStr k :: rest =>
      match rest with
      | [] => (rev acc, None)
      | t :: rest' =>
          match p_value f t rest' with
          | Some (v, r) => p_object f r ((k, v) :: acc)
          | None => (rev acc, None)
          end
      end
  | _ :: _ => (rev acc, None)
  end.
Proof. reflexivity. Qed.

Lemma p_array_S : forall f toks acc,
  p_array (S f) toks acc =
  match toks with
  | [] => None
  | TDelim c :: rest =>
      if (c =? 93)%Z then Some (rev acc, rest)
      else if (c =? 125)%Z then None
      else match p_value f (TDelim c) rest with
           | Some (v, r) => p_array f r (v :: acc)
           | None => None
           end
  | t :: rest =>
      match p_value f t rest with
      | Some (v, r) => p_array f r (v :: acc)
      | None => None
      end
  end.
Proof. reflexivity. Qed.

Lemma p_value_O : forall t rest, p_value O t rest = None.
Proof. reflexivity. Qed.
Lemma p_object_O : forall toks acc, p_object O toks acc = (rev acc, None).
Proof. reflexivity. Qed.
Lemma p_array_O : forall toks acc, p_array O toks acc = None.
Proof. reflexivity. Qed.

(* ---------------------------------------------------------------------------------- *)
(* The rest shrinks                                                                     *)
(* ---------------------------------------------------------------------------------- *)

Lemma p_shrink : forall f,
  (forall t rest v r, p_value f t rest = Some (v, r) -> (length r <= length rest)%nat)
  /\ (forall toks acc m r, p_object f toks acc = (m, Some r) -> (length r < length toks)%nat)
  /\ (forall toks acc l r, p_array f toks acc = Some (l, r) -> (length r < length toks)%nat).
Proof.
  induction f as [|f [IHv [IHo IHa]]].
  - repeat split; intros.
    + rewrite p_value_O in H. discriminate.
    + rewrite p_object_O in H. discriminate.
    + rewrite p_array_O in H. discriminate.
  - assert (Hv : forall t rest v r, p_value (S f) t rest = Some (v, r) ->
                                    (length r <= length rest)%nat).
    { intros t rest v r H. rewrite p_value_S in H.
      destruct t as [c|s|n|b|]; try (inversion H; subst; lia).
      destruct (c =? 123)%Z.
      - destruct (p_object f rest []) as [m [r0|]] eqn:E; [|discriminate].
        inversion H; subst. apply IHo in E. lia.
      - destruct (c =? 91)%Z; [|discriminate].
        destruct (p_array f rest []) as [[l r0]|] eqn:E; [|discriminate].
        inversion H; subst. apply IHa in E. lia. }
    split; [exact Hv|]. split.
    + intros toks acc m r H. rewrite p_object_S in H.
      destruct toks as [|t rest]; [discriminate|].
      destruct t as [c|k|n|b|]; try discriminate.
      * destruct (c =? 125)%Z; [|discriminate].
        inversion H; subst. simpl. lia.
      * destruct rest as [|t rest']; [discriminate|].
        destruct (p_value f t rest') as [[v r0]|] eqn:E; [|discriminate].
        apply IHv in E. apply IHo in H. simpl. lia.
    + intros toks acc l r H. rewrite p_array_S in H.
      destruct toks as [|t rest]; [discriminate|].
      destruct t as [c|k|n|b|].
      * destruct (c =? 93)%Z.
        { inversion H; subst. simpl. lia. }
        destruct (c =? 125)%Z; [discriminate|].
        destruct (p_value f (TDelim c) rest) as [[v r0]|] eqn:E; [|discriminate].
        apply IHv in E. apply IHa in H. simpl. lia.
      * destruct (p_value f (TStr k) rest) as [[v r0]|] eqn:E; [|discriminate].
        apply IHv in E. apply IHa in H. simpl. lia.
      * destruct (p_value f (TNum n) rest) as [[v r0]|] eqn:E; [|discriminate].
        apply IHv in E. apply IHa in H. simpl. lia.
      * destruct (p_value f (TBool b) rest) as [[v r0]|] eqn:E; [|discriminate].
        apply IHv in E. apply IHa in H. simpl. lia.
      * destruct (p_value f TNull rest) as [[v r0]|] eqn:E; [|discriminate].
        apply IHv in E. apply IHa in H. simpl. lia.
Qed.

Lemma p_value_shrink : forall f t rest v r,
  p_value f t rest = Some (v, r) -> (length r <= length rest)%nat.
Proof. intro f. exact (proj1 (p_shrink f)). Qed.

Lemma p_object_shrink : forall f toks acc m r,
  p_object f toks acc = (m, Some r) -> (length r < length toks)%nat.
Proof. intro f. exact (proj1 (proj2 (p_shrink f))). Qed.

Lemma p_array_shrink : forall f toks acc l r,
  p_array f toks acc = Some (l, r) -> (length r < length toks)%nat.
Proof. intro f. exact (proj2 (proj2 (p_shrink f))). Qed.

(* ---------------------------------------------------------------------------------- *)
(* Fuel stability                                                                       *)
(* ---------------------------------------------------------------------------------- *)

Theorem p_fuel_stable : forall f1 f2,
  (forall t rest, (2 * S (length rest) <= f1)%nat -> (2 * S (length rest) <= f2)%nat ->
      p_value f1 t rest = p_value f2 t rest)
  /\ (forall toks acc, (2 * length toks + 1 <= f1)%nat -> (2 * length toks + 1 <= f2)%nat ->
      p_object f1 toks acc = p_object f2 toks acc)
  /\ (forall toks acc, (2 * length toks + 1 <= f1)%nat -> (2 * length toks + 1 <= f2)%nat ->
      p_array f1 toks acc = p_array f2 toks acc).
Proof.
  induction f1 as [|f1 IH]; intro f2.
  - repeat split; intros; exfalso; lia.
  - destruct f2 as [|f2].
    { repeat split; intros; exfalso; lia. }
    destruct (IH f2) as [IHv [IHo IHa]]. clear IH.
    assert (Harr : forall t rest acc,
               (2 * length (t :: rest) + 1 <= S f1)%nat ->
               (2 * length (t :: rest) + 1 <= S f2)%nat ->
               match p_value f1 t rest with
               | Some (v, r) => p_array f1 r (v :: acc)
               | None => None
               end =
               match p_value f2 t rest with
               | Some (v, r) => p_array f2 r (v :: acc)
               | None => None
               end).
    { intros t rest acc H1 H2. simpl length in H1, H2.
      rewrite (IHv t rest) by lia.
      destruct (p_value f2 t rest) as [[v r]|] eqn:E; [|reflexivity].
      apply p_value_shrink in E. apply IHa; lia. }
    split; [|split].
    + intros t rest H1 H2. rewrite !p_value_S.
      destruct t as [c|s|n|b|]; try reflexivity.
      destruct (c =? 123)%Z.
      * rewrite (IHo rest []) by lia. reflexivity.
      * destruct (c =? 91)%Z; [|reflexivity].
        rewrite (IHa rest []) by lia. reflexivity.
    + intros toks acc H1 H2. rewrite !p_object_S.
      destruct toks as [|t rest]; [reflexivity|].
      destruct t as [c|k|n|b|]; try reflexivity.
      destruct rest as [|t rest']; [reflexivity|].
      simpl length in H1, H2.
      rewrite (IHv t rest') by lia.
      destruct (p_value f2 t rest') as [[v r]|] eqn:E; [|reflexivity].
      apply p_value_shrink in E. apply IHo; lia.
    + intros toks acc H1 H2. rewrite !p_array_S.
      destruct toks as [|t rest]; [reflexivity|].
      destruct t as [c|k|n|b|]; try (apply Harr; assumption).
      destruct (c =? 93)%Z; [reflexivity|].
      destruct (c =? 125)%Z; [reflexivity|].
      apply Harr; assumption.
Qed.

Corollary parse_tokens_fuel : forall rest k,
  p_object (2 * length rest + 2 + k) rest [] = p_object (2 * length rest + 2) rest [].
Proof.
  intros rest k.
  apply (proj1 (proj2 (p_fuel_stable (2 * length rest + 2 + k) (2 * length rest + 2)))); lia.
Qed.

(* The fuel used by parse_tokens gives the same answer as any larger fuel. *)
Corollary parse_tokens_fuel_ge : forall rest f acc,
  (2 * length rest + 2 <= f)%nat ->
  p_object f rest acc = p_object (2 * length rest + 2) rest acc.
Proof.
  intros rest f acc H.
  apply (proj1 (proj2 (p_fuel_stable f (2 * length rest + 2)))); lia.
Qed.

Print Assumptions p_fuel_stable.
Print Assumptions parse_tokens_fuel.
