(* C20 — a finished template can be shared by concurrent goroutines: at the granularity of
   operations, every schedule gives every goroutine the results it obtains alone, because no
   operation other than a builder call writes a template (frame property of C15). *)
From Coq Require Import ZArith List Bool Lia PeanoNat.
From JL.std Require Import GoBase GoFloat GoStrconv GoTime GoVal.
From JL.gen Require Import CastGen ConvGen.
From JL.model Require Import Row Template Heap.
From JL.proofs Require Import HeapProofs.
Import ListNotations.

(* what a goroutine may do with shared, finished templates *)
Inductive top :=
| TCreateEmpty (t : nat)                      (* t.CreateRowEmpty() *)
| TCreate (t : nat) (input : rv)              (* t.CreateRow(map | slice | JSON text | ...) *)
| TLine (ti to : nat) (line : str).           (* importer(ti).ReadOne() on a line, then exporter(to).Export(row) *)

Inductive tres :=
| TRRow (r : res crow)
| TRLine (r : res str)
| TRNone.

Section Conc.
  Context (O : oracles) (parse_top : str -> list (str * rv) * bool).
  Context (enc_string : str -> str) (jfloat : bool -> Z -> option str) (jother : Z -> option str).

  (* what the operation returns, computed from the templates as they are in world W *)
  Definition top_result (W : world) (o : top) : tres :=
    match o with
    | TCreateEmpty t => match view W t with Some tv => TRRow (clone_row O FUELH tv) | None => TRNone end
    | TCreate t input => match view W t with Some tv => TRRow (create_row O parse_top FUELH tv input) | None => TRNone end
    | TLine ti to line =>
        match view W ti, view W to with
        | Some tiv, Some tov => TRLine (pipeline O enc_string parse_top jfloat jother FUELH tiv tov line)
        | _, _ => TRNone
        end
    end.

  (* its effect on the store: rows are allocated for what it creates; nothing else *)
  Definition top_step (W : world) (o : top) : world :=
    match o with
    | TCreateEmpty t => hstep O parse_top W (HCreateEmpty t)
    | TCreate t input => hstep O parse_top W (HCreate t input)
    | TLine ti to line =>
        let W1 := hstep O parse_top W (HCreate ti (RS (VStr line))) in
        if Nat.eqb (length (rows W1)) (length (rows W)) then W1          (* the line was rejected: no row *)
        else hstep O parse_top W1 (HCreateFromRow to (length (rows W)))
    end.

  (* a schedule: which goroutine runs which operation next; the results each goroutine gets, in order *)
  Fixpoint run_schedule (W : world) (s : list (nat * top)) : list (nat * tres) :=
    match s with
    | [] => []
    | (g, o) :: rest => (g, top_result W o) :: run_schedule (top_step W o) rest
    end.

  Lemma top_step_frame W o x :
    owned W -> (x < length (rows W))%nat ->
    owned (top_step W o) /\ view (top_step W o) x = view W x /\ (length (rows W) <= length (rows (top_step W o)))%nat.
  Proof.
    intros Ho Hx. destruct o; cbn [top_step].
    - destruct (hstep_owned_frame O parse_top W (HCreateEmpty t) x Ho I Hx) as [H1 H2]; [discriminate|].
      split; [exact H1|]. split; [exact H2 | apply hstep_rows_grow].
    - destruct (hstep_owned_frame O parse_top W (HCreate t input) x Ho I Hx) as [H1 H2]; [discriminate|].
      split; [exact H1|]. split; [exact H2 | apply hstep_rows_grow].
    - destruct (hstep_owned_frame O parse_top W (HCreate ti (RS (VStr line))) x Ho I Hx) as [H1 H2]; [discriminate|].
      pose proof (hstep_rows_grow O parse_top W (HCreate ti (RS (VStr line)))) as Hg.
      destruct (Nat.eqb _ _); [split; [exact H1|]; split; [exact H2 | exact Hg]|].
      set (W1 := hstep O parse_top W (HCreate ti (RS (VStr line)))) in *.
      destruct (hstep_owned_frame O parse_top W1 (HCreateFromRow to (length (rows W))) x H1 I) as [H3 H4]; [lia | discriminate|].
      split; [exact H3|]. split; [now rewrite H4|].
      pose proof (hstep_rows_grow O parse_top W1 (HCreateFromRow to (length (rows W)))). lia.
  Qed.

  (* the templates of the initial world are the same in every world a schedule reaches *)
  Lemma run_schedule_results s : forall W W0,
    owned W -> (length (rows W0) <= length (rows W))%nat ->
    (forall x, (x < length (rows W0))%nat -> view W x = view W0 x) ->
    (forall g o, In (g, o) s ->
       match o with
       | TCreateEmpty t | TCreate t _ => (t < length (rows W0))%nat
       | TLine ti to _ => (ti < length (rows W0))%nat /\ (to < length (rows W0))%nat
       end) ->
    run_schedule W s = map (fun go => (fst go, top_result W0 (snd go))) s.
  Proof.
    induction s as [|[g o] rest IH]; intros W W0 Ho Hlen Hv Hin; [reflexivity|].
    cbn [run_schedule map fst snd]. assert (Hgo := Hin g o ltac:(now left)).
    assert (Hpos : (0 < length (rows W0))%nat) by (destruct o; try destruct Hgo; lia).
    f_equal.
    - f_equal. destruct o; cbn [top_result];
        [rewrite (Hv t Hgo) | rewrite (Hv t Hgo) | destruct Hgo as [H1 H2]; rewrite (Hv ti H1), (Hv to H2)]; reflexivity.
    - destruct (top_step_frame W o 0 Ho ltac:(lia)) as [H1 [_ H3]].
      apply IH.
      + exact H1.
      + lia.
      + intros x Hx. rewrite <- (Hv x Hx). apply (top_step_frame W o x Ho). lia.
      + intros g' o' H'. apply (Hin g' o'). now right.
  Qed.

  (* schedule independence: whatever the interleaving of the goroutines' operations, every operation
     returns what it returns on the initial world — in particular what its goroutine gets when it runs
     alone, which is the same schedule restricted to that goroutine *)
  Theorem schedule_independent W0 s :
    owned W0 ->
    (forall g o, In (g, o) s ->
       match o with
       | TCreateEmpty t | TCreate t _ => (t < length (rows W0))%nat
       | TLine ti to _ => (ti < length (rows W0))%nat /\ (to < length (rows W0))%nat
       end) ->
    run_schedule W0 s = map (fun go => (fst go, top_result W0 (snd go))) s.
  Proof. intros Ho Hin. apply run_schedule_results; auto. Qed.

  Corollary alone_or_interleaved W0 s g :
    owned W0 ->
    (forall g o, In (g, o) s ->
       match o with
       | TCreateEmpty t | TCreate t _ => (t < length (rows W0))%nat
       | TLine ti to _ => (ti < length (rows W0))%nat /\ (to < length (rows W0))%nat
       end) ->
    filter (fun r => Nat.eqb (fst r) g) (run_schedule W0 s)
    = run_schedule W0 (filter (fun go => Nat.eqb (fst go) g) s).
  Proof.
    intros Ho Hin. rewrite (schedule_independent W0 s Ho Hin).
    rewrite (schedule_independent W0 (filter _ s) Ho).
    - induction s as [|[g' o] rest IH]; [reflexivity|]. cbn [map filter fst snd].
      destruct (Nat.eqb g' g); cbn [map fst snd]; rewrite IH; auto; intros g2 o2 H2; apply (Hin g2 o2); now right.
    - intros g' o H. apply filter_In in H as [H _]. now apply (Hin g' o).
  Qed.

  (* the templates themselves are untouched by every schedule *)
  Theorem templates_untouched (s : list (nat * top)) : forall W0 x,
    owned W0 -> (x < length (rows W0))%nat ->
    view (fold_left top_step (map snd s) W0) x = view W0 x.
  Proof.
    induction s as [|[g o] rest IH]; intros W0 x Ho Hx; [reflexivity|]. cbn [map snd fold_left].
    destruct (top_step_frame W0 o x Ho Hx) as [H1 [H2 H3]]. rewrite IH; auto. lia.
  Qed.
End Conc.
