(* C17 at the template level: the importer / exporter pipeline never panics.

   RowSafe.v proves that no operation of the ROW model reaches the [Panic] outcome from rows that
   satisfy the deep invariant [wf_crow]. This file carries the same invariant through the
   TEMPLATE model (JL.model.Template / TemplateJson): the builders With / WithRow, CreateRowEmpty,
   CreateRow for every kind of input, importer.GetRow / ReadOne on one line, row.MarshalJSON /
   value.MarshalJSON / json.Marshal, exporter.Export and one line through importer -> exporter.

   The places where these models return [Panic] (they are the places where the Go code would):
     - marshal_row_members, create_from_row, cells_raw, clone_cells: a key of the key list that is
       missing from the map (method call on a nil Value)           -> excluded by [Inv] in [wf_crow]
     - exportToBinary: the b.([]byte) assertion on the result of cast.ToBinary
                                                -> only reached on a non-nil raw value (the nil test of
                                                   Export() comes first), where ToBinary returns []byte
     - importFromBinary: the str.(string) assertion                -> same, Import() tests nil first
     - a cast that panics (put_le / set_at / get_le on a buffer of the wrong size)
                                                                   -> CastTotal.*_good (property C10)
   None is assumed away: every theorem below has only [wf_crow] / [wf_rv] premises, and
   [wf_crow] is proved of every template the builders produce, from any names, formats and raw
   types, and of every row the importer returns, for any line (any list of integers).

   No hypothesis is needed on the oracles, on the string encoder, on the float / other-type
   encoders; the only thing asked of the text layer is that the values it hands the row are
   well formed ([parse_wf]), which is proved for GoJson's reader ([parse_top_rv_wf]).

   Second part: the [Fuel] outcome. The casts never return it (C10); the recursive functions
   of the row / template / writer models do, when the explicit fuel is smaller than the nesting
   of what they traverse. [rv_md] / [cell_md] / [crow_md] measure that nesting; with at least that
   much fuel no function of the pipeline returns [Fuel], and for the text layer of GoJson the
   measure of a parsed value is at most 4 * (its JSON nesting depth) + 1. *)
From Coq Require Import ZArith List Bool Lia ZifyBool ZifyNat.
From JL.std Require Import GoBase GoFloat GoStrconv GoTime GoVal GoBase64 GoJsonNum GoJson GoJsonMarshal.
From JL.gen Require Import CastGen ConvGen.
From JL.model Require Import Row RowRun Template TemplateJson TemplateRun.
From JL.proofs Require Import CastTotal RowProofs RowSafe TemplateOrder TemplateClass JsonParseC MarshalValid MarshalTyping.
Import ListNotations.
Open Scope Z_scope.

(* (lia would otherwise make every lemma of a section depend on all its variables) *)
Set Default Proof Using "Type".

(* the shape of every statement: the outcome is not Panic, and a returned value is well formed *)
Definition ok_wf {A} (wf : A -> Prop) (x : res A) : Prop := np x /\ forall a, x = Ok a -> wf a.

Lemma ok_wf_bind {A B} (P : A -> Prop) (Q : B -> Prop) (x : res A) (f : A -> res B) :
  ok_wf P x -> (forall a, P a -> ok_wf Q (f a)) -> ok_wf Q (bind x f).
Proof.
  intros [Hn Hw] Hf. destruct x as [a| | |]; cbn [bind].
  - apply Hf, Hw. reflexivity.
  - split; discriminate.
  - contradiction Hn; reflexivity.
  - split; discriminate.
Qed.

Lemma ok_wf_ok {A} (P : A -> Prop) a : P a -> ok_wf P (Ok a).
Proof. intros H. split; [discriminate|]. intros a' [= <-]. exact H. Qed.

Lemma ok_wf_err {A} (P : A -> Prop) e : ok_wf P (Err e).
Proof. split; discriminate. Qed.

Lemma ok_wf_fuel {A} (P : A -> Prop) : ok_wf P (@Fuel A).
Proof. split; discriminate. Qed.

Lemma ok_wf_np {A} (P : A -> Prop) x : ok_wf P x -> np x.
Proof. intros [H _]. exact H. Qed.

(* ================= part 1: no panic ================= *)

Section TemplateSafe.
  Context (O : oracles).
  Context (enc_string : str -> str).
  Context (parse_top : str -> list (str * rv) * bool).
  Context (jfloat : bool -> Z -> option str).
  Context (jother : Z -> option str).

  (* what is asked of the reader: the values of the members it hands the row are well formed *)
  Hypothesis parse_wf : forall text, wf_kvs (fst (parse_top text)).

  (* ---------- the builders (template.go: With, WithX, WithMappedX, WithRow) ---------- *)
  Lemma wf_new_template : wf_crow new_template.
  Proof. exact wf_new_row. Qed.

  Lemma wf_set_value k oc r : wf_crow r -> wf_ocell oc -> wf_crow (set_value k oc r).
  Proof. intros Hr Hc. rewrite set_value_store. apply wf_store; [exact Hr|]. destruct oc as [c|]; [exact Hc | exact I]. Qed.

  Lemma with_col_wf name f typ t : wf_crow t -> wf_crow (with_col name f typ t).
  Proof. intros Ht. unfold with_col. apply wf_set_value; [exact Ht | exact I]. Qed.

  Lemma create_row_empty_safe n t : wf_crow t -> ok_wf wf_crow (create_row_empty O n t).
  Proof. intros Ht. unfold create_row_empty. exact (clone_row_np O n t Ht). Qed.

  Lemma with_row_safe n name sub t : wf_crow sub -> wf_crow t -> ok_wf wf_crow (with_row O n name sub t).
  Proof.
    intros Hs Ht. unfold with_row. eapply ok_wf_bind; [apply create_row_empty_safe, Hs|].
    intros r Hr. apply ok_wf_ok. apply wf_set_value; [exact Ht | exact Hr].
  Qed.

  (* the builder of the harness and of cmd/jl: any column names, formats, raw types, any nesting *)
  Lemma build_template_safe n : forall cols t, wf_crow t -> ok_wf wf_crow (build_template O n cols t).
  Proof.
    induction n as [|n IH]; intros cols t Ht; cbn [build_template]; [apply ok_wf_fuel|].
    destruct cols as [|[name f typ|name sub] rest]; [apply ok_wf_ok, Ht| |].
    - apply IH. apply with_col_wf, Ht.
    - eapply ok_wf_bind; [apply IH, wf_new_template|]. intros st Hst.
      eapply ok_wf_bind; [apply with_row_safe; [exact Hst | exact Ht]|]. intros t' Ht'. apply IH, Ht'.
  Qed.

  (* ---------- CreateRow (template.go:196) ---------- *)
  Lemma fill_cell_safe target val : wf_rv val -> ok_wf wf_cell (fill_cell O target val).
  Proof.
    intros Hv. unfold fill_cell. destruct target as [c|]; [|apply ok_wf_ok, Hv].
    pose proof (np_cast_to O (cell_rawtype c) val) as Hn.
    destruct (cast_to O (cell_rawtype c) val) as [x| | |].
    - split; [apply np_new_value|]. intros c' Hc'. eapply wf_new_value; eauto.
    - apply ok_wf_err.
    - contradiction Hn; reflexivity.
    - apply ok_wf_fuel.
  Qed.

  Lemma create_from_arr_safe vals : forall i r, wf_rvs vals -> wf_crow r -> ok_wf wf_crow (create_from_arr O i vals r).
  Proof.
    induction vals as [|x rest IH]; intros i r Hvals Hr; cbn [create_from_arr]; [apply ok_wf_ok, Hr|].
    inversion Hvals as [|? ? Hx Hrest]; subst.
    eapply ok_wf_bind; [apply fill_cell_safe, Hx|]. intros c Hc.
    apply IH; [exact Hrest|]. unfold set_value_at_index. apply wf_set_value; [exact Hr | exact Hc].
  Qed.

  Lemma create_from_map_safe kvs : forall r, wf_kvs kvs -> wf_crow r -> ok_wf wf_crow (create_from_map O kvs r).
  Proof.
    induction kvs as [|[k x] rest IH]; intros r Hkvs Hr; cbn [create_from_map]; [apply ok_wf_ok, Hr|].
    inversion Hkvs as [|? ? Hx Hrest]; subst. cbn [snd] in Hx.
    eapply ok_wf_bind; [apply fill_cell_safe, Hx|]. intros c Hc.
    apply IH; [exact Hrest|]. apply wf_set_value; [exact Hr | exact Hc].
  Qed.

  (* the row given as input: its listed keys are all in its map (no nil Value is dereferenced) *)
  Lemma create_from_row_safe n m2 l2 : wf_cells m2 -> (forall k, In k l2 -> ahas k m2 = true) ->
    forall r, wf_crow r -> ok_wf wf_crow (create_from_row O n m2 l2 r).
  Proof.
    intros Hm. induction l2 as [|k l2 IH]; intros Hl r Hr; cbn [create_from_row]; [apply ok_wf_ok, Hr|].
    assert (Hk : ahas k m2 = true) by (apply Hl; now left). unfold ahas in Hk.
    destruct (alookup k m2) as [c2|] eqn:E; [|discriminate].
    eapply ok_wf_bind; [exact (cell_raw_np n c2 (wf_cells_lookup _ _ _ Hm E))|]. intros raw Hraw.
    eapply ok_wf_bind; [apply fill_cell_safe, Hraw|]. intros c Hc.
    apply IH; [intros k0 H0; apply Hl; now right|]. apply wf_set_value; [exact Hr | exact Hc].
  Qed.

  (* UnmarshalJSON of any text *)
  Lemma unmarshal_text_safe n text r : wf_crow r -> safe_pair wf_crow (unmarshal_text O parse_top n text r).
  Proof using parse_wf.
    intros Hr. unfold unmarshal_text. pose proof (parse_wf text) as Hms.
    destruct (parse_top text) as [ms ok]. cbn [fst] in Hms. apply row_unmarshal_np; [exact Hr | exact Hms].
  Qed.

  Lemma unmarshal_into_safe n text r : wf_crow r ->
    ok_wf wf_crow (let '(r', e) := unmarshal_text O parse_top n text r in bind e (fun _ => Ok r')).
  Proof using parse_wf.
    intros Hr. destruct (unmarshal_text_safe n text r Hr) as [Hn Hw].
    destruct (unmarshal_text O parse_top n text r) as [r' e]. cbn [fst snd] in Hn, Hw.
    destruct e as [u| | |]; cbn [bind].
    - apply ok_wf_ok, Hw.
    - apply ok_wf_err.
    - contradiction Hn; reflexivity.
    - apply ok_wf_fuel.
  Qed.

  (* CreateRow(v): a slice, a map, a Row, a JSON text (string or []byte), anything else *)
  Theorem create_row_safe n t v : wf_crow t -> wf_rv v -> ok_wf wf_crow (create_row O parse_top n t v).
  Proof using parse_wf.
    intros Ht Hv. unfold create_row. eapply ok_wf_bind; [exact (clone_row_np O n t Ht)|]. intros result Hres.
    destruct v as [g|vals|kvs|c].
    - destruct g; try apply ok_wf_err; apply unmarshal_into_safe, Hres.
    - apply create_from_arr_safe; [apply wf_arr_eq, Hv | exact Hres].
    - apply create_from_map_safe; [apply wf_map_eq, Hv | exact Hres].
    - destruct c as [raw f typ|[m2 l2]]; [apply ok_wf_err|].
      cbn [wf_rv wf_cell] in Hv. destruct (wf_crow_keys _ _ Hv) as [Hm Hl].
      apply create_from_row_safe; auto.
  Qed.

  (* importer.GetRow / ReadOne on one line: ANY line *)
  Theorem get_row_safe n ti line : wf_crow ti -> ok_wf wf_crow (get_row O parse_top n ti line).
  Proof using parse_wf.
    intros Ht. unfold get_row. eapply ok_wf_bind; [apply create_row_empty_safe, Ht|].
    intros r Hr. apply unmarshal_into_safe, Hr.
  Qed.

  (* ---------- the writers: json.Marshal, value.MarshalJSON, row.MarshalJSON ---------- *)
  Lemma np_opt_res o : np (opt_res o).
  Proof. destruct o; discriminate. Qed.

  Lemma marshal_gval_np g : np (marshal_gval enc_string jfloat jother g).
  Proof. destruct g; cbn [marshal_gval]; try apply np_opt_res; try discriminate. destruct (bnil b); discriminate. Qed.

  Lemma marshal_list_np (rec : rv -> res str) l : Forall (fun x => np (rec x)) l -> np (marshal_list rec l).
  Proof.
    induction 1 as [|x l Hx _ IH]; cbn [marshal_list]; [discriminate|].
    apply np_bind; [exact Hx|]. intros s _. apply np_bind; [exact IH|]. intros; discriminate.
  Qed.

  Lemma marshal_members_np (rec : rv -> res str) m : Forall (fun kv => np (rec (snd kv))) m -> np (marshal_members enc_string rec m).
  Proof.
    induction 1 as [|[k x] m Hx _ IH]; cbn [marshal_members]; [discriminate|]. cbn [snd] in Hx.
    apply np_bind; [exact Hx|]. intros s _. apply np_bind; [exact IH|]. intros; discriminate.
  Qed.

  (* the loop of row.MarshalJSON: r.m[key] is never a nil Value *)
  Lemma marshal_row_members_np (rec : cell -> res str) m l :
    (forall k c, alookup k m = Some c -> np (rec c)) -> (forall k, In k l -> ahas k m = true) ->
    np (marshal_row_members enc_string rec m l).
  Proof.
    intros Hrec. induction l as [|k l IH]; intros Hl; cbn [marshal_row_members]; [discriminate|].
    assert (Hk : ahas k m = true) by (apply Hl; now left). unfold ahas in Hk.
    destruct (alookup k m) as [c|] eqn:E; [|discriminate].
    assert (IH' : np (marshal_row_members enc_string rec m l)) by (apply IH; intros k0 H0; apply Hl; now right).
    destruct (format_eqb (cell_format c) FHidden); [exact IH'|].
    apply np_bind; [eapply Hrec; eauto|]. intros s _. apply np_bind; [exact IH'|]. intros; discriminate.
  Qed.

  Theorem marshal_np n :
    (forall v, wf_rv v -> np (marshal_rv O enc_string jfloat jother n v))
    /\ (forall c, wf_cell c -> np (marshal_cell O enc_string jfloat jother n c))
    /\ (forall r, wf_crow r -> np (marshal_row O enc_string jfloat jother n r)).
  Proof.
    induction n as [|n [IHv [IHc IHr]]]; [repeat split; intros; discriminate|].
    assert (Hrow : forall r, wf_crow r -> np (marshal_row O enc_string jfloat jother (S n) r)).
    { intros [m l] Hr. rewrite marshal_row_S. destruct (wf_crow_keys _ _ Hr) as [Hm Hl].
      apply np_bind; [|intros; discriminate]. apply marshal_row_members_np; [|exact Hl].
      intros k c Hk. apply IHc. eapply wf_cells_lookup; eauto. }
    assert (Hcell : forall c, wf_cell c -> np (marshal_cell O enc_string jfloat jother (S n) c)).
    { intros [raw f typ|r] Hc.
      - rewrite marshal_cell_S. destruct (rv_is_nil raw) eqn:En; [discriminate|].
        (* Export() on a non-nil raw value: the assertion of exportToBinary holds *)
        apply np_bind; [apply np_export_scalar, to_gval_nonnil, En|]. intros e He.
        apply IHv. eapply wf_export_scalar; eauto.
      - exact (IHr r Hc). }
    split; [|split; [exact Hcell | exact Hrow]].
    intros v Hv. destruct v as [g|l|m|c].
    - apply marshal_gval_np.
    - change (np (bind (marshal_list (marshal_rv O enc_string jfloat jother n) l) (fun ss => Ok ([91] ++ join_with [44] ss ++ [93])))).
      apply np_bind; [|intros; discriminate]. apply marshal_list_np. apply wf_arr_eq in Hv.
      eapply Forall_impl; [|exact Hv]. intros x Hx. apply IHv, Hx.
    - change (np (bind (marshal_members enc_string (marshal_rv O enc_string jfloat jother n) (sort_by_key m))
                       (fun ss => Ok ([123] ++ join_with [44] ss ++ [125])))).
      apply np_bind; [|intros; discriminate]. apply marshal_members_np. apply wf_map_eq in Hv.
      apply Forall_sort_by_key. eapply Forall_impl; [|exact Hv]. intros kv Hx. apply IHv, Hx.
    - exact (IHc c Hv).
  Qed.

  Theorem marshal_rv_np n v : wf_rv v -> np (marshal_rv O enc_string jfloat jother n v).
  Proof. apply (proj1 (marshal_np n)). Qed.
  Theorem marshal_cell_np n c : wf_cell c -> np (marshal_cell O enc_string jfloat jother n c).
  Proof. apply (proj1 (proj2 (marshal_np n))). Qed.
  Theorem marshal_row_np n r : wf_crow r -> np (marshal_row O enc_string jfloat jother n r).
  Proof. apply (proj2 (proj2 (marshal_np n))). Qed.

  (* ---------- exporter.Export, and one line through importer -> exporter ---------- *)
  Theorem export_bytes_np n to input : wf_crow to -> wf_rv input ->
    np (export_bytes O enc_string parse_top jfloat jother n to input).
  Proof using parse_wf.
    intros Hto Hin. unfold export_bytes. destruct (create_row_safe n to input Hto Hin) as [Hn Hw].
    apply np_bind; [exact Hn|]. intros row Hrow. apply np_bind; [apply marshal_row_np, Hw, Hrow|]. intros; discriminate.
  Qed.

  Theorem pipeline_np n ti to line : wf_crow ti -> wf_crow to ->
    np (pipeline O enc_string parse_top jfloat jother n ti to line).
  Proof using parse_wf.
    intros Hti Hto. unfold pipeline. destruct (get_row_safe n ti line Hti) as [Hn Hw].
    apply np_bind; [exact Hn|]. intros row Hrow. apply export_bytes_np; [exact Hto|]. exact (Hw row Hrow).
  Qed.
End TemplateSafe.

(* ---------- the reader of GoJson hands the row well-formed values, whatever the text ---------- *)
Lemma wf_obj_row_from ms : forall r, wf_kvs ms -> wf_crow r ->
  wf_crow (fold_left (fun r kv => set_cell (fst kv) (CVal (snd kv) FAuto VNil) (push_if_absent (fst kv) r)) ms r).
Proof.
  induction ms as [|[k v] ms IH]; intros r Hms Hr; cbn [fold_left]; [exact Hr|].
  inversion Hms as [|? ? Hv Hrest]; subst. cbn [fst snd] in *. apply IH; [exact Hrest|].
  change (set_cell k (CVal v FAuto VNil) (push_if_absent k r)) with (store k (CVal v FAuto VNil) r).
  apply wf_store; [exact Hr | exact Hv].
Qed.

Lemma wf_obj_row ms : wf_kvs ms -> wf_crow (obj_row ms).
Proof. intros H. apply wf_obj_row_from; [exact H | apply wf_new_row]. Qed.

Lemma wf_rv_of_jv v : wf_rv (rv_of_jv v).
Proof.
  induction v as [|b|l|s|l IH|m IH] using jv_ind2; cbn [rv_of_jv]; try exact I.
  - apply wf_arr_eq. unfold wf_rvs. rewrite Forall_forall in *. intros x Hx.
    apply in_map_iff in Hx as (y & <- & Hy). apply IH, Hy.
  - change (wf_crow (obj_row (map (fun kv => (fst kv, rv_of_jv (snd kv))) m))). apply wf_obj_row.
    unfold wf_kvs. rewrite Forall_forall in *. intros x Hx.
    apply in_map_iff in Hx as (y & <- & Hy). cbn [snd]. apply IH, Hy.
Qed.

Theorem parse_top_rv_wf text : wf_kvs (fst (parse_top_rv text)).
Proof.
  unfold parse_top_rv. destruct (parse_top text) as [ms ok]. cbn [fst]. unfold wf_kvs.
  rewrite Forall_forall. intros x Hx. apply in_map_iff in Hx as (y & <- & Hy). cbn [snd]. apply wf_rv_of_jv.
Qed.

(* ---------- the instances with the text layer plugged in (what cmd/jl and the harness run) ---------- *)
Section JlSafe.
  Context (O : oracles) (jfloat : bool -> Z -> option str) (jother : Z -> option str).

  Theorem jl_get_row_safe n ti line : wf_crow ti -> ok_wf wf_crow (jl_get_row O n ti line).
  Proof. apply get_row_safe, parse_top_rv_wf. Qed.

  Theorem jl_create_row_safe n t v : wf_crow t -> wf_rv v -> ok_wf wf_crow (jl_create_row O n t v).
  Proof. apply create_row_safe, parse_top_rv_wf. Qed.

  Theorem jl_marshal_row_np n r : wf_crow r -> np (jl_marshal_row O jfloat jother n r).
  Proof. apply marshal_row_np. Qed.

  Theorem jl_export_bytes_np n to input : wf_crow to -> wf_rv input -> np (jl_export_bytes O jfloat jother n to input).
  Proof. apply export_bytes_np, parse_top_rv_wf. Qed.

  Theorem jl_pipeline_np n ti to line : wf_crow ti -> wf_crow to -> np (jl_pipeline O jfloat jother n ti to line).
  Proof. apply pipeline_np, parse_top_rv_wf. Qed.

  (* closed form: templates built by the builders from ANY descriptors, any line, any fuels *)
  Theorem built_pipeline_np fi fo ci co ti to n line :
    build_template O fi ci new_template = Ok ti -> build_template O fo co new_template = Ok to ->
    np (jl_pipeline O jfloat jother n ti to line).
  Proof.
    intros Hi Ho. apply jl_pipeline_np.
    - exact (proj2 (build_template_safe O fi ci new_template wf_new_row) ti Hi).
    - exact (proj2 (build_template_safe O fo co new_template wf_new_row) to Ho).
  Qed.
End JlSafe.

(* ================= part 2: with enough fuel, no Fuel outcome either ================= *)

Definition nfuel {A} (r : res A) : Prop := r <> Fuel.
Definition okf {A} (P : A -> Prop) (x : res A) : Prop := nfuel x /\ forall a, x = Ok a -> P a.

Lemma nfuel_bind {A B} (x : res A) (f : A -> res B) : nfuel x -> (forall a, x = Ok a -> nfuel (f a)) -> nfuel (bind x f).
Proof. unfold nfuel. destruct x; cbn; auto; congruence. Qed.

Lemma okf_bind {A B} (P : A -> Prop) (Q : B -> Prop) (x : res A) (f : A -> res B) :
  okf P x -> (forall a, P a -> okf Q (f a)) -> okf Q (bind x f).
Proof.
  intros [Hn Hw] Hf. destruct x as [a| | |]; cbn [bind].
  - apply Hf, Hw. reflexivity.
  - split; discriminate.
  - split; discriminate.
  - contradiction Hn; reflexivity.
Qed.

Lemma okf_ok {A} (P : A -> Prop) a : P a -> okf P (Ok a).
Proof. intros H. split; [discriminate|]. intros a' [= <-]. exact H. Qed.
Lemma okf_err {A} (P : A -> Prop) e : okf P (Err e).
Proof. split; discriminate. Qed.
Lemma okf_panic {A} (P : A -> Prop) : okf P (@Panic A).
Proof. split; discriminate. Qed.
Lemma okf_weaken {A} (P Q : A -> Prop) x : (forall a, P a -> Q a) -> okf P x -> okf Q x.
Proof. intros H [Hn Hw]. split; [exact Hn|]. intros a Ha. apply H, Hw, Ha. Qed.

(* ---------- the measure: how much fuel the deepest traversal (the writer) needs ---------- *)
Fixpoint rv_md (v : rv) : nat :=
  match v with
  | RS _ => 1
  | RArr l => S (fold_right (fun x a => Nat.max (rv_md x) a) 0%nat l)
  | RMap m => S (fold_right (fun kv a => Nat.max (rv_md (snd kv)) a) 0%nat m)
  | RV c => S (cell_md c)
  end
with cell_md (c : cell) : nat :=
  match c with
  | CVal raw _ _ => S (rv_md raw)
  | CRow r => S (crow_md r)
  end
with crow_md (r : crow) : nat :=
  match r with
  | MkRow m _ => S (fold_right (fun kc a => Nat.max (cell_md (snd kc)) a) 0%nat m)
  end.

Lemma fold_max_le {A} (f : A -> nat) l b :
  (fold_right (fun x a => Nat.max (f x) a) 0%nat l <= b)%nat <-> Forall (fun x => (f x <= b)%nat) l.
Proof.
  induction l as [|x l IH]; cbn [fold_right]; [split; intros; [constructor | lia]|].
  rewrite Forall_cons_iff, <- IH. lia.
Qed.

Definition rvs_le (b : nat) (l : list rv) : Prop := Forall (fun x => (rv_md x <= b)%nat) l.
Definition kvs_le (b : nat) (m : list (str * rv)) : Prop := Forall (fun kv => (rv_md (snd kv) <= b)%nat) m.
Definition cells_le (b : nat) (m : list (str * cell)) : Prop := Forall (fun kc => (cell_md (snd kc) <= b)%nat) m.
Definition row_le (b : nat) (r : crow) : Prop := cells_le b (row_m r).

Lemma rv_md_arr l b : (rv_md (RArr l) <= S b)%nat <-> rvs_le b l.
Proof. cbn [rv_md]. unfold rvs_le. rewrite <- fold_max_le. lia. Qed.
Lemma rv_md_map m b : (rv_md (RMap m) <= S b)%nat <-> kvs_le b m.
Proof. cbn [rv_md]. unfold kvs_le. rewrite <- (fold_max_le (fun kv => rv_md (snd kv))). lia. Qed.
Lemma crow_md_le r b : (crow_md r <= S b)%nat <-> row_le b r.
Proof. destruct r as [m l]. cbn [crow_md row_m]. unfold row_le, cells_le. cbn [row_m]. rewrite <- (fold_max_le (fun kc => cell_md (snd kc))). lia. Qed.

Lemma rv_md_pos v : (1 <= rv_md v)%nat.
Proof. destruct v; cbn [rv_md]; lia. Qed.
Lemma cell_md_pos c : (2 <= cell_md c)%nat.
Proof. destruct c as [raw f t|[m l]]; cbn [cell_md crow_md]; [pose proof (rv_md_pos raw)|]; lia. Qed.
Lemma crow_md_pos r : (1 <= crow_md r)%nat.
Proof. destruct r; cbn [crow_md]; lia. Qed.

Lemma cells_le_lookup b m k c : cells_le b m -> alookup k m = Some c -> (cell_md c <= b)%nat.
Proof.
  unfold cells_le. induction m as [|[k' c'] m IH]; cbn [alookup]; [discriminate|].
  intros H. inversion H as [|? ? Hc Hm]; subst. cbn [snd] in Hc.
  destruct (str_eqb k k'); [intros [= <-]; exact Hc | apply IH, Hm].
Qed.

Lemma cells_le_aset b m k c : cells_le b m -> (cell_md c <= b)%nat -> cells_le b (aset k c m).
Proof.
  unfold cells_le. induction m as [|[k' c'] m IH]; cbn [aset]; intros H Hc; [repeat constructor; exact Hc|].
  inversion H as [|? ? Hc' Hm]; subst. destruct (str_eqb k k'); constructor; auto.
Qed.

Lemma kvs_le_aset b (m : list (str * rv)) k v : kvs_le b m -> (rv_md v <= b)%nat -> kvs_le b (aset k v m).
Proof.
  unfold kvs_le. induction m as [|[k' c'] m IH]; cbn [aset]; intros H Hc; [repeat constructor; exact Hc|].
  inversion H as [|? ? Hc' Hm]; subst. destruct (str_eqb k k'); constructor; auto.
Qed.

Lemma row_le_store b k c r : row_le b r -> (cell_md c <= b)%nat -> row_le b (store k c r).
Proof. unfold row_le. rewrite store_m. apply cells_le_aset. Qed.

Lemma row_le_set_value b k oc r :
  row_le b r -> match oc with Some c => (cell_md c <= b)%nat | None => (2 <= b)%nat end -> row_le b (set_value k oc r).
Proof. intros Hr Hc. rewrite set_value_store. apply row_le_store; [exact Hr|]. destruct oc; [exact Hc | exact Hc]. Qed.

Lemma row_le_get b r k c : row_le b r -> get_value k r = Some c -> (cell_md c <= b)%nat.
Proof. unfold row_le, get_value. apply cells_le_lookup. Qed.

Lemma row_le_new b : row_le b new_row.
Proof. constructor. Qed.

Lemma row_le_mono b b' r : (b <= b')%nat -> row_le b r -> row_le b' r.
Proof. intros Hb. unfold row_le, cells_le. apply Forall_impl. intros a Ha. lia. Qed.

(* ---------- Raw() ---------- *)
  Lemma cells_raw_md (rec : cell -> res rv) m l b :
    (forall c v, rec c = Ok v -> (S (rv_md v) <= cell_md c)%nat) -> cells_le b m ->
    forall t, cells_raw rec m l = Ok t -> kvs_le b t.
  Proof.
    intros Hrec Hm. induction l as [|k l IH]; cbn [cells_raw]; intros t; [intros [= <-]; constructor|].
    destruct (alookup k m) as [c|] eqn:E; [|discriminate].
    destruct (rec c) as [v| | |] eqn:Ev; cbn [bind]; try discriminate.
    destruct (cells_raw rec m l) as [t0| | |]; cbn [bind]; try discriminate.
    intros [= <-]. apply kvs_le_aset; [apply IH; reflexivity|].
    pose proof (Hrec c v Ev). pose proof (cells_le_lookup b m k c Hm E). lia.
  Qed.

  Lemma cell_raw_md n : forall c v, cell_raw n c = Ok v -> (S (rv_md v) <= cell_md c)%nat.
  Proof.
    induction n as [|n IH]; intros c v; cbn [cell_raw]; [discriminate|].
    destruct c as [raw f t|[m l]]; [intros [= <-]; cbn [cell_md]; lia|].
    destruct (cells_raw (cell_raw n) m l) as [t| | |] eqn:E; cbn [bind]; try discriminate. intros [= <-].
    set (b := fold_right (fun kc a => Nat.max (cell_md (snd kc)) a) 0%nat m).
    assert (Hm : cells_le b m) by (apply (fold_max_le (fun kc => cell_md (snd kc))); subst b; lia).
    pose proof (cells_raw_md (cell_raw n) m l b IH Hm t E) as Ht. apply rv_md_map in Ht.
    change (cell_md (CRow (MkRow m l))) with (S (S b)). lia.
  Qed.

  Lemma cells_raw_nfuel (rec : cell -> res rv) m l :
    (forall k c, alookup k m = Some c -> nfuel (rec c)) -> nfuel (cells_raw rec m l).
  Proof.
    intros Hrec. induction l as [|k l IH]; cbn [cells_raw]; [discriminate|].
    destruct (alookup k m) as [c|] eqn:E; [|discriminate].
    apply nfuel_bind; [eapply Hrec; eauto|]. intros v _. apply nfuel_bind; [exact IH|]. intros; discriminate.
  Qed.

  Lemma cell_raw_nfuel n : forall c, (cell_md c <= n)%nat -> nfuel (cell_raw n c).
  Proof.
    induction n as [|n IH]; intros c Hc; [pose proof (cell_md_pos c); lia|]. cbn [cell_raw].
    destruct c as [raw f t|[m l]]; [discriminate|].
    apply nfuel_bind; [|intros; discriminate]. apply cells_raw_nfuel. intros k c Hk. apply IH.
    assert (Hm : cells_le (n - 1) m).
    { apply (fold_max_le (fun kc => cell_md (snd kc))). cbn [cell_md crow_md] in Hc. lia. }
    pose proof (cells_le_lookup _ _ _ _ Hm Hk). lia.
  Qed.


  Definition members_fit (b : nat) (ms : list (str * rv)) : Prop := Forall (fun kv => (S (rv_md (snd kv)) <= b)%nat) ms.


Section Fuel.
  Context (O : oracles).

  (* ---------- the casts and conversions never run out of fuel (C10) ---------- *)
  Lemma nfuel_good w v r : good w v r -> nfuel r.
  Proof. unfold good, nfuel. destruct r; intros H; try discriminate; contradiction. Qed.

  Lemma nfuel_To t v : nfuel (To O t v). Proof. eapply nfuel_good, To_good. Qed.
  Lemma nfuel_ToString v : nfuel (ToString O v). Proof. eapply nfuel_good, ToString_good. Qed.
  Lemma nfuel_ToNumber v : nfuel (ToNumber O v). Proof. eapply nfuel_good, ToNumber_good. Qed.
  Lemma nfuel_ToBool v : nfuel (ToBool O v). Proof. eapply nfuel_good, ToBool_good. Qed.
  Lemma nfuel_ToBinary v : nfuel (ToBinary O v). Proof. eapply nfuel_good, ToBinary_good. Qed.
  Lemma nfuel_ToDate v : nfuel (ToDate O v). Proof. eapply nfuel_good, ToDate_good. Qed.
  Lemma nfuel_ToTime v : nfuel (ToTime O v). Proof. eapply nfuel_good, ToTime_good. Qed.
  Lemma nfuel_ToTimestamp v : nfuel (ToTimestamp O v). Proof. eapply nfuel_good, ToTimestamp_good. Qed.
  Lemma nfuel_ToInt64 v : nfuel (ToInt64 O v). Proof. eapply nfuel_good, ToInt64_good. Qed.

  Ltac killf F := let E := fresh "E" in destruct F eqn:E; try discriminate;
                  try (exfalso; first [ eapply nfuel_To; eassumption | eapply nfuel_ToString; eassumption
                                      | eapply nfuel_ToNumber; eassumption | eapply nfuel_ToBool; eassumption
                                      | eapply nfuel_ToBinary; eassumption | eapply nfuel_ToDate; eassumption
                                      | eapply nfuel_ToTime; eassumption | eapply nfuel_ToTimestamp; eassumption
                                      | eapply nfuel_ToInt64; eassumption ]).
  Ltac killf_all :=
    repeat match goal with
           | |- context [match ?F with Ok _ => _ | Err _ => _ | Panic => _ | Fuel => _ end] => killf F
           | |- context [match ?F with Some _ => _ | None => _ end] => destruct F
           end; try discriminate.

  Lemma nfuel_lift r : nfuel r -> nfuel (lift r).
  Proof. unfold nfuel. destruct r; cbn; congruence. Qed.

  Lemma nfuel_cast_to t v : nfuel (cast_to O t v).
  Proof. unfold cast_to, nfuel. killf (To O t (to_gval v)). destruct v; try discriminate; destruct a; discriminate. Qed.

  Lemma nfuel_export_scalar f raw : nfuel (export_scalar O f raw).
  Proof.
    destruct f; cbn [export_scalar]; try discriminate; apply nfuel_lift; unfold nfuel;
      [ unfold exportToString, exportToString_5, exportToString_body
      | unfold exportToNumber, exportToNumber_5, exportToNumber_body
      | unfold exportToBool, exportToBool_5, exportToBool_body
      | unfold exportToBinary, exportToBinary_5, exportToBinary_body
      | unfold exportToDate, exportToDate_5, exportToDate_body
      | unfold exportToDateTime, exportToDateTime_5, exportToDateTime_body
      | unfold exportToTimestamp, exportToTimestamp_5, exportToTimestamp_body ]; killf_all.
  Qed.

  Lemma nfuel_import_scalar f t v : nfuel (import_scalar O f t v).
  Proof.
    destruct f; cbn [import_scalar]; try discriminate; try apply nfuel_cast_to;
      apply nfuel_lift; unfold nfuel, importFromString, importFromNumeric, importFromBoolean, importFromBinary,
        importFromDate, importFromDateTime, importFromTimestamp; destruct t; killf_all.
  Qed.

  Lemma nfuel_new_value v f t : nfuel (new_value O v f t).
  Proof. unfold new_value. pose proof (nfuel_cast_to t v) as H. destruct (cast_to O t v); try discriminate. contradiction H; reflexivity. Qed.

  (* ... and they never deepen a value: a cast returns its argument or a scalar *)
  Lemma cast_to_md t v r : cast_to O t v = Ok r -> (rv_md r <= rv_md v)%nat.
  Proof.
    unfold cast_to. pose proof (rv_md_pos v) as Hp. destruct (To O t (to_gval v)) as [g| | |]; try discriminate.
    destruct v; try (intros [= <-]; cbn [rv_md]; lia); destruct g; intros [= <-]; cbn [rv_md] in Hp |- *; lia.
  Qed.

  Lemma lift_md x r : lift x = Ok r -> rv_md r = 1%nat.
  Proof. destruct x; cbn [lift]; try discriminate. intros [= <-]. reflexivity. Qed.

  Lemma export_scalar_md f raw e : export_scalar O f raw = Ok e -> (rv_md e <= rv_md raw)%nat.
  Proof.
    pose proof (rv_md_pos raw) as Hp.
    destruct f; cbn [export_scalar]; try discriminate; try (intros [= <-]; lia); intros H; apply lift_md in H; lia.
  Qed.

  Lemma import_scalar_md f t v r : import_scalar O f t v = Ok r -> (rv_md r <= rv_md v)%nat.
  Proof.
    pose proof (rv_md_pos v) as Hp.
    destruct f; cbn [import_scalar]; try discriminate; try apply cast_to_md; intros H; apply lift_md in H; lia.
  Qed.

  Lemma new_value_md v f t c : new_value O v f t = Ok c -> (cell_md c <= S (rv_md v))%nat.
  Proof.
    unfold new_value. destruct (cast_to O t v) as [r| | |] eqn:E; try discriminate; intros [= <-]; cbn [cell_md]; [|lia].
    apply cast_to_md in E. lia.
  Qed.

  Lemma clone_value_fuel n c b : (cell_md c <= b)%nat -> (b <= n)%nat ->
    okf (fun c' => (cell_md c' <= b)%nat /\ exists raw f t, c' = CVal raw f t) (clone_value O n c).
  Proof.
    intros Hc Hb. unfold clone_value. eapply okf_bind.
    - split; [apply cell_raw_nfuel; lia|]. intros v Hv. exact (cell_raw_md n c v Hv).
    - intros raw Hraw. cbv beta in Hraw. split; [apply nfuel_new_value|]. intros c' Hc'.
      pose proof (new_value_md _ _ _ _ Hc'). split; [lia|]. apply new_value_cval in Hc' as [r ->]. eauto.
  Qed.

  Definition flat_le (b : nat) (r : crow) : Prop := cvals r /\ row_le b r.

  Lemma clone_cells_fuel n m l b : cells_le b m -> (b <= n)%nat ->
    forall acc, flat_le b acc -> okf (flat_le b) (clone_cells O n m l acc).
  Proof.
    intros Hm Hb. induction l as [|k l IH]; intros acc Hacc; cbn [clone_cells]; [apply okf_ok, Hacc|].
    destruct (alookup k m) as [c|] eqn:E; [|apply okf_panic].
    eapply okf_bind; [apply (clone_value_fuel n c b); [eapply cells_le_lookup; eauto | exact Hb]|].
    intros c' [Hc' [raw [f [t ->]]]]. apply IH. destruct Hacc as [Ha1 Ha2]. split.
    - rewrite set_value_store. apply cvals_store, Ha1.
    - apply row_le_set_value; [exact Ha2 | exact Hc'].
  Qed.

  Lemma cvals_new : cvals new_row.
  Proof. intros k c H. discriminate H. Qed.

  (* CloneRow / CreateRowEmpty: the result only holds plain values (nested rows are flattened) *)
  Lemma clone_row_fuel n r b : row_le b r -> (b <= n)%nat -> okf (flat_le b) (clone_row O n r).
  Proof.
    intros Hr Hb. unfold clone_row. apply clone_cells_fuel; [exact Hr | exact Hb|].
    split; [apply cvals_new | apply row_le_new].
  Qed.

  (* ---------- UnmarshalJSON into a row of plain values ---------- *)
  Lemma value_import_fuel n raw f typ v b :
    (S (rv_md raw) <= b)%nat -> (S (rv_md v) <= b)%nat ->
    let x := value_import O n raw f typ v in
    nfuel (snd x) /\ (cell_md (fst x) <= b)%nat /\ exists raw' f' t', fst x = CVal raw' f' t'.
  Proof.
    intros Hraw Hv. pose proof (rv_md_pos raw) as Hp. unfold value_import.
    destruct (rv_is_nil v); [cbn; repeat split; [discriminate | lia | eauto]|].
    assert (Hs : let x := match import_scalar O f typ v with
                          | Ok r => (CVal r f typ, Ok tt)
                          | Err e => (CVal (match f with FBad => raw | _ => rnil end) f typ, Err e)
                          | Panic => (CVal raw f typ, Panic)
                          | Fuel => (CVal raw f typ, Fuel)
                          end in
                 nfuel (snd x) /\ (cell_md (fst x) <= b)%nat /\ exists raw' f' t', fst x = CVal raw' f' t').
    { pose proof (nfuel_import_scalar f typ v) as Hn.
      destruct (import_scalar O f typ v) as [r| | |] eqn:E; cbn [fst snd cell_md].
      - apply import_scalar_md in E. repeat split; [discriminate | lia | eauto].
      - repeat split; [discriminate | destruct f; cbn [rnil rv_md]; lia | eauto].
      - repeat split; [discriminate | lia | eauto].
      - contradiction Hn; reflexivity. }
    destruct v as [g|l|m|c]; try exact Hs. destruct c as [raw' f' typ'|sub]; [|exact Hs].
    cbn [fst snd cell_md rv_md] in Hv |- *. repeat split; [discriminate | lia | eauto].
  Qed.

  Lemma unmarshal_members_fuel n ms b : (1 <= n)%nat -> forall r, flat_le b r -> members_fit b ms ->
    let x := unmarshal_members O n ms r in nfuel (snd x) /\ flat_le b (fst x).
  Proof.
    intros Hn. destruct n as [|n]; [lia|].
    induction ms as [|[k v] rest IH]; intros r Hr Hms; cbn [unmarshal_members]; [split; [discriminate | exact Hr]|].
    inversion Hms as [|? ? Hv Hrest]; subst. cbn [snd] in Hv. destruct Hr as [Hr1 Hr2].
    destruct (alookup k (row_m r)) as [c0|] eqn:E.
    - destruct (Hr1 k c0 E) as [raw [f [t ->]]]. rewrite cell_import_S.
      pose proof (row_le_get b r k _ Hr2 E) as Hc0. cbn [cell_md] in Hc0.
      destruct (value_import_fuel n raw f t v b Hc0 Hv) as (H1 & H2 & raw' & f' & t' & H3).
      destruct (value_import O n raw f t v) as [c' e]. cbn [fst snd] in H1, H2, H3 |- *. subst c'.
      assert (Hw : flat_le b (set_cell k (CVal raw' f' t') r)).
      { rewrite set_cell_existing by (unfold row_has, ahas; rewrite E; reflexivity).
        split; [apply cvals_store, Hr1 | apply row_le_store; [exact Hr2 | exact H2]]. }
      destruct e; cbn [fst snd]; try (split; [first [exact H1 | discriminate] | exact Hw]). apply IH; [exact Hw | exact Hrest].
    - apply IH; [|exact Hrest].
      change (set_cell k (new_value_auto v) (push_if_absent k r)) with (store k (CVal v FAuto VNil) r).
      split; [apply cvals_store, Hr1 | apply row_le_store; [exact Hr2 | cbn [cell_md]; lia]].
  Qed.

  (* ---------- CreateRow ---------- *)
  Lemma fill_cell_fuel target val b : (S (rv_md val) <= b)%nat ->
    okf (fun c => (cell_md c <= b)%nat /\ exists raw f t, c = CVal raw f t) (fill_cell O target val).
  Proof.
    intros Hv. unfold fill_cell. destruct target as [c|].
    - pose proof (nfuel_cast_to (cell_rawtype c) val) as Hn.
      destruct (cast_to O (cell_rawtype c) val) as [x| | |]; [|apply okf_err | apply okf_panic | contradiction Hn; reflexivity].
      split; [apply nfuel_new_value|]. intros c' Hc'. pose proof (new_value_md _ _ _ _ Hc').
      split; [lia|]. apply new_value_cval in Hc' as [r ->]. eauto.
    - apply okf_ok. unfold new_value_auto. split; [cbn [cell_md]; lia | eauto].
  Qed.

  Lemma flat_le_set_value b k raw f t r : flat_le b r -> (cell_md (CVal raw f t) <= b)%nat ->
    flat_le b (set_value k (Some (CVal raw f t)) r).
  Proof.
    intros [H1 H2] Hc. split; [rewrite set_value_store; apply cvals_store, H1 | apply row_le_set_value; [exact H2 | exact Hc]].
  Qed.

  Lemma create_from_arr_fuel vals b : forall i r, Forall (fun x => (S (rv_md x) <= b)%nat) vals -> flat_le b r ->
    okf (flat_le b) (create_from_arr O i vals r).
  Proof.
    induction vals as [|x rest IH]; intros i r Hvals Hr; cbn [create_from_arr]; [apply okf_ok, Hr|].
    inversion Hvals as [|? ? Hx Hrest]; subst.
    eapply okf_bind; [apply (fill_cell_fuel _ x b Hx)|]. intros c [Hc [raw [f [t ->]]]].
    apply IH; [exact Hrest|]. unfold set_value_at_index. apply flat_le_set_value; [exact Hr | exact Hc].
  Qed.

  Lemma create_from_map_fuel kvs b : forall r, members_fit b kvs -> flat_le b r -> okf (flat_le b) (create_from_map O kvs r).
  Proof.
    induction kvs as [|[k x] rest IH]; intros r Hkvs Hr; cbn [create_from_map]; [apply okf_ok, Hr|].
    inversion Hkvs as [|? ? Hx Hrest]; subst. cbn [snd] in Hx.
    eapply okf_bind; [apply (fill_cell_fuel _ x b Hx)|]. intros c [Hc [raw [f [t ->]]]].
    apply IH; [exact Hrest|]. apply flat_le_set_value; [exact Hr | exact Hc].
  Qed.

  Lemma create_from_row_fuel n m2 l2 b : cells_le b m2 -> (b <= n)%nat ->
    forall r, flat_le b r -> okf (flat_le b) (create_from_row O n m2 l2 r).
  Proof.
    intros Hm Hb. induction l2 as [|k l2 IH]; intros r Hr; cbn [create_from_row]; [apply okf_ok, Hr|].
    destruct (alookup k m2) as [c2|] eqn:E; [|apply okf_panic].
    pose proof (cells_le_lookup _ _ _ _ Hm E) as Hc2.
    eapply okf_bind; [split; [apply cell_raw_nfuel; lia | intros v Hv; exact (cell_raw_md n c2 v Hv)]|].
    intros raw Hraw. cbv beta in Hraw.
    eapply okf_bind; [apply (fill_cell_fuel _ raw b); lia|]. intros c [Hc [raw' [f [t ->]]]].
    apply IH. apply flat_le_set_value; [exact Hr | exact Hc].
  Qed.

End Fuel.

Section FuelText.
  Context (O : oracles).
  Context (parse_top : str -> list (str * rv) * bool).

  Lemma unmarshal_into_fuel n text r b : (1 <= n)%nat -> flat_le b r -> members_fit b (fst (parse_top text)) ->
    okf (flat_le b) (let '(r', e) := unmarshal_text O parse_top n text r in bind e (fun _ => Ok r')).
  Proof.
    intros Hn Hr Hms. unfold unmarshal_text. destruct (parse_top text) as [ms ok]. cbn [fst] in Hms.
    unfold row_unmarshal. destruct (unmarshal_members_fuel O n ms b Hn r Hr Hms) as [H1 H2].
    destruct (unmarshal_members O n ms r) as [r' e]. cbn [fst snd] in H1, H2 |- *.
    destruct e as [u| | |]; cbn [bind].
    - destruct ok; cbn [bind]; [apply okf_ok, H2 | apply okf_err].
    - apply okf_err.
    - apply okf_panic.
    - contradiction H1; reflexivity.
  Qed.

  (* importer.GetRow: fuel above the nesting of the template and of the members of the line *)
  Theorem get_row_fuel n ti line b : row_le b ti -> (b <= n)%nat -> (1 <= n)%nat ->
    members_fit b (fst (parse_top line)) -> okf (flat_le b) (get_row O parse_top n ti line).
  Proof.
    intros Ht Hb Hn Hms. unfold get_row, create_row_empty. eapply okf_bind; [apply clone_row_fuel; eauto|].
    intros r Hr. apply unmarshal_into_fuel; auto.
  Qed.

  (* what is asked of the input of CreateRow / Export, by kind *)
  Definition input_fits (b : nat) (v : rv) : Prop :=
    match v with
    | RArr vals => Forall (fun x => (S (rv_md x) <= b)%nat) vals
    | RMap kvs => members_fit b kvs
    | RV (CRow r) => row_le b r
    | RS (VStr s) => members_fit b (fst (parse_top s))
    | RS (VBytes x) => members_fit b (fst (parse_top (bdata x)))
    | _ => True
    end.

  Theorem create_row_fuel n t v b : row_le b t -> (b <= n)%nat -> (1 <= n)%nat -> input_fits b v ->
    okf (flat_le b) (create_row O parse_top n t v).
  Proof.
    intros Ht Hb Hn Hv. unfold create_row. eapply okf_bind; [apply clone_row_fuel; eauto|]. intros result Hres.
    destruct v as [g|vals|kvs|c].
    - destruct g; try apply okf_err; apply unmarshal_into_fuel; auto.
    - apply create_from_arr_fuel; auto.
    - apply create_from_map_fuel; auto.
    - destruct c as [raw f typ|[m2 l2]]; [apply okf_err|]. apply create_from_row_fuel; auto.
  Qed.

End FuelText.

Section FuelMarshal.
  Context (O : oracles).
  Context (enc_string : str -> str).
  Context (jfloat : bool -> Z -> option str).
  Context (jother : Z -> option str).

  (* ---------- the writers ---------- *)
  Lemma nfuel_opt_res o : nfuel (opt_res o).
  Proof. destruct o; discriminate. Qed.

  Lemma marshal_gval_nfuel g : nfuel (marshal_gval enc_string jfloat jother g).
  Proof. destruct g; cbn [marshal_gval]; try apply nfuel_opt_res; try discriminate. destruct (bnil b); discriminate. Qed.

  Lemma marshal_list_nfuel (rec : rv -> res str) l : Forall (fun x => nfuel (rec x)) l -> nfuel (marshal_list rec l).
  Proof.
    induction 1 as [|x l Hx _ IH]; cbn [marshal_list]; [discriminate|].
    apply nfuel_bind; [exact Hx|]. intros s _. apply nfuel_bind; [exact IH|]. intros; discriminate.
  Qed.

  Lemma marshal_members_nfuel (rec : rv -> res str) m :
    Forall (fun kv => nfuel (rec (snd kv))) m -> nfuel (marshal_members enc_string rec m).
  Proof.
    induction 1 as [|[k x] m Hx _ IH]; cbn [marshal_members]; [discriminate|]. cbn [snd] in Hx.
    apply nfuel_bind; [exact Hx|]. intros s _. apply nfuel_bind; [exact IH|]. intros; discriminate.
  Qed.

  Lemma marshal_row_members_nfuel (rec : cell -> res str) m l :
    (forall k c, alookup k m = Some c -> nfuel (rec c)) -> nfuel (marshal_row_members enc_string rec m l).
  Proof.
    intros Hrec. induction l as [|k l IH]; cbn [marshal_row_members]; [discriminate|].
    destruct (alookup k m) as [c|] eqn:E; [|discriminate].
    destruct (format_eqb (cell_format c) FHidden); [exact IH|].
    apply nfuel_bind; [eapply Hrec; eauto|]. intros s _. apply nfuel_bind; [exact IH|]. intros; discriminate.
  Qed.

  Theorem marshal_nfuel n :
    (forall v, (rv_md v <= n)%nat -> nfuel (marshal_rv O enc_string jfloat jother n v))
    /\ (forall c, (cell_md c <= n)%nat -> nfuel (marshal_cell O enc_string jfloat jother n c))
    /\ (forall r, (crow_md r <= n)%nat -> nfuel (marshal_row O enc_string jfloat jother n r)).
  Proof.
    induction n as [|n [IHv [IHc IHr]]].
    { repeat split; [intros v H; pose proof (rv_md_pos v) | intros c H; pose proof (cell_md_pos c)
                     | intros r H; pose proof (crow_md_pos r)]; lia. }
    assert (Hrow : forall r, (crow_md r <= S n)%nat -> nfuel (marshal_row O enc_string jfloat jother (S n) r)).
    { intros r Hr. apply crow_md_le in Hr. destruct r as [m l]. rewrite marshal_row_S.
      apply nfuel_bind; [|intros; discriminate]. apply marshal_row_members_nfuel.
      intros k c Hk. apply IHc. eapply cells_le_lookup; eauto. }
    assert (Hcell : forall c, (cell_md c <= S n)%nat -> nfuel (marshal_cell O enc_string jfloat jother (S n) c)).
    { intros [raw f typ|r] Hc; cbn [cell_md] in Hc.
      - rewrite marshal_cell_S. destruct (rv_is_nil raw); [discriminate|].
        apply nfuel_bind; [apply nfuel_export_scalar|]. intros e He. apply IHv. apply export_scalar_md in He. lia.
      - apply (IHr r). lia. }
    split; [|split; [exact Hcell | exact Hrow]].
    intros v Hv. destruct v as [g|l|m|c].
    - apply marshal_gval_nfuel.
    - change (nfuel (bind (marshal_list (marshal_rv O enc_string jfloat jother n) l) (fun ss => Ok ([91] ++ join_with [44] ss ++ [93])))).
      apply nfuel_bind; [|intros; discriminate]. apply marshal_list_nfuel. apply rv_md_arr in Hv.
      eapply Forall_impl; [|exact Hv]. intros x Hx. apply IHv, Hx.
    - change (nfuel (bind (marshal_members enc_string (marshal_rv O enc_string jfloat jother n) (sort_by_key m))
                          (fun ss => Ok ([123] ++ join_with [44] ss ++ [125])))).
      apply nfuel_bind; [|intros; discriminate]. apply marshal_members_nfuel. apply rv_md_map in Hv.
      apply Forall_sort_by_key. eapply Forall_impl; [|exact Hv]. intros kv Hx. apply IHv, Hx.
    - apply IHc. cbn [rv_md] in Hv. lia.
  Qed.

  Theorem marshal_row_nfuel n r : (crow_md r <= n)%nat -> nfuel (marshal_row O enc_string jfloat jother n r).
  Proof. apply (proj2 (proj2 (marshal_nfuel n))). Qed.

End FuelMarshal.

Section FuelPipeline.
  Context (O : oracles).
  Context (enc_string : str -> str).
  Context (parse_top : str -> list (str * rv) * bool).
  Context (jfloat : bool -> Z -> option str).
  Context (jother : Z -> option str).

  (* ---------- exporter.Export and the pipeline ---------- *)
  Theorem export_bytes_nfuel n to input b : row_le b to -> (S b <= n)%nat -> input_fits parse_top b input ->
    nfuel (export_bytes O enc_string parse_top jfloat jother n to input).
  Proof.
    intros Hto Hb Hin. unfold export_bytes.
    destruct (create_row_fuel O parse_top n to input b Hto ltac:(lia) ltac:(lia) Hin) as [Hn Hw].
    apply nfuel_bind; [exact Hn|]. intros row Hrow. apply nfuel_bind; [|intros; discriminate].
    apply marshal_row_nfuel. destruct (Hw row Hrow) as [_ Hle]. apply crow_md_le in Hle. lia.
  Qed.

  Theorem pipeline_nfuel n ti to line b : row_le b ti -> row_le b to -> (S b <= n)%nat ->
    members_fit b (fst (parse_top line)) ->
    nfuel (pipeline O enc_string parse_top jfloat jother n ti to line).
  Proof.
    intros Hti Hto Hb Hms. unfold pipeline.
    destruct (get_row_fuel O parse_top n ti line b Hti ltac:(lia) ltac:(lia) Hms) as [Hn Hw].
    apply nfuel_bind; [exact Hn|]. intros row Hrow. apply (export_bytes_nfuel n to _ b Hto Hb).
    cbn [input_fits]. exact (proj2 (Hw row Hrow)).
  Qed.
End FuelPipeline.

(* ---------- the builders: the measure of a template built from descriptors ---------- *)
Fixpoint td_depth (d : tdesc) : nat :=
  match d with
  | TCol _ _ _ => 0
  | TSub _ cols => S (fold_right (fun x a => Nat.max (td_depth x) a) 0%nat cols)
  end.

Section BuildersMeasure.
  Context (O : oracles).

  Lemma clone_cells_md n m l b : cells_le b m ->
    forall acc r', row_le b acc -> clone_cells O n m l acc = Ok r' -> row_le b r'.
  Proof.
    intros Hm. induction l as [|k l IH]; intros acc r' Hacc; cbn [clone_cells]; [intros [= <-]; exact Hacc|].
    destruct (alookup k m) as [c|] eqn:E; [|discriminate].
    destruct (clone_value O n c) as [c'| | |] eqn:Ec; cbn [bind]; try discriminate.
    apply IH. apply row_le_set_value; [exact Hacc|].
    unfold clone_value in Ec. destruct (cell_raw n c) as [raw| | |] eqn:Er; cbn [bind] in Ec; try discriminate.
    apply cell_raw_md in Er. apply new_value_md in Ec. pose proof (cells_le_lookup _ _ _ _ Hm E). lia.
  Qed.

  Lemma clone_row_md n r r' b : row_le b r -> clone_row O n r = Ok r' -> row_le b r'.
  Proof. intros Hr. unfold clone_row. apply clone_cells_md; [exact Hr | apply row_le_new]. Qed.

  Lemma with_col_le b name f typ t : (2 <= b)%nat -> row_le b t -> row_le b (with_col name f typ t).
  Proof. intros Hb Ht. unfold with_col. apply row_le_set_value; [exact Ht|]. cbn [cell_md rnil rv_md]. exact Hb. Qed.

  Lemma with_row_le n name sub t t' b b' : row_le b sub -> (S (S b) <= b')%nat -> row_le b' t ->
    with_row O n name sub t = Ok t' -> row_le b' t'.
  Proof.
    intros Hs Hb Ht. unfold with_row, create_row_empty.
    destruct (clone_row O n sub) as [r| | |] eqn:E; cbn [bind]; try discriminate. intros [= <-].
    apply row_le_set_value; [exact Ht|]. apply (clone_row_md n sub r b Hs), crow_md_le in E. cbn [cell_md]. lia.
  Qed.

  (* descriptors nested at most D deep give a template of measure at most 2 * D + 3 *)
  Theorem build_template_le n : forall cols t t' D, Forall (fun d => (td_depth d <= D)%nat) cols ->
    row_le (2 + 2 * D) t -> build_template O n cols t = Ok t' -> row_le (2 + 2 * D) t'.
  Proof.
    induction n as [|n IH]; intros cols t t' D Hc Ht; cbn [build_template]; [discriminate|].
    destruct cols as [|[name f typ|name sub] rest]; [intros [= <-]; exact Ht| |].
    - inversion Hc as [|? ? Hd Hrest]; subst. apply IH; [exact Hrest|]. apply with_col_le; [lia | exact Ht].
    - inversion Hc as [|? ? Hd Hrest]; subst. cbn [td_depth] in Hd.
      destruct (build_template O n sub new_template) as [st| | |] eqn:Es; cbn [bind]; try discriminate.
      destruct (with_row O FUEL name st t) as [t1| | |] eqn:Ew; cbn [bind]; try discriminate.
      apply IH; [exact Hrest|].
      assert (Hst : row_le (2 + 2 * (D - 1)) st).
      { apply (IH sub new_template st (D - 1)%nat); [apply fold_max_le; lia | apply row_le_new | exact Es]. }
      eapply with_row_le; [exact Hst | lia | exact Ht | exact Ew].
  Qed.

  Corollary built_template_md n cols t D : Forall (fun d => (td_depth d <= D)%nat) cols ->
    build_template O n cols new_template = Ok t -> (crow_md t <= 2 * D + 3)%nat.
  Proof.
    intros Hc H. apply (build_template_le n cols new_template t D Hc (row_le_new _)), crow_md_le in H. lia.
  Qed.
End BuildersMeasure.

(* ---------- the text layer of GoJson: the measure of what it hands the row ---------- *)
Lemma fold_zmax_ge {A} (f : A -> Z) l :
  0 <= fold_right (fun x a => Z.max (f x) a) 0 l
  /\ Forall (fun x => f x <= fold_right (fun x a => Z.max (f x) a) 0 l) l.
Proof.
  induction l as [|x l [IH1 IH2]]; cbn [fold_right]; [split; [lia | constructor]|].
  split; [lia|]. constructor; [lia|]. eapply Forall_impl; [|exact IH2]. intros a Ha. cbv beta in Ha. lia.
Qed.

Lemma jdepth_nonneg v : 0 <= jdepth v.
Proof.
  destruct v; cbn [jdepth]; try lia.
  - pose proof (proj1 (fold_zmax_ge jdepth l)). lia.
  - pose proof (proj1 (fold_zmax_ge (fun kv : str * jv => jdepth (snd kv)) m)). lia.
Qed.

Lemma row_le_obj_row_from ms b : forall r, members_fit b ms -> row_le b r ->
  row_le b (fold_left (fun r kv => set_cell (fst kv) (CVal (snd kv) FAuto VNil) (push_if_absent (fst kv) r)) ms r).
Proof.
  induction ms as [|[k v] ms IH]; intros r Hms Hr; cbn [fold_left]; [exact Hr|].
  inversion Hms as [|? ? Hv Hrest]; subst. cbn [fst snd] in *. apply IH; [exact Hrest|].
  change (set_cell k (CVal v FAuto VNil) (push_if_absent k r)) with (store k (CVal v FAuto VNil) r).
  apply row_le_store; [exact Hr | cbn [cell_md]; exact Hv].
Qed.

(* an array costs one unit of fuel per level, an object four (the interface, the Row, its cell, the value) *)
Theorem rv_md_of_jv v : Z.of_nat (rv_md (rv_of_jv v)) <= 4 * jdepth v + 1.
Proof.
  induction v as [|b|l|s|l IH|m IH] using jv_ind2; cbn [rv_of_jv]; try (cbn [rv_md jdepth]; lia).
  - destruct (fold_zmax_ge jdepth l) as [HD0 HD].
    change (jdepth (JArr l)) with (1 + fold_right (fun x a => Z.max (jdepth x) a) 0 l).
    set (D := fold_right (fun x a => Z.max (jdepth x) a) 0 l) in *.
    assert (Hl : rvs_le (Z.to_nat (4 * D + 1)) (map rv_of_jv l)).
    { unfold rvs_le. rewrite Forall_forall in *. intros x Hx. apply in_map_iff in Hx as (y & <- & Hy).
      specialize (IH y Hy). specialize (HD y Hy). cbv beta in HD. lia. }
    apply rv_md_arr in Hl. lia.
  - destruct (fold_zmax_ge (fun kv : str * jv => jdepth (snd kv)) m) as [HD0 HD].
    change (jdepth (JObj m)) with (1 + fold_right (fun kv a => Z.max (jdepth (snd kv)) a) 0 m).
    set (D := fold_right (fun kv a => Z.max (jdepth (snd kv)) a) 0 m) in *.
    set (ms := map (fun kv : str * jv => (fst kv, rv_of_jv (snd kv))) m).
    assert (Hms : members_fit (Z.to_nat (4 * D + 2)) ms).
    { unfold members_fit, ms. rewrite Forall_forall in *. intros x Hx. apply in_map_iff in Hx as (y & <- & Hy).
      specialize (IH y Hy). specialize (HD y Hy). cbv beta in HD. cbn [snd]. lia. }
    pose proof (row_le_obj_row_from ms _ new_row Hms (row_le_new _)) as Hr.
    change (row_le (Z.to_nat (4 * D + 2)) (obj_row ms)) in Hr. apply crow_md_le in Hr.
    change (rv_md (RV (CRow (obj_row ms)))) with (S (S (crow_md (obj_row ms)))). lia.
Qed.

(* the JSON nesting of the members of a line, as the reader sees them (0: scalars only) *)
Definition line_depth_le (d : Z) (line : str) : Prop :=
  Forall (fun kv => jdepth (snd kv) <= d) (fst (parse_top line)).

(* (a decidable form, for concrete lines) *)
Definition line_depth_leb (d : Z) (line : str) : bool :=
  forallb (fun kv => jdepth (snd kv) <=? d) (fst (parse_top line)).

Lemma line_depth_leb_ok d line : line_depth_leb d line = true -> line_depth_le d line.
Proof.
  unfold line_depth_leb, line_depth_le. rewrite forallb_forall, Forall_forall. intros H x Hx. specialize (H x Hx). lia.
Qed.

Lemma line_members_fit line d b : line_depth_le d line -> 4 * d + 2 <= Z.of_nat b ->
  members_fit b (fst (parse_top_rv line)).
Proof.
  unfold line_depth_le, parse_top_rv. destruct (parse_top line) as [ms ok]. cbn [fst]. intros Hd Hb.
  unfold members_fit. rewrite Forall_forall in *. intros x Hx. apply in_map_iff in Hx as (y & <- & Hy).
  specialize (Hd y Hy). cbv beta in Hd. cbn [snd]. pose proof (rv_md_of_jv (snd y)). lia.
Qed.

Section JlFuel.
  Context (O : oracles) (jfloat : bool -> Z -> option str) (jother : Z -> option str).

  Theorem jl_get_row_nfuel n ti line d : (crow_md ti <= S n)%nat -> (1 <= n)%nat ->
    line_depth_le d line -> 4 * d + 2 <= Z.of_nat n -> nfuel (jl_get_row O n ti line).
  Proof.
    intros Hti H1 Hd Hn. apply crow_md_le in Hti.
    exact (proj1 (get_row_fuel O parse_top_rv n ti line n Hti (le_n _) H1 (line_members_fit line d n Hd Hn))).
  Qed.
  Theorem jl_marshal_row_nfuel n r : (crow_md r <= n)%nat -> nfuel (jl_marshal_row O jfloat jother n r).
  Proof. apply marshal_row_nfuel. Qed.

  (* one line through importer -> exporter: fuel above the measure of both templates and above
     4 * (JSON nesting of the members of the line) + 3 *)
  Theorem jl_pipeline_nfuel n ti to line d :
    (crow_md ti <= n)%nat -> (crow_md to <= n)%nat -> line_depth_le d line -> 4 * d + 3 <= Z.of_nat n ->
    nfuel (jl_pipeline O jfloat jother n ti to line).
  Proof.
    intros Hti Hto Hd Hn. pose proof (crow_md_pos ti) as Hp.
    destruct n as [|b]; [lia|].
    apply (pipeline_nfuel O encode_string parse_top_rv jfloat jother (S b) ti to line b).
    - apply crow_md_le, Hti.
    - apply crow_md_le, Hto.
    - apply le_n.
    - apply (line_members_fit line d b Hd). lia.
  Qed.

  (* ... hence the pipeline is total there: a line is written or refused *)
  Theorem jl_pipeline_total n ti to line d :
    wf_crow ti -> wf_crow to ->
    (crow_md ti <= n)%nat -> (crow_md to <= n)%nat -> line_depth_le d line -> 4 * d + 3 <= Z.of_nat n ->
    (exists out, jl_pipeline O jfloat jother n ti to line = Ok out)
    \/ (exists e, jl_pipeline O jfloat jother n ti to line = Err e).
  Proof.
    intros Wi Wo Hti Hto Hd Hn.
    pose proof (jl_pipeline_np O jfloat jother n ti to line Wi Wo) as Hp.
    pose proof (jl_pipeline_nfuel n ti to line d Hti Hto Hd Hn) as Hf.
    destruct (jl_pipeline O jfloat jother n ti to line) as [out|e| |]; [left; eauto | right; eauto | |].
    - contradiction Hp; reflexivity.
    - contradiction Hf; reflexivity.
  Qed.

  (* closed form: templates built from descriptors nested at most D deep, lines nested at most d deep *)
  Theorem built_pipeline_total fi fo ci co ti to n line D d :
    build_template O fi ci new_template = Ok ti -> build_template O fo co new_template = Ok to ->
    Forall (fun x => (td_depth x <= D)%nat) ci -> Forall (fun x => (td_depth x <= D)%nat) co ->
    line_depth_le d line -> (2 * D + 3 <= n)%nat -> 4 * d + 3 <= Z.of_nat n ->
    (exists out, jl_pipeline O jfloat jother n ti to line = Ok out)
    \/ (exists e, jl_pipeline O jfloat jother n ti to line = Err e).
  Proof.
    intros Hi Ho Di Do Hd HD Hn. apply (jl_pipeline_total n ti to line d); auto.
    - exact (proj2 (build_template_safe O fi ci new_template wf_new_row) ti Hi).
    - exact (proj2 (build_template_safe O fo co new_template wf_new_row) to Ho).
    - pose proof (built_template_md O fi ci ti D Di Hi). lia.
    - pose proof (built_template_md O fo co to D Do Ho). lia.
  Qed.
End JlFuel.

(* ================= the command: the templates cmd/jl builds (JL.model.Jl) =================
   createTemplate (row.yml columns, or the inline template read as a row) builds both templates with
   With / WithRow only; the loop over the parsed inline template dereferences r.m[key] for the
   keys the row lists — never nil for the row UnmarshalJSON built. *)
From JL.model Require Import Jl.

Section JlBuilders.
  Context (O : oracles).

  Definition wf2 (p : template * template) : Prop := wf_crow (fst p) /\ wf_crow (snd p).

  Lemma of_yaml_safe n : forall cols ti to, wf_crow ti -> wf_crow to -> ok_wf wf2 (of_yaml O n cols ti to).
  Proof.
    induction n as [|n IH]; intros cols ti to Hi Ho; cbn [of_yaml]; [apply ok_wf_fuel|].
    destruct cols as [|[name input output sub] rest]; [apply ok_wf_ok; split; assumption|].
    destruct (parse_descriptor input) as [fi typi]. destruct (parse_descriptor output) as [fo typo].
    pose proof (with_col_wf name fi typi ti Hi) as Hi1. pose proof (with_col_wf name fo typo to Ho) as Ho1.
    destruct sub as [|s0 sub']; [apply IH; assumption|].
    eapply ok_wf_bind; [apply IH; apply wf_new_row|]. intros st [Hs1 Hs2].
    eapply ok_wf_bind; [apply with_row_safe; eassumption|]. intros ti2 Hti2.
    eapply ok_wf_bind; [apply with_row_safe; eassumption|]. intros to2 Hto2. apply IH; assumption.
  Qed.

  Lemma of_inline_safe n : forall m l ti to, wf_cells m -> (forall k, In k l -> ahas k m = true) ->
    wf_crow ti -> wf_crow to -> ok_wf wf2 (of_inline O n m l ti to).
  Proof.
    induction n as [|n IH]; intros m l ti to Hm Hl Hi Ho; cbn [of_inline]; [apply ok_wf_fuel|].
    destruct l as [|k rest]; [apply ok_wf_ok; split; assumption|].
    assert (Hk : ahas k m = true) by (apply Hl; now left). unfold ahas in Hk.
    destruct (alookup k m) as [c|] eqn:E; [|discriminate].
    assert (Hrest : forall k0, In k0 rest -> ahas k0 m = true) by (intros k0 H0; apply Hl; now right).
    destruct (cell_export_np O FUELJ c (wf_cells_lookup _ _ _ Hm E)) as [Hn Hw].
    destruct (cell_export O FUELJ c) as [v| | |]; [|apply ok_wf_err | contradiction Hn; reflexivity | apply ok_wf_fuel].
    specialize (Hw v eq_refl).
    destruct v as [g|l0|m0|[raw f t|[m2 l2]]]; try (apply IH; assumption).
    - destruct g; try (apply IH; assumption).
      destruct (split_colon s) as [a b]. destruct (parse_descriptor a) as [fi typi].
      destruct b as [b'|]; [destruct (parse_descriptor b') as [fo typo]|]; apply IH; auto; apply with_col_wf; assumption.
    - cbn [wf_rv wf_cell] in Hw. destruct (wf_crow_keys _ _ Hw) as [Hm2 Hl2].
      eapply ok_wf_bind; [apply IH; auto; apply wf_new_row|]. intros st [Hs1 Hs2].
      eapply ok_wf_bind; [apply with_row_safe; eassumption|]. intros ti2 Hti2.
      eapply ok_wf_bind; [apply with_row_safe; eassumption|]. intros to2 Hto2. apply IH; assumption.
  Qed.

  Lemma of_inline_text_safe text : ok_wf wf2 (of_inline_text O text).
  Proof.
    unfold of_inline_text. pose proof (parse_top_rv_wf text) as Hms. destruct (parse_top_rv text) as [ms ok]. cbn [fst] in Hms.
    destruct (row_unmarshal_np O FUELJ ms ok new_row wf_new_row Hms) as [Hn Hw].
    destruct (row_unmarshal O FUELJ ms ok new_row) as [r e]. cbn [fst snd] in Hn, Hw.
    destruct e as [u| | |]; cbn [bind]; [|apply ok_wf_err | contradiction Hn; reflexivity | apply ok_wf_fuel].
    destruct r as [m l]. destruct (wf_crow_keys _ _ Hw) as [Hm Hl]. apply of_inline_safe; auto; apply wf_new_row.
  Qed.

  (* createTemplate: any row.yml column list, any inline template text *)
  Theorem create_template_safe cols inline : ok_wf wf2 (create_template O cols inline).
  Proof.
    unfold create_template. eapply ok_wf_bind; [apply of_yaml_safe; apply wf_new_row|]. intros file Hf.
    destruct (str_eqb inline [] || str_eqb inline [123; 125]); [apply ok_wf_ok, Hf | apply of_inline_text_safe].
  Qed.

  Context (jfloat : bool -> Z -> option str) (jother : Z -> option str).

  (* the command: no line makes the pipeline panic under the templates it built *)
  Theorem jl_command_np cols inline ti to n line :
    create_template O cols inline = Ok (ti, to) -> np (jl_pipeline O jfloat jother n ti to line).
  Proof.
    intros H. destruct (proj2 (create_template_safe cols inline) (ti, to) H) as [Hi Ho].
    apply jl_pipeline_np; assumption.
  Qed.

  Theorem jl_run_np cols inline lines : np (jl_run O jfloat jother cols inline lines).
  Proof.
    unfold jl_run. apply np_bind; [apply (ok_wf_np _ _ (create_template_safe cols inline))|]. intros; discriminate.
  Qed.
End JlBuilders.
