(* C16 at the level of the importer: importer.GetRow on one line (JL.model.Template.get_row with
   the text layer of JL.std.GoJson plugged in) returns a row only if row.UnmarshalJSON accepted
   the line — hence, by the reader theorems of JsonProofs, only if the line is exactly one JSON
   object — and, conversely, on a line that is one JSON object it returns a row unless the import
   of some member into the cell already stored under its key (a declared column) failed, in which
   case it returns that error and no row. It never panics on a well-formed template.

   Fuel. The result is stated for every fuel n with [Fuel] as a distinct outcome: the theorem says
   what the outcome is whenever it is not [Fuel] (the nesting of the template exceeding n). *)
From Coq Require Import ZArith List Bool Lia.
From JL.std Require Import GoBase GoFloat GoStrconv GoTime GoVal GoJson GoJsonStrict.
From JL.gen Require Import CastGen ConvGen.
From JL.model Require Import CastRun Row RowRun Template TemplateJson.
From JL.proofs Require Import CastTotal RowProofs RowSafe TemplateClass JsonParseS JsonRec JsonProofs.
Import ListNotations.
Open Scope Z_scope.

(* ================= what the reader hands the row is well formed ================= *)

Lemma wf_obj_row_fold ms : forall r, wf_crow r -> Forall (fun kv => wf_rv (snd kv)) ms ->
  wf_crow (fold_left (fun r kv => set_cell (fst kv) (CVal (snd kv) FAuto VNil) (push_if_absent (fst kv) r)) ms r).
Proof.
  induction ms as [|[k v] rest IH]; intros r Hr Hms; [exact Hr|]. cbn [fold_left fst snd].
  inversion Hms as [|? ? Hv Hrest]; subst. apply IH; [|exact Hrest].
  change (set_cell k (CVal v FAuto VNil) (push_if_absent k r)) with (store k (CVal v FAuto VNil) r).
  apply wf_store; [exact Hr | exact Hv].
Qed.

Lemma wf_obj_row ms : Forall (fun kv => wf_rv (snd kv)) ms -> wf_crow (obj_row ms).
Proof. apply wf_obj_row_fold, wf_new_row. Qed.

Lemma wf_rv_of_jv : forall v, wf_rv (rv_of_jv v).
Proof.
  fix IH 1. intros [| b | lit | s | l | m]; cbn [rv_of_jv]; try exact I.
  - apply wf_arr_eq. unfold wf_rvs. revert l. fix IHl 1. intros [|x l]; cbn [map]; constructor; [apply IH | apply IHl].
  - change (wf_crow (obj_row (map (fun kv => (fst kv, rv_of_jv (snd kv))) m))). apply wf_obj_row.
    revert m. fix IHm 1. intros [|[k x] m]; cbn [map]; constructor; [cbn [fst snd]; apply IH | apply IHm].
Qed.

Lemma wf_parsed_members (ms : list (str * jv)) : wf_kvs (map (fun kv => (fst kv, rv_of_jv (snd kv))) ms).
Proof. unfold wf_kvs. induction ms as [|[k v] ms IH]; cbn [map]; constructor; [apply wf_rv_of_jv | exact IH]. Qed.

Lemma parse_top_rv_eq s :
  parse_top_rv s = (map (fun kv => (fst kv, rv_of_jv (snd kv))) (fst (parse_top s)), snd (parse_top s)).
Proof. unfold parse_top_rv. destruct (parse_top s) as [ms ok]. reflexivity. Qed.

Section Accept.
  Context (O : oracles).

  (* the members of the line as the row receives them *)
  Definition line_members (line : str) : list (str * rv) :=
    map (fun kv => (fst kv, rv_of_jv (snd kv))) (fst (parse_top line)).

  (* importer.GetRow, one unfolding: clone the template, import the members, then the syntax verdict *)
  Lemma get_row_eq n ti line :
    get_row O parse_top_rv n ti line =
    match clone_row O n ti with
    | Ok r0 =>
        match unmarshal_members O n (line_members line) r0 with
        | (r', Ok _) => if snd (parse_top line) then Ok r' else Err ErrNoWrap
        | (_, Err e) => Err e
        | (_, Panic) => Panic
        | (_, Fuel) => Fuel
        end
    | Err e => Err e
    | Panic => Panic
    | Fuel => Fuel
    end.
  Proof.
    unfold get_row, create_row_empty, unmarshal_text, row_unmarshal, line_members.
    destruct (clone_row O n ti) as [r0| | |]; cbn [bind]; try reflexivity.
    rewrite parse_top_rv_eq.
    destruct (unmarshal_members O n (map (fun kv => (fst kv, rv_of_jv (snd kv))) (fst (parse_top line))) r0) as [r' e].
    destruct e as [[]| | |]; try reflexivity. destruct (snd (parse_top line)); reflexivity.
  Qed.

  (* ================= => : a row is returned only for an accepted line ================= *)
  Theorem get_row_accepts n ti line row :
    get_row O parse_top_rv n ti line = Ok row -> snd (parse_top line) = true.
  Proof.
    rewrite get_row_eq. destruct (clone_row O n ti) as [r0| | |]; try discriminate.
    destruct (unmarshal_members O n (line_members line) r0) as [r' e]. destruct e; try discriminate.
    destruct (snd (parse_top line)); [reflexivity | discriminate].
  Qed.

  Theorem accept_sound n ti line row :
    no_substitution line -> get_row O parse_top_rv n ti line = Ok row -> is_json_object line = true.
  Proof. intros Hns H. apply parse_sound; [exact Hns | eapply get_row_accepts; eauto]. Qed.

  (* a rejected line gives no row, whatever the template *)
  Theorem reject_no_row n ti line :
    snd (parse_top line) = false -> forall row, get_row O parse_top_rv n ti line <> Ok row.
  Proof. intros H row E. apply get_row_accepts in E. congruence. Qed.

  (* the members reach the row exactly and in order when the line is one JSON object *)
  Lemma line_members_spelled line m :
    spells line (JObj m) -> line_members line = map (fun kv => (fst kv, rv_of_jv (snd kv))) m /\ snd (parse_top line) = true.
  Proof. intros H. unfold line_members. rewrite (parse_complete line m H). auto. Qed.

  (* ================= CloneRow never returns an error ================= *)
  Definition ne {A} (r : res A) : Prop := forall e, r <> Err e.

  Lemma ne_bind {A B} (x : res A) (f : A -> res B) : ne x -> (forall a, ne (f a)) -> ne (bind x f).
  Proof.
    unfold ne. intros Hx Hf e. destruct x as [a|e0| |]; cbn [bind];
      [apply Hf | exfalso; exact (Hx e0 eq_refl) | discriminate | discriminate].
  Qed.

  Lemma ne_new_value v f t : ne (new_value O v f t).
  Proof. unfold ne, new_value. intros e. destruct (cast_to O t v); discriminate. Qed.

  Lemma ne_cells_raw (rec : cell -> res rv) m l : (forall c, ne (rec c)) -> ne (cells_raw rec m l).
  Proof.
    intros Hrec. induction l as [|k l IH]; cbn [cells_raw]; [intros e; discriminate|].
    destruct (alookup k m) as [c|]; [|intros e; discriminate].
    apply ne_bind; [apply Hrec|]. intros v. apply ne_bind; [exact IH|]. intros t e. discriminate.
  Qed.

  Lemma ne_cell_raw n : forall c, ne (cell_raw n c).
  Proof.
    induction n as [|n IH]; intros c; cbn [cell_raw]; [intros e; discriminate|].
    destruct c as [raw f t|[m l]]; [intros e; discriminate|].
    apply ne_bind; [apply ne_cells_raw, IH|]. intros t e. discriminate.
  Qed.

  Lemma ne_clone_cells n m l : forall acc, ne (clone_cells O n m l acc).
  Proof.
    induction l as [|k l IH]; intros acc; cbn [clone_cells]; [intros e; discriminate|].
    destruct (alookup k m) as [c|]; [|intros e; discriminate].
    apply ne_bind; [|intros c'; apply IH].
    unfold clone_value. apply ne_bind; [apply ne_cell_raw | intros raw; apply ne_new_value].
  Qed.

  Lemma ne_clone_row n r : ne (clone_row O n r).
  Proof. unfold clone_row. apply ne_clone_cells. Qed.

  (* ================= an import error comes from a member met on the way ================= *)
  (* the member (k, v) of the line was imported into the cell c stored under k and that failed *)
  Lemma unmarshal_members_err n ms : forall r r' e,
    unmarshal_members O n ms r = (r', Err e) ->
    exists k v c c', In (k, v) ms /\ cell_import O n c v = (c', Err e).
  Proof.
    induction ms as [|[k v] rest IH]; intros r r' e; cbn [unmarshal_members]; [discriminate|].
    destruct (alookup k (row_m r)) as [c|] eqn:Ek.
    - destruct (cell_import O n c v) as [c' e0] eqn:Ec. destruct e0 as [[]|e0| |].
      + intros H. destruct (IH _ _ _ H) as (k1 & v1 & c1 & c1' & Hin & Hc). exists k1, v1, c1, c1'. split; [now right | exact Hc].
      + intros [= <- <-]. exists k, v, c, c'. split; [now left | exact Ec].
      + discriminate.
      + discriminate.
    - intros H. destruct (IH _ _ _ H) as (k1 & v1 & c1 & c1' & Hin & Hc). exists k1, v1, c1, c1'. split; [now right | exact Hc].
  Qed.

  (* ================= <= : one JSON object is accepted unless a column refuses its value ================= *)
  Theorem accept_complete n ti line :
    wf_crow ti -> is_json_object line = true ->
    get_row O parse_top_rv n ti line = Fuel
    \/ (exists row, get_row O parse_top_rv n ti line = Ok row)
    \/ (exists e r0 r', clone_row O n ti = Ok r0
                        /\ unmarshal_members O n (line_members line) r0 = (r', Err e)
                        /\ get_row O parse_top_rv n ti line = Err e).
  Proof.
    intros Hti Hobj. apply is_json_object_iff in Hobj as [m Hm].
    destruct (line_members_spelled line m Hm) as [Hms Hok].
    rewrite get_row_eq. destruct (clone_row_np O n ti Hti) as [Hnp Hwf].
    destruct (clone_row O n ti) as [r0|e| |] eqn:Ec.
    - assert (Hk : wf_kvs (line_members line)) by (rewrite Hms; apply wf_parsed_members).
      destruct (unmarshal_members_np O n (line_members line) r0 (Hwf r0 eq_refl) Hk) as [Hn _].
      destruct (unmarshal_members O n (line_members line) r0) as [r' e] eqn:Eu. cbn [snd] in Hn.
      destruct e as [[]|e| |].
      + right. left. rewrite Hok. eauto.
      + right. right. exists e, r0, r'. auto.
      + contradiction Hn; reflexivity.
      + now left.
    - exfalso. exact (ne_clone_row n ti e Ec).
    - contradiction Hnp; reflexivity.
    - now left.
  Qed.

  (* the same with the failing member exhibited *)
  Corollary accept_complete_member n ti line :
    wf_crow ti -> is_json_object line = true ->
    get_row O parse_top_rv n ti line = Fuel
    \/ (exists row, get_row O parse_top_rv n ti line = Ok row)
    \/ (exists e k v c c', In (k, v) (line_members line) /\ cell_import O n c v = (c', Err e)
                           /\ get_row O parse_top_rv n ti line = Err e).
  Proof.
    intros Hti Hobj. destruct (accept_complete n ti line Hti Hobj) as [H|[H|(e & r0 & r' & _ & Hu & Hg)]]; auto.
    right. right. destruct (unmarshal_members_err _ _ _ _ _ Hu) as (k & v & c & c' & Hin & Hc).
    exists e, k, v, c, c'. auto.
  Qed.

  (* never a panic on a well-formed template, whatever the line *)
  Theorem get_row_np n ti line : wf_crow ti -> get_row O parse_top_rv n ti line <> Panic.
  Proof.
    intros Hti. rewrite get_row_eq. destruct (clone_row_np O n ti Hti) as [Hnp Hwf].
    destruct (clone_row O n ti) as [r0|e| |] eqn:Ec; try discriminate; [|contradiction Hnp; reflexivity].
    assert (Hk : wf_kvs (line_members line)) by apply wf_parsed_members.
    destruct (unmarshal_members_np O n (line_members line) r0 (Hwf r0 eq_refl) Hk) as [Hn _].
    destruct (unmarshal_members O n (line_members line) r0) as [r' e]. cbn [snd] in Hn.
    destruct e as [[]|e| |]; try discriminate; [destruct (snd (parse_top line)); discriminate | contradiction Hn; reflexivity].
  Qed.

  (* ================= fuel: one unit beyond what CreateRowEmpty needs is enough ================= *)
  Definition nf {A} (r : res A) : Prop := r <> Fuel.

  Lemma nf_good w v r : good w v r -> nf r.
  Proof. unfold good, nf. destruct r; intros H; try discriminate; contradiction. Qed.

  Lemma nf_To t v : nf (To O t v). Proof. eapply nf_good, To_good. Qed.
  Lemma nf_ToString v : nf (ToString O v). Proof. eapply nf_good, ToString_good. Qed.
  Lemma nf_ToNumber v : nf (ToNumber O v). Proof. eapply nf_good, ToNumber_good. Qed.
  Lemma nf_ToBool v : nf (ToBool O v). Proof. eapply nf_good, ToBool_good. Qed.
  Lemma nf_ToBinary v : nf (ToBinary O v). Proof. eapply nf_good, ToBinary_good. Qed.
  Lemma nf_ToDate v : nf (ToDate O v). Proof. eapply nf_good, ToDate_good. Qed.
  Lemma nf_ToTime v : nf (ToTime O v). Proof. eapply nf_good, ToTime_good. Qed.
  Lemma nf_ToTimestamp v : nf (ToTimestamp O v). Proof. eapply nf_good, ToTimestamp_good. Qed.
  Lemma nf_ToInt64 v : nf (ToInt64 O v). Proof. eapply nf_good, ToInt64_good. Qed.

  Ltac killf F := let E := fresh "E" in destruct F eqn:E; try discriminate;
                  try (exfalso; first [ eapply nf_To; eassumption | eapply nf_ToString; eassumption
                                      | eapply nf_ToNumber; eassumption | eapply nf_ToBool; eassumption
                                      | eapply nf_ToBinary; eassumption | eapply nf_ToDate; eassumption
                                      | eapply nf_ToTime; eassumption | eapply nf_ToTimestamp; eassumption
                                      | eapply nf_ToInt64; eassumption ]).

  Lemma nf_lift r : nf r -> nf (lift r).
  Proof. unfold nf. destruct r; cbn; congruence. Qed.

  Lemma nf_cast_to t v : nf (cast_to O t v).
  Proof. unfold cast_to, nf. killf (To O t (to_gval v)). destruct v; try discriminate; destruct a; discriminate. Qed.

  Lemma nf_import_scalar f t v : nf (import_scalar O f t v).
  Proof.
    destruct f; cbn [import_scalar]; try discriminate; try apply nf_cast_to.
    all: apply nf_lift; unfold nf, importFromString, importFromNumeric, importFromBoolean, importFromBinary,
           importFromDate, importFromDateTime, importFromTimestamp;
         destruct t;
         repeat match goal with
                | |- context [match ?F with Ok _ => _ | Err _ => _ | Panic => _ | Fuel => _ end] => killf F
                | |- context [match as_string ?x with Some _ => _ | None => _ end] => destruct (as_string x)
                | |- context [match option_map ?g ?x with Some _ => _ | None => _ end] => destruct (option_map g x)
                end; try discriminate.
  Qed.

  Lemma nf_value_import n raw f t v : nf (snd (value_import O n raw f t v)).
  Proof.
    unfold value_import, nf. destruct (rv_is_nil v); [discriminate|].
    pose proof (nf_import_scalar f t v) as Hn.
    destruct v as [g|l0|m0|[raw' f' t'|sub]]; try (cbn; discriminate);
      destruct (import_scalar O f t _) as [r| | |]; cbn; try discriminate; contradiction Hn; reflexivity.
  Qed.

  Lemma value_import_cval n raw f t v : exists raw' f' t', fst (value_import O n raw f t v) = CVal raw' f' t'.
  Proof.
    unfold value_import. destruct (rv_is_nil v); [cbn; eauto|].
    destruct v as [g|l0|m0|[raw' f' t'|sub]]; try (cbn; eauto; fail);
      destruct (import_scalar O f t _) as [r| | |]; cbn; eauto.
  Qed.

  Lemma cvals_new_row : cvals new_row.
  Proof. intros k c. cbn. discriminate. Qed.

  Lemma unmarshal_members_nf n ms : forall r, cvals r -> nf (snd (unmarshal_members O (S n) ms r)).
  Proof.
    induction ms as [|[k v] rest IH]; intros r Hr; cbn [unmarshal_members]; [cbn; discriminate|].
    destruct (alookup k (row_m r)) as [c|] eqn:Ek.
    - destruct (Hr k c Ek) as [raw [f [t ->]]]. rewrite cell_import_S.
      pose proof (nf_value_import n raw f t v) as Hn. destruct (value_import_cval n raw f t v) as [raw' [f' [t' Hc]]].
      destruct (value_import O n raw f t v) as [c' e]. cbn [fst snd] in *. subst c'.
      assert (Hs : cvals (set_cell k (CVal raw' f' t') r)).
      { rewrite set_cell_existing by (unfold row_has, ahas; rewrite Ek; reflexivity). now apply cvals_store. }
      destruct e as [[]| | |]; cbn [snd]; try discriminate; [apply IH, Hs | exact Hn].
    - apply IH. change (set_cell k (new_value_auto v) (push_if_absent k r)) with (store k (CVal v FAuto VNil) r).
      now apply cvals_store.
  Qed.

  (* with the fuel CreateRowEmpty needs plus one, GetRow does not run out of fuel *)
  Theorem get_row_fuel n ti line :
    clone_row O (S n) ti <> Fuel -> get_row O parse_top_rv (S n) ti line <> Fuel.
  Proof.
    intros Hc. rewrite get_row_eq. destruct (clone_row O (S n) ti) as [r0| | |] eqn:Ec; try discriminate; [|contradiction Hc; reflexivity].
    assert (Hv : cvals r0).
    { unfold clone_row in Ec. eapply clone_cells_cvals; [exact Ec | apply cvals_new_row]. }
    pose proof (unmarshal_members_nf n (line_members line) r0 Hv) as Hn.
    destruct (unmarshal_members O (S n) (line_members line) r0) as [r' e]. cbn [snd] in Hn.
    destruct e as [[]| | |]; try discriminate; [destruct (snd (parse_top line)); discriminate | contradiction Hn; reflexivity].
  Qed.

  (* C16 <= without the Fuel alternative *)
  Theorem accept_complete_fueled n ti line :
    wf_crow ti -> clone_row O (S n) ti <> Fuel -> is_json_object line = true ->
    (exists row, get_row O parse_top_rv (S n) ti line = Ok row)
    \/ (exists e r0 r', clone_row O (S n) ti = Ok r0
                        /\ unmarshal_members O (S n) (line_members line) r0 = (r', Err e)
                        /\ get_row O parse_top_rv (S n) ti line = Err e).
  Proof.
    intros Hti Hc Hobj. destruct (accept_complete (S n) ti line Hti Hobj) as [H|H]; [|exact H].
    contradiction (get_row_fuel n ti line Hc H).
  Qed.

  (* the hypotheses are satisfiable: a template with one numeric column *)
  Example accept_hyps_example :
    let ti := with_col [97] FNumeric VNil new_template in
    wf_crow ti /\ clone_row O 2 ti <> Fuel.
  Proof.
    cbv zeta. split.
    - unfold with_col. rewrite set_value_store. apply wf_store; [apply wf_new_row | exact I].
    - unfold with_col, new_template, clone_row. cbn -[new_value].
      pose proof (nf_cast_to VNil rnil) as Hn. unfold new_value.
      destruct (cast_to O VNil rnil); cbn; try discriminate. contradiction Hn; reflexivity.
  Qed.

  (* ================= nothing partial ================= *)
  Context (jfloat : bool -> Z -> option str) (jother : Z -> option str).

  (* when GetRow fails the pipeline stops with the same outcome, which carries no bytes: nothing
     is written for the line *)
  Theorem no_partial n ti to line :
    (forall row, get_row O parse_top_rv n ti line <> Ok row) ->
    pipeline O encode_string parse_top_rv jfloat jother n ti to line
    = match get_row O parse_top_rv n ti line with Ok _ => Fuel | Err e => Err e | Panic => Panic | Fuel => Fuel end
    /\ forall out, pipeline O encode_string parse_top_rv jfloat jother n ti to line <> Ok out.
  Proof.
    intros H. unfold pipeline. destruct (get_row O parse_top_rv n ti line) as [row| | |]; cbn [bind].
    - contradiction (H row); reflexivity.
    - split; [reflexivity | discriminate].
    - split; [reflexivity | discriminate].
    - split; [reflexivity | discriminate].
  Qed.

  Theorem written_only_if_accepted n ti to line out :
    pipeline O encode_string parse_top_rv jfloat jother n ti to line = Ok out ->
    exists row, get_row O parse_top_rv n ti line = Ok row /\ snd (parse_top line) = true.
  Proof.
    unfold pipeline. destruct (get_row O parse_top_rv n ti line) as [row| | |] eqn:E; cbn [bind]; try discriminate.
    intros _. exists row. split; [reflexivity | eapply get_row_accepts; eauto].
  Qed.
End Accept.
