(* Shared tactics for proofs over the generated cast model: staged unfolding of the unrolled
   functions (F = F_5 = F_body F_4 ...), one level at a time, so that a call on a
   not-yet-known argument is never expanded more than one level. (File produced by a script
   from the list of cast function names; the translator emits the unrolled form for every
   ToX function, whether or not it calls itself.) *)
From Coq Require Import ZArith List Bool Lia.
From JL.std Require Import GoBase GoFloat GoStrconv GoTime GoVal GoBase64.
From JL.gen Require Import CastGen.
Open Scope Z_scope.

Ltac cast_unfold_top :=
  lazy beta iota zeta delta [To bind intToBytes int64ToBytes int32ToBytes int16ToBytes int8ToBytes uintToBytes
    uint64ToBytes uint32ToBytes uint16ToBytes uint8ToBytes float64ToBytes float32ToBytes boolToBytes intFromBytes
    int64FromBytes int32FromBytes int16FromBytes int8FromBytes uintFromBytes uint64FromBytes uint32FromBytes uint16FromBytes
    uint8FromBytes float64FromBytes float32FromBytes boolFromBytes reflect_bytearray ToBinary ToFloat64 ToBool
    ToFloat32 ToInt ToInt16 ToInt32 ToInt64 ToInt8 ToNumber ToString
    ToTime ToUint ToUint16 ToUint32 ToUint64 ToUint8 ToDate ToTimestamp
    ToBinary_body ToFloat64_body ToBool_body ToFloat32_body ToInt_body ToInt16_body ToInt32_body ToInt64_body
    ToInt8_body ToNumber_body ToString_body ToTime_body ToUint_body ToUint16_body ToUint32_body ToUint64_body
    ToUint8_body ToDate_body ToTimestamp_body ToBinary_5 ToFloat64_5 ToBool_5 ToFloat32_5 ToInt_5
    ToInt16_5 ToInt32_5 ToInt64_5 ToInt8_5 ToNumber_5 ToString_5 ToTime_5 ToUint_5
    ToUint16_5 ToUint32_5 ToUint64_5 ToUint8_5 ToDate_5 ToTimestamp_5].

Ltac cast_unfold_top_in H :=
  lazy beta iota zeta delta [To bind intToBytes int64ToBytes int32ToBytes int16ToBytes int8ToBytes uintToBytes
    uint64ToBytes uint32ToBytes uint16ToBytes uint8ToBytes float64ToBytes float32ToBytes boolToBytes intFromBytes
    int64FromBytes int32FromBytes int16FromBytes int8FromBytes uintFromBytes uint64FromBytes uint32FromBytes uint16FromBytes
    uint8FromBytes float64FromBytes float32FromBytes boolFromBytes reflect_bytearray ToBinary ToFloat64 ToBool
    ToFloat32 ToInt ToInt16 ToInt32 ToInt64 ToInt8 ToNumber ToString
    ToTime ToUint ToUint16 ToUint32 ToUint64 ToUint8 ToDate ToTimestamp
    ToBinary_body ToFloat64_body ToBool_body ToFloat32_body ToInt_body ToInt16_body ToInt32_body ToInt64_body
    ToInt8_body ToNumber_body ToString_body ToTime_body ToUint_body ToUint16_body ToUint32_body ToUint64_body
    ToUint8_body ToDate_body ToTimestamp_body ToBinary_5 ToFloat64_5 ToBool_5 ToFloat32_5 ToInt_5
    ToInt16_5 ToInt32_5 ToInt64_5 ToInt8_5 ToNumber_5 ToString_5 ToTime_5 ToUint_5
    ToUint16_5 ToUint32_5 ToUint64_5 ToUint8_5 ToDate_5 ToTimestamp_5] in H.

Ltac cast_unfold_4 :=
  lazy beta iota zeta delta [To bind intToBytes int64ToBytes int32ToBytes int16ToBytes int8ToBytes uintToBytes
    uint64ToBytes uint32ToBytes uint16ToBytes uint8ToBytes float64ToBytes float32ToBytes boolToBytes intFromBytes
    int64FromBytes int32FromBytes int16FromBytes int8FromBytes uintFromBytes uint64FromBytes uint32FromBytes uint16FromBytes
    uint8FromBytes float64FromBytes float32FromBytes boolFromBytes reflect_bytearray ToBinary ToFloat64 ToBool
    ToFloat32 ToInt ToInt16 ToInt32 ToInt64 ToInt8 ToNumber ToString
    ToTime ToUint ToUint16 ToUint32 ToUint64 ToUint8 ToDate ToTimestamp
    ToBinary_body ToFloat64_body ToBool_body ToFloat32_body ToInt_body ToInt16_body ToInt32_body ToInt64_body
    ToInt8_body ToNumber_body ToString_body ToTime_body ToUint_body ToUint16_body ToUint32_body ToUint64_body
    ToUint8_body ToDate_body ToTimestamp_body ToBinary_5 ToFloat64_5 ToBool_5 ToFloat32_5 ToInt_5
    ToInt16_5 ToInt32_5 ToInt64_5 ToInt8_5 ToNumber_5 ToString_5 ToTime_5 ToUint_5
    ToUint16_5 ToUint32_5 ToUint64_5 ToUint8_5 ToDate_5 ToTimestamp_5 ToBinary_4 ToFloat64_4
    ToBool_4 ToFloat32_4 ToInt_4 ToInt16_4 ToInt32_4 ToInt64_4 ToInt8_4 ToNumber_4
    ToString_4 ToTime_4 ToUint_4 ToUint16_4 ToUint32_4 ToUint64_4 ToUint8_4 ToDate_4
    ToTimestamp_4].

Ltac cast_unfold_4_in H :=
  lazy beta iota zeta delta [To bind intToBytes int64ToBytes int32ToBytes int16ToBytes int8ToBytes uintToBytes
    uint64ToBytes uint32ToBytes uint16ToBytes uint8ToBytes float64ToBytes float32ToBytes boolToBytes intFromBytes
    int64FromBytes int32FromBytes int16FromBytes int8FromBytes uintFromBytes uint64FromBytes uint32FromBytes uint16FromBytes
    uint8FromBytes float64FromBytes float32FromBytes boolFromBytes reflect_bytearray ToBinary ToFloat64 ToBool
    ToFloat32 ToInt ToInt16 ToInt32 ToInt64 ToInt8 ToNumber ToString
    ToTime ToUint ToUint16 ToUint32 ToUint64 ToUint8 ToDate ToTimestamp
    ToBinary_body ToFloat64_body ToBool_body ToFloat32_body ToInt_body ToInt16_body ToInt32_body ToInt64_body
    ToInt8_body ToNumber_body ToString_body ToTime_body ToUint_body ToUint16_body ToUint32_body ToUint64_body
    ToUint8_body ToDate_body ToTimestamp_body ToBinary_5 ToFloat64_5 ToBool_5 ToFloat32_5 ToInt_5
    ToInt16_5 ToInt32_5 ToInt64_5 ToInt8_5 ToNumber_5 ToString_5 ToTime_5 ToUint_5
    ToUint16_5 ToUint32_5 ToUint64_5 ToUint8_5 ToDate_5 ToTimestamp_5 ToBinary_4 ToFloat64_4
    ToBool_4 ToFloat32_4 ToInt_4 ToInt16_4 ToInt32_4 ToInt64_4 ToInt8_4 ToNumber_4
    ToString_4 ToTime_4 ToUint_4 ToUint16_4 ToUint32_4 ToUint64_4 ToUint8_4 ToDate_4
    ToTimestamp_4] in H.

Ltac cast_unfold_3 :=
  lazy beta iota zeta delta [To bind intToBytes int64ToBytes int32ToBytes int16ToBytes int8ToBytes uintToBytes
    uint64ToBytes uint32ToBytes uint16ToBytes uint8ToBytes float64ToBytes float32ToBytes boolToBytes intFromBytes
    int64FromBytes int32FromBytes int16FromBytes int8FromBytes uintFromBytes uint64FromBytes uint32FromBytes uint16FromBytes
    uint8FromBytes float64FromBytes float32FromBytes boolFromBytes reflect_bytearray ToBinary ToFloat64 ToBool
    ToFloat32 ToInt ToInt16 ToInt32 ToInt64 ToInt8 ToNumber ToString
    ToTime ToUint ToUint16 ToUint32 ToUint64 ToUint8 ToDate ToTimestamp
    ToBinary_body ToFloat64_body ToBool_body ToFloat32_body ToInt_body ToInt16_body ToInt32_body ToInt64_body
    ToInt8_body ToNumber_body ToString_body ToTime_body ToUint_body ToUint16_body ToUint32_body ToUint64_body
    ToUint8_body ToDate_body ToTimestamp_body ToBinary_5 ToFloat64_5 ToBool_5 ToFloat32_5 ToInt_5
    ToInt16_5 ToInt32_5 ToInt64_5 ToInt8_5 ToNumber_5 ToString_5 ToTime_5 ToUint_5
    ToUint16_5 ToUint32_5 ToUint64_5 ToUint8_5 ToDate_5 ToTimestamp_5 ToBinary_3 ToFloat64_3
    ToBool_3 ToFloat32_3 ToInt_3 ToInt16_3 ToInt32_3 ToInt64_3 ToInt8_3 ToNumber_3
    ToString_3 ToTime_3 ToUint_3 ToUint16_3 ToUint32_3 ToUint64_3 ToUint8_3 ToDate_3
    ToTimestamp_3].

Ltac cast_unfold_3_in H :=
  lazy beta iota zeta delta [To bind intToBytes int64ToBytes int32ToBytes int16ToBytes int8ToBytes uintToBytes
    uint64ToBytes uint32ToBytes uint16ToBytes uint8ToBytes float64ToBytes float32ToBytes boolToBytes intFromBytes
    int64FromBytes int32FromBytes int16FromBytes int8FromBytes uintFromBytes uint64FromBytes uint32FromBytes uint16FromBytes
    uint8FromBytes float64FromBytes float32FromBytes boolFromBytes reflect_bytearray ToBinary ToFloat64 ToBool
    ToFloat32 ToInt ToInt16 ToInt32 ToInt64 ToInt8 ToNumber ToString
    ToTime ToUint ToUint16 ToUint32 ToUint64 ToUint8 ToDate ToTimestamp
    ToBinary_body ToFloat64_body ToBool_body ToFloat32_body ToInt_body ToInt16_body ToInt32_body ToInt64_body
    ToInt8_body ToNumber_body ToString_body ToTime_body ToUint_body ToUint16_body ToUint32_body ToUint64_body
    ToUint8_body ToDate_body ToTimestamp_body ToBinary_5 ToFloat64_5 ToBool_5 ToFloat32_5 ToInt_5
    ToInt16_5 ToInt32_5 ToInt64_5 ToInt8_5 ToNumber_5 ToString_5 ToTime_5 ToUint_5
    ToUint16_5 ToUint32_5 ToUint64_5 ToUint8_5 ToDate_5 ToTimestamp_5 ToBinary_3 ToFloat64_3
    ToBool_3 ToFloat32_3 ToInt_3 ToInt16_3 ToInt32_3 ToInt64_3 ToInt8_3 ToNumber_3
    ToString_3 ToTime_3 ToUint_3 ToUint16_3 ToUint32_3 ToUint64_3 ToUint8_3 ToDate_3
    ToTimestamp_3] in H.

Ltac cast_unfold_2 :=
  lazy beta iota zeta delta [To bind intToBytes int64ToBytes int32ToBytes int16ToBytes int8ToBytes uintToBytes
    uint64ToBytes uint32ToBytes uint16ToBytes uint8ToBytes float64ToBytes float32ToBytes boolToBytes intFromBytes
    int64FromBytes int32FromBytes int16FromBytes int8FromBytes uintFromBytes uint64FromBytes uint32FromBytes uint16FromBytes
    uint8FromBytes float64FromBytes float32FromBytes boolFromBytes reflect_bytearray ToBinary ToFloat64 ToBool
    ToFloat32 ToInt ToInt16 ToInt32 ToInt64 ToInt8 ToNumber ToString
    ToTime ToUint ToUint16 ToUint32 ToUint64 ToUint8 ToDate ToTimestamp
    ToBinary_body ToFloat64_body ToBool_body ToFloat32_body ToInt_body ToInt16_body ToInt32_body ToInt64_body
    ToInt8_body ToNumber_body ToString_body ToTime_body ToUint_body ToUint16_body ToUint32_body ToUint64_body
    ToUint8_body ToDate_body ToTimestamp_body ToBinary_5 ToFloat64_5 ToBool_5 ToFloat32_5 ToInt_5
    ToInt16_5 ToInt32_5 ToInt64_5 ToInt8_5 ToNumber_5 ToString_5 ToTime_5 ToUint_5
    ToUint16_5 ToUint32_5 ToUint64_5 ToUint8_5 ToDate_5 ToTimestamp_5 ToBinary_2 ToFloat64_2
    ToBool_2 ToFloat32_2 ToInt_2 ToInt16_2 ToInt32_2 ToInt64_2 ToInt8_2 ToNumber_2
    ToString_2 ToTime_2 ToUint_2 ToUint16_2 ToUint32_2 ToUint64_2 ToUint8_2 ToDate_2
    ToTimestamp_2].

Ltac cast_unfold_2_in H :=
  lazy beta iota zeta delta [To bind intToBytes int64ToBytes int32ToBytes int16ToBytes int8ToBytes uintToBytes
    uint64ToBytes uint32ToBytes uint16ToBytes uint8ToBytes float64ToBytes float32ToBytes boolToBytes intFromBytes
    int64FromBytes int32FromBytes int16FromBytes int8FromBytes uintFromBytes uint64FromBytes uint32FromBytes uint16FromBytes
    uint8FromBytes float64FromBytes float32FromBytes boolFromBytes reflect_bytearray ToBinary ToFloat64 ToBool
    ToFloat32 ToInt ToInt16 ToInt32 ToInt64 ToInt8 ToNumber ToString
    ToTime ToUint ToUint16 ToUint32 ToUint64 ToUint8 ToDate ToTimestamp
    ToBinary_body ToFloat64_body ToBool_body ToFloat32_body ToInt_body ToInt16_body ToInt32_body ToInt64_body
    ToInt8_body ToNumber_body ToString_body ToTime_body ToUint_body ToUint16_body ToUint32_body ToUint64_body
    ToUint8_body ToDate_body ToTimestamp_body ToBinary_5 ToFloat64_5 ToBool_5 ToFloat32_5 ToInt_5
    ToInt16_5 ToInt32_5 ToInt64_5 ToInt8_5 ToNumber_5 ToString_5 ToTime_5 ToUint_5
    ToUint16_5 ToUint32_5 ToUint64_5 ToUint8_5 ToDate_5 ToTimestamp_5 ToBinary_2 ToFloat64_2
    ToBool_2 ToFloat32_2 ToInt_2 ToInt16_2 ToInt32_2 ToInt64_2 ToInt8_2 ToNumber_2
    ToString_2 ToTime_2 ToUint_2 ToUint16_2 ToUint32_2 ToUint64_2 ToUint8_2 ToDate_2
    ToTimestamp_2] in H.

Ltac cast_unfold_1 :=
  lazy beta iota zeta delta [To bind intToBytes int64ToBytes int32ToBytes int16ToBytes int8ToBytes uintToBytes
    uint64ToBytes uint32ToBytes uint16ToBytes uint8ToBytes float64ToBytes float32ToBytes boolToBytes intFromBytes
    int64FromBytes int32FromBytes int16FromBytes int8FromBytes uintFromBytes uint64FromBytes uint32FromBytes uint16FromBytes
    uint8FromBytes float64FromBytes float32FromBytes boolFromBytes reflect_bytearray ToBinary ToFloat64 ToBool
    ToFloat32 ToInt ToInt16 ToInt32 ToInt64 ToInt8 ToNumber ToString
    ToTime ToUint ToUint16 ToUint32 ToUint64 ToUint8 ToDate ToTimestamp
    ToBinary_body ToFloat64_body ToBool_body ToFloat32_body ToInt_body ToInt16_body ToInt32_body ToInt64_body
    ToInt8_body ToNumber_body ToString_body ToTime_body ToUint_body ToUint16_body ToUint32_body ToUint64_body
    ToUint8_body ToDate_body ToTimestamp_body ToBinary_5 ToFloat64_5 ToBool_5 ToFloat32_5 ToInt_5
    ToInt16_5 ToInt32_5 ToInt64_5 ToInt8_5 ToNumber_5 ToString_5 ToTime_5 ToUint_5
    ToUint16_5 ToUint32_5 ToUint64_5 ToUint8_5 ToDate_5 ToTimestamp_5 ToBinary_1 ToFloat64_1
    ToBool_1 ToFloat32_1 ToInt_1 ToInt16_1 ToInt32_1 ToInt64_1 ToInt8_1 ToNumber_1
    ToString_1 ToTime_1 ToUint_1 ToUint16_1 ToUint32_1 ToUint64_1 ToUint8_1 ToDate_1
    ToTimestamp_1].

Ltac cast_unfold_1_in H :=
  lazy beta iota zeta delta [To bind intToBytes int64ToBytes int32ToBytes int16ToBytes int8ToBytes uintToBytes
    uint64ToBytes uint32ToBytes uint16ToBytes uint8ToBytes float64ToBytes float32ToBytes boolToBytes intFromBytes
    int64FromBytes int32FromBytes int16FromBytes int8FromBytes uintFromBytes uint64FromBytes uint32FromBytes uint16FromBytes
    uint8FromBytes float64FromBytes float32FromBytes boolFromBytes reflect_bytearray ToBinary ToFloat64 ToBool
    ToFloat32 ToInt ToInt16 ToInt32 ToInt64 ToInt8 ToNumber ToString
    ToTime ToUint ToUint16 ToUint32 ToUint64 ToUint8 ToDate ToTimestamp
    ToBinary_body ToFloat64_body ToBool_body ToFloat32_body ToInt_body ToInt16_body ToInt32_body ToInt64_body
    ToInt8_body ToNumber_body ToString_body ToTime_body ToUint_body ToUint16_body ToUint32_body ToUint64_body
    ToUint8_body ToDate_body ToTimestamp_body ToBinary_5 ToFloat64_5 ToBool_5 ToFloat32_5 ToInt_5
    ToInt16_5 ToInt32_5 ToInt64_5 ToInt8_5 ToNumber_5 ToString_5 ToTime_5 ToUint_5
    ToUint16_5 ToUint32_5 ToUint64_5 ToUint8_5 ToDate_5 ToTimestamp_5 ToBinary_1 ToFloat64_1
    ToBool_1 ToFloat32_1 ToInt_1 ToInt16_1 ToInt32_1 ToInt64_1 ToInt8_1 ToNumber_1
    ToString_1 ToTime_1 ToUint_1 ToUint16_1 ToUint32_1 ToUint64_1 ToUint8_1 ToDate_1
    ToTimestamp_1] in H.

Ltac cast_unfold_0 :=
  lazy beta iota zeta delta [To bind intToBytes int64ToBytes int32ToBytes int16ToBytes int8ToBytes uintToBytes
    uint64ToBytes uint32ToBytes uint16ToBytes uint8ToBytes float64ToBytes float32ToBytes boolToBytes intFromBytes
    int64FromBytes int32FromBytes int16FromBytes int8FromBytes uintFromBytes uint64FromBytes uint32FromBytes uint16FromBytes
    uint8FromBytes float64FromBytes float32FromBytes boolFromBytes reflect_bytearray ToBinary ToFloat64 ToBool
    ToFloat32 ToInt ToInt16 ToInt32 ToInt64 ToInt8 ToNumber ToString
    ToTime ToUint ToUint16 ToUint32 ToUint64 ToUint8 ToDate ToTimestamp
    ToBinary_body ToFloat64_body ToBool_body ToFloat32_body ToInt_body ToInt16_body ToInt32_body ToInt64_body
    ToInt8_body ToNumber_body ToString_body ToTime_body ToUint_body ToUint16_body ToUint32_body ToUint64_body
    ToUint8_body ToDate_body ToTimestamp_body ToBinary_5 ToFloat64_5 ToBool_5 ToFloat32_5 ToInt_5
    ToInt16_5 ToInt32_5 ToInt64_5 ToInt8_5 ToNumber_5 ToString_5 ToTime_5 ToUint_5
    ToUint16_5 ToUint32_5 ToUint64_5 ToUint8_5 ToDate_5 ToTimestamp_5 ToBinary_0 ToFloat64_0
    ToBool_0 ToFloat32_0 ToInt_0 ToInt16_0 ToInt32_0 ToInt64_0 ToInt8_0 ToNumber_0
    ToString_0 ToTime_0 ToUint_0 ToUint16_0 ToUint32_0 ToUint64_0 ToUint8_0 ToDate_0
    ToTimestamp_0].

Ltac cast_unfold_0_in H :=
  lazy beta iota zeta delta [To bind intToBytes int64ToBytes int32ToBytes int16ToBytes int8ToBytes uintToBytes
    uint64ToBytes uint32ToBytes uint16ToBytes uint8ToBytes float64ToBytes float32ToBytes boolToBytes intFromBytes
    int64FromBytes int32FromBytes int16FromBytes int8FromBytes uintFromBytes uint64FromBytes uint32FromBytes uint16FromBytes
    uint8FromBytes float64FromBytes float32FromBytes boolFromBytes reflect_bytearray ToBinary ToFloat64 ToBool
    ToFloat32 ToInt ToInt16 ToInt32 ToInt64 ToInt8 ToNumber ToString
    ToTime ToUint ToUint16 ToUint32 ToUint64 ToUint8 ToDate ToTimestamp
    ToBinary_body ToFloat64_body ToBool_body ToFloat32_body ToInt_body ToInt16_body ToInt32_body ToInt64_body
    ToInt8_body ToNumber_body ToString_body ToTime_body ToUint_body ToUint16_body ToUint32_body ToUint64_body
    ToUint8_body ToDate_body ToTimestamp_body ToBinary_5 ToFloat64_5 ToBool_5 ToFloat32_5 ToInt_5
    ToInt16_5 ToInt32_5 ToInt64_5 ToInt8_5 ToNumber_5 ToString_5 ToTime_5 ToUint_5
    ToUint16_5 ToUint32_5 ToUint64_5 ToUint8_5 ToDate_5 ToTimestamp_5 ToBinary_0 ToFloat64_0
    ToBool_0 ToFloat32_0 ToInt_0 ToInt16_0 ToInt32_0 ToInt64_0 ToInt8_0 ToNumber_0
    ToString_0 ToTime_0 ToUint_0 ToUint16_0 ToUint32_0 ToUint64_0 ToUint8_0 ToDate_0
    ToTimestamp_0] in H.

(* succeeds when x mentions none of the still-folded levels F_0 .. F_4 *)
Ltac cast_no_levels x :=
  let x' := eval cbv delta [ToBinary_0 ToFloat64_0 ToBool_0 ToFloat32_0 ToInt_0 ToInt16_0 ToInt32_0 ToInt64_0
    ToInt8_0 ToNumber_0 ToString_0 ToTime_0 ToUint_0 ToUint16_0 ToUint32_0 ToUint64_0
    ToUint8_0 ToDate_0 ToTimestamp_0 ToBinary_1 ToFloat64_1 ToBool_1 ToFloat32_1 ToInt_1
    ToInt16_1 ToInt32_1 ToInt64_1 ToInt8_1 ToNumber_1 ToString_1 ToTime_1 ToUint_1
    ToUint16_1 ToUint32_1 ToUint64_1 ToUint8_1 ToDate_1 ToTimestamp_1 ToBinary_2 ToFloat64_2
    ToBool_2 ToFloat32_2 ToInt_2 ToInt16_2 ToInt32_2 ToInt64_2 ToInt8_2 ToNumber_2
    ToString_2 ToTime_2 ToUint_2 ToUint16_2 ToUint32_2 ToUint64_2 ToUint8_2 ToDate_2
    ToTimestamp_2 ToBinary_3 ToFloat64_3 ToBool_3 ToFloat32_3 ToInt_3 ToInt16_3 ToInt32_3
    ToInt64_3 ToInt8_3 ToNumber_3 ToString_3 ToTime_3 ToUint_3 ToUint16_3 ToUint32_3
    ToUint64_3 ToUint8_3 ToDate_3 ToTimestamp_3 ToBinary_4 ToFloat64_4 ToBool_4 ToFloat32_4
    ToInt_4 ToInt16_4 ToInt32_4 ToInt64_4 ToInt8_4 ToNumber_4 ToString_4 ToTime_4
    ToUint_4 ToUint16_4 ToUint32_4 ToUint64_4 ToUint8_4 ToDate_4 ToTimestamp_4] in x in constr_eq x x'.
