(* Proofs about JL.model.StreamPull: pull mode is Stream with a tolerant processor (C07), and
   after the end nothing happens (C08).  Axiom-free. *)
From Coq Require Import ZArith List Bool Lia ZifyBool.
From JL.std Require Import GoBase GoScanner.
From JL.model Require Import Stream StreamPull.
From JL.proofs Require Import StreamProofs.
Import ListNotations.
Open Scope Z_scope.

(* ================================================================================== *)
(* Part 1 — any scanner: the loops                                                      *)

Section Loops.
  Variable R : Type.
  Variable get_row : str -> res R.
  Variable export_row : R -> res str.
  Variable Sc : Type.
  Variable s_scan : Sc -> option str * Sc.
  Variable s_err : Sc -> option serr.
  Variable wf : nat -> option Z.

  Notation importer := (importer Sc).
  Notation Import := (Import Sc s_scan s_err).
  Notation GetRow := (GetRow R get_row Sc s_err).
  Notation ReadOne := (ReadOne R get_row Sc s_scan s_err).
  Notation Export := (Export R export_row wf).
  Notation stream_loop := (stream_loop R get_row export_row Sc s_scan s_err wf).
  Notation stream_loop_st := (stream_loop_st R get_row export_row Sc s_scan s_err wf).
  Notation pull_loop := (pull_loop R get_row export_row Sc s_scan s_err wf).

  (* stream_loop_st is stream_loop plus the final importer *)
  Lemma stream_loop_st_forget : forall proc fuel i o,
    stream_loop proc fuel i o = (let '(r, _, o') := stream_loop_st proc fuel i o in (r, o')).
  Proof.
    intros proc. induction fuel as [|f IH]; intros i o; [reflexivity|].
    cbn [Stream.stream_loop StreamPull.stream_loop_st].
    destruct (Import i) as [more i1]. destruct more; cbn [negb]; [|reflexivity].
    destruct (GetRow i1) as [g i2]. destruct g as [r|e| |]; try reflexivity.
    - destruct (call proc o None) as [pe o1]. destruct pe as [x|]; [reflexivity|].
      destruct (Export o1 r) as [x o2]. destruct x as [|e| |]; try reflexivity.
      + apply IH.
      + destruct (call proc o2 (Some e)) as [pe2 o3]. destruct pe2 as [y|]; [reflexivity | apply IH].
    - destruct (call proc o (Some e)) as [pe o1]. destruct pe as [x|]; [reflexivity | apply IH].
  Qed.

  (* ---------------- C07: pull mode ---------------- *)

  Lemma call_tolerant o e : call NoFailureProcessor o e = (None, note o e).
  Proof. reflexivity. Qed.

  (* For every importer state, observer state (numbers of processor and Write calls so far, trace
     so far) and fuel: the hand-written ReadOne / Export loop does exactly what Stream does with
     NoFailureProcessor — same result, same final importer, same events in the same order with the
     same classes, buffers and accepted byte counts, same counters. *)
  Theorem pull_is_stream_loop : forall fuel i o,
    pull_loop fuel i o = stream_loop_st NoFailureProcessor fuel i o.
  Proof.
    induction fuel as [|f IH]; intros i o; [reflexivity|].
    cbn [StreamPull.pull_loop StreamPull.stream_loop_st]. unfold Stream.ReadOne.
    destruct (Import i) as [more i1]. destruct more; cbn [negb]; [|reflexivity].
    destruct (GetRow i1) as [g i2]. destruct g as [r|e| |]; try reflexivity.
    - rewrite call_tolerant. cbv iota beta.
      destruct (Export (note o None) r) as [x o2]. destruct x as [|e| |]; try reflexivity.
      + apply IH.
      + rewrite call_tolerant. cbv iota beta. apply IH.
    - rewrite call_tolerant. cbv iota beta. apply IH.
  Qed.

  Corollary pull_is_stream_loop_obs : forall fuel i o,
    stream_loop NoFailureProcessor fuel i o = (let '(r, _, o') := pull_loop fuel i o in (r, o')).
  Proof. intros. rewrite pull_is_stream_loop. apply stream_loop_st_forget. Qed.

  Lemma stream_fuel_observe proc fuel sc :
    stream_fuel R get_row export_row Sc s_scan s_err wf proc fuel sc =
    observe Sc (stream_loop_st proc fuel (NewImporter Sc sc) ost0).
  Proof.
    unfold stream_fuel, observe. rewrite stream_loop_st_forget.
    destruct (stream_loop_st proc fuel (NewImporter Sc sc) ost0) as [[r i'] o']. reflexivity.
  Qed.

  Lemma pull_fuel_is_stream_fuel fuel sc :
    pull_fuel R get_row export_row Sc s_scan s_err wf fuel sc =
    stream_fuel R get_row export_row Sc s_scan s_err wf NoFailureProcessor fuel sc.
  Proof. unfold pull_fuel. rewrite pull_is_stream_loop, stream_fuel_observe. reflexivity. Qed.

  (* ---------------- C08: the end ---------------- *)

  (* the importer is at its end: Import() says false and leaves it as it is *)
  Definition at_end (i : importer) : Prop := Import i = (false, i).

  (* what the end looks like: no token, and a scanner error, if any, has been handed over *)
  Lemma at_end_shape i : at_end i ->
    i_tok i = [] /\ (s_err (i_sc i) <> None -> i_failed i = true).
  Proof.
    unfold at_end, Stream.Import. destruct i as [sc tok fl]. cbn [i_sc i_tok i_failed].
    destruct (s_scan sc) as [t sc'] eqn:ES. destruct t as [tk|]; [discriminate|].
    destruct (s_err sc') as [e|] eqn:EE.
    - destruct fl; intros H; inversion H; subst. auto.
    - intros H; inversion H; subst. split; [reflexivity|]. congruence.
  Qed.

  (* the outcome of the empty token *)
  Definition empty_row : grres R :=
    match get_row [] with
    | Ok r => GrOk r
    | Err s => GrErr (EcImport s)
    | Panic => GrPanic
    | Fuel => GrFuel
    end.

  (* At the end, for ever: Import() = false, ReadOne() = (nil, nil), a further run of the streamer
     — with any processor — or of the pull loop returns at once without any event, and nothing
     changes; GetRow() gives the scanner's error once more if there is one, else what the empty
     token gives (Scanner.Bytes() is empty after a Scan() that returned false). *)
  Theorem at_end_nothing : forall i, at_end i ->
    Import i = (false, i) /\
    ReadOne i = (None, i) /\
    (forall proc f o, stream_loop_st proc (S f) i o = (ROk, i, o)) /\
    (forall proc f o, stream_loop proc (S f) i o = (ROk, o)) /\
    (forall f o, pull_loop (S f) i o = (ROk, i, o)) /\
    GetRow i = (match s_err (i_sc i) with
                | Some e => GrErr (eclass_of_serr e)
                | None => empty_row
                end, i).
  Proof.
    intros i He. pose proof He as HI. unfold at_end in HI.
    assert (H3 : forall proc f o, stream_loop_st proc (S f) i o = (ROk, i, o)).
    { intros. cbn [StreamPull.stream_loop_st]. rewrite HI. reflexivity. }
    split; [exact HI|]. split; [unfold Stream.ReadOne; rewrite HI; reflexivity|].
    split; [exact H3|].
    split; [intros; rewrite stream_loop_st_forget, H3; reflexivity|].
    split; [intros; rewrite pull_is_stream_loop; apply H3|].
    destruct (at_end_shape i He) as [Ht Hf].
    unfold Stream.GetRow, empty_row. destruct (s_err (i_sc i)) as [e|] eqn:EE.
    - f_equal. destruct i as [sc tok fl]. cbn [i_sc i_tok i_failed] in *.
      rewrite Hf by congruence. reflexivity.
    - rewrite Ht. destruct (get_row []); reflexivity.
  Qed.

  (* the observer's counters never decrease *)
  Lemma Export_calls o r x o2 : Export o r = (x, o2) -> o_calls o2 = o_calls o.
  Proof.
    unfold Stream.Export, write. destruct (export_row r) as [b|s| |]; try (intros H; inversion H; reflexivity).
    destruct (wf (o_writes o)); intros H; inversion H; reflexivity.
  Qed.

  Lemma stream_loop_st_calls : forall proc fuel i o r i' o',
    stream_loop_st proc fuel i o = (r, i', o') -> (o_calls o <= o_calls o')%nat.
  Proof.
    intros proc. induction fuel as [|f IH]; intros i o r i' o' H.
    - inversion H; subst. lia.
    - cbn [StreamPull.stream_loop_st] in H.
      destruct (Import i) as [more i1]. destruct more; cbn [negb] in H; [|inversion H; subst; lia].
      destruct (GetRow i1) as [g i2]. destruct g as [row|e| |]; try (inversion H; subst; lia).
      + unfold call in H. destruct (proc (o_calls o) None) as [x|]; [inversion H; subst; cbn; lia|].
        destruct (Export _ row) as [x o2] eqn:EX. apply Export_calls in EX. cbn [o_calls] in EX.
        destruct x as [|e| |]; try (inversion H; subst; lia).
        * apply IH in H. lia.
        * destruct (proc (o_calls o2) (Some e)) as [y|]; [inversion H; subst; cbn; lia|].
          apply IH in H. cbn [o_calls] in H. lia.
      + unfold call in H. destruct (proc (o_calls o) (Some e)) as [x|]; [inversion H; subst; cbn; lia|].
        apply IH in H. cbn [o_calls] in H. lia.
  Qed.

  (* Exactly when a (further) run does nothing: when Import() says false.  If it says true, the
     run calls the processor at least once (or the model gives up before: panic / fuel). *)
  Theorem run_does_nothing_iff : forall proc f i o,
    (fst (Import i) = false -> stream_loop_st proc (S f) i o = (ROk, snd (Import i), o)) /\
    (fst (Import i) = true -> forall r i' o', stream_loop_st proc (S f) i o = (r, i', o') ->
       r = RPanic \/ r = RFuel \/ (o_calls o < o_calls o')%nat).
  Proof.
    intros proc f i o. cbn [StreamPull.stream_loop_st].
    destruct (Import i) as [more i1]. cbn [fst snd]. split; intros Hm; subst more; cbn [negb]; [reflexivity|].
    intros r i' o' H.
    destruct (GetRow i1) as [g i2]. destruct g as [row|e| |]; try (inversion H; subst; auto).
    - right. right. clear H1. unfold call in H.
      destruct (proc (o_calls o) None) as [x|]; [inversion H; subst; cbn; lia|].
      destruct (Export _ row) as [x o2] eqn:EX. apply Export_calls in EX. cbn [o_calls] in EX.
      destruct x as [|e| |]; try (inversion H; subst; lia).
      + apply stream_loop_st_calls in H. lia.
      + destruct (proc (o_calls o2) (Some e)) as [y|]; [inversion H; subst; cbn; lia|].
        apply stream_loop_st_calls in H. cbn [o_calls] in H. lia.
    - right. right. clear H1. unfold call in H.
      destruct (proc (o_calls o) (Some e)) as [x|]; [inversion H; subst; cbn; lia|].
      apply stream_loop_st_calls in H. cbn [o_calls] in H. lia.
  Qed.

  (* ---------------- scanners that settle ---------------- *)

  (* What the theorem about the end needs from Scanner.Scan() / Scanner.Err(), on a set [good] of
     scanner states closed under Scan():
       - Err() is sticky: once non-nil it stays non-nil;
       - a Scan() that returns false leaves the scanner dead (every further Scan() returns false
         and changes nothing), provided Err() is nil afterwards (end of input) or was non-nil
         already before.  The proviso is the one exception of bufio.Scanner: the Scan() that FAILS
         with ErrTooLong returns false and leaves the bytes of the over-long line in the buffer; the
         next Scan() hands them out as one more token (GoScanner.scan, case Stopped). *)
  Definition scanner_settles (good : Sc -> Prop) : Prop :=
    (forall sc, good sc -> good (snd (s_scan sc))) /\
    (forall sc, good sc -> s_err sc <> None -> s_err (snd (s_scan sc)) <> None) /\
    (forall sc sc', good sc -> s_scan sc = (None, sc') ->
                    s_err sc' = None \/ s_err sc <> None -> s_scan sc' = (None, sc')).

  Section Settles.
    Variable good : Sc -> Prop.
    Hypothesis Hsettles : scanner_settles good.

    (* importer states the theorem is about: the `failed` flag is set only when the scanner has an
       error (true of NewImporter, kept by Import and GetRow) *)
    Definition imp_good (i : importer) : Prop :=
      good (i_sc i) /\ (i_failed i = true -> s_err (i_sc i) <> None).

    Lemma NewImporter_good sc : good sc -> imp_good (NewImporter Sc sc).
    Proof. intros H. split; [exact H | cbn; discriminate]. Qed.

    Lemma Import_good i : imp_good i -> imp_good (snd (Import i)).
    Proof.
      destruct Hsettles as (Hc & Hs & _). intros [Hg Hf]. unfold Stream.Import.
      specialize (Hc _ Hg). specialize (Hs _ Hg).
      destruct (s_scan (i_sc i)) as [t sc']. cbn [snd] in Hc, Hs.
      destruct t as [tk|].
      - split; cbn [snd i_sc i_failed]; auto.
      - destruct (s_err sc') as [e|] eqn:EE.
        + destruct (i_failed i); (split; cbn [snd i_sc i_failed]; [exact Hc | intros _; congruence]).
        + split; cbn [snd i_sc i_failed]; [exact Hc|]. intros Hfl. exfalso. apply (Hs (Hf Hfl)). reflexivity.
    Qed.

    Lemma GetRow_good i : imp_good i -> imp_good (snd (GetRow i)).
    Proof.
      intros [Hg Hf]. unfold Stream.GetRow. destruct (s_err (i_sc i)) as [e|] eqn:EE.
      - split; cbn [snd i_sc i_failed]; [exact Hg | intros _; congruence].
      - destruct (get_row (i_tok i)); (split; cbn [snd]; [exact Hg | intros Hfl; exfalso; apply (Hf Hfl); reflexivity]).
    Qed.

    (* the Import() that says false leaves the importer at its end *)
    Lemma Import_false_at_end i i' : imp_good i -> Import i = (false, i') -> at_end i'.
    Proof.
      destruct Hsettles as (_ & _ & Hd). intros [Hg Hf]. unfold at_end, Stream.Import.
      destruct (s_scan (i_sc i)) as [t sc'] eqn:ES. destruct t as [tk|]; [discriminate|].
      destruct (s_err sc') as [e|] eqn:EE.
      - destruct (i_failed i) eqn:EF; intros H; inversion H; subst i'. cbn [i_sc i_failed].
        rewrite (Hd _ _ Hg ES (or_intror (Hf eq_refl))), EE. reflexivity.
      - intros H; inversion H; subst i'. cbn [i_sc i_failed].
        rewrite (Hd _ _ Hg ES (or_introl EE)), EE. reflexivity.
    Qed.

    (* A run of the streamer that returned nil — whatever the processor, the writer's faults and
       the fuel — stopped with the importer at its end. *)
    Theorem stream_ok_at_end : forall proc fuel i o r i' o',
      imp_good i -> stream_loop_st proc fuel i o = (r, i', o') ->
      imp_good i' /\ (r = ROk -> at_end i').
    Proof.
      intros proc. induction fuel as [|f IH]; intros i o r i' o' Hg H.
      - inversion H; subst. split; [exact Hg | discriminate].
      - cbn [StreamPull.stream_loop_st] in H.
        pose proof (Import_good i Hg) as Hg1. pose proof (Import_false_at_end i) as He.
        destruct (Import i) as [more i1]. cbn [snd] in Hg1.
        destruct more; cbn [negb] in H.
        2:{ inversion H; subst. split; [exact Hg1 | intros _; apply He; auto]. }
        pose proof (GetRow_good i1 Hg1) as Hg2.
        destruct (GetRow i1) as [g i2]. cbn [snd] in Hg2.
        destruct g as [row|e| |]; try (inversion H; subst; split; [exact Hg2 | discriminate]).
        + destruct (call proc o None) as [pe o1].
          destruct pe as [x|]; [inversion H; subst; split; [exact Hg2 | discriminate]|].
          destruct (Export o1 row) as [x o2].
          destruct x as [|e| |]; try (inversion H; subst; split; [exact Hg2 | discriminate]).
          * eapply IH; eauto.
          * destruct (call proc o2 (Some e)) as [pe2 o3].
            destruct pe2 as [y|]; [inversion H; subst; split; [exact Hg2 | discriminate]|].
            eapply IH; eauto.
        + destruct (call proc o (Some e)) as [pe o1].
          destruct pe as [x|]; [inversion H; subst; split; [exact Hg2 | discriminate]|].
          eapply IH; eauto.
    Qed.
    (* ---- a run the processor stopped ---- *)

    (* When the processor returns an error the run stops where it is: in general input remains and
       a further run goes on with it (Example ex_stopped_early_goes_on).  One case is an end all
       the same: the processor stopped the run ON THE READER'S FAILURE.  That needs one more fact
       about the scanner: with the reader's error in Err() the scanner is dead (no buffered bytes
       are left to hand out) — true of bufio.Scanner for every error but ErrTooLong, after which
       the buffered bytes come out as one more token, so that the error is delivered a second time
       (Example ex_too_long_fatal_twice). *)
    Hypothesis Hfinal : forall sc e, good sc -> s_err sc = Some e -> e <> STooLong -> s_scan sc = (None, sc).

    Lemma GetRow_read_fault i1 i2 :
      imp_good i1 -> GetRow i1 = (GrErr EcRead, i2) -> exists i3, Import i2 = (false, i3) /\ at_end i3.
    Proof.
      intros [Hg Hf]. unfold Stream.GetRow. destruct (s_err (i_sc i1)) as [e|] eqn:EE.
      - intros H. injection H as He Hi. subst i2.
        assert (Hne : e <> STooLong) by (destruct e; cbn in He; congruence).
        pose proof (Hfinal _ _ Hg EE Hne) as Hd.
        exists (mkimp (i_sc i1) [] true). unfold at_end, Stream.Import. cbn [i_sc i_failed].
        rewrite Hd, EE. auto.
      - destruct (get_row (i_tok i1)); intros H; inversion H.
    Qed.

    Lemma Export_err_class o r e o2 : Export o r = (XErr e, o2) -> e <> EcRead.
    Proof.
      unfold Stream.Export, write. destruct (export_row r) as [b|s| |]; try (intros H; inversion H; discriminate).
      destruct (wf (o_writes o)); intros H; inversion H; discriminate.
    Qed.

    Theorem stream_fatal_read_at_end : forall proc fuel i o x i' o' tl,
      imp_good i -> stream_loop_st proc fuel i o = (RErr x, i', o') ->
      o_trace o' = EvCall (Some EcRead) :: tl ->
      exists i'', Import i' = (false, i'') /\ at_end i''.
    Proof.
      intros proc. induction fuel as [|f IH]; intros i o x i' o' tl Hg H Htr; [inversion H|].
      cbn [StreamPull.stream_loop_st] in H.
      pose proof (Import_good i Hg) as Hg1.
      destruct (Import i) as [more i1]. cbn [snd] in Hg1.
      destruct more; cbn [negb] in H; [|inversion H].
      pose proof (GetRow_good i1 Hg1) as Hg2. pose proof (GetRow_read_fault i1) as Hrf.
      destruct (GetRow i1) as [g i2]. cbn [snd] in Hg2.
      destruct g as [row|e| |]; try (inversion H; fail).
      - unfold call in H. destruct (proc (o_calls o) None) as [y|].
        { inversion H; subst. cbn [o_trace] in Htr. inversion Htr. }
        destruct (Export _ row) as [xr o2] eqn:EX.
        destruct xr as [|e| |]; try (inversion H; fail).
        + eapply IH; eauto.
        + destruct (proc (o_calls o2) (Some e)) as [y|].
          * inversion H; subst. cbn [o_trace] in Htr. inversion Htr; subst.
            exfalso. eapply Export_err_class; eauto.
          * eapply IH; eauto.
      - unfold call in H. destruct (proc (o_calls o) (Some e)) as [y|].
        + inversion H; subst. cbn [o_trace] in Htr. inversion Htr; subst. apply (Hrf i'); auto.
        + eapply IH; eauto.
    Qed.
  End Settles.
End Loops.

Arguments at_end {Sc}.
Arguments imp_good {Sc}.
Arguments scanner_settles {Sc}.

(* ================================================================================== *)
(* Part 2 — the two scanner models settle                                              *)

Lemma scan_none_dead C sc sc' :
  scan C sc = (None, sc') -> sc_err sc' = None \/ sc_err sc <> None -> exists e, sc' = Stopped [] e.
Proof.
  destruct sc as [d k|b e]; cbn [scan sc_err].
  - destruct (span d C k) as [l rest k'|w|w e].
    + discriminate.
    + intros H [Hn|Hn]; [|congruence]. inversion H; subst. cbn in Hn. discriminate.
    + destruct w; [|discriminate]. intros H _. inversion H. eauto.
  - destruct (scan_lines b true) as [[tok rest]|]; [discriminate|]. intros H _. inversion H. eauto.
Qed.

Lemma scan_dead C e : scan C (Stopped [] e) = (None, Stopped [] e).
Proof. reflexivity. Qed.

Lemma scan_sticky C sc : sc_err sc <> None -> sc_err (snd (scan C sc)) <> None.
Proof.
  destruct sc as [d k|b e]; cbn [scan sc_err]; [congruence|].
  destruct (scan_lines b true) as [[tok rest]|]; cbn [snd sc_err]; auto.
Qed.

(* in the scanner specification the reader's error leaves nothing in the buffer *)
Definition fault_drained (sc : sstate) : Prop :=
  match sc with Stopped b SRead => b = [] | _ => True end.

Lemma scan_drained C sc : fault_drained sc -> fault_drained (snd (scan C sc)).
Proof.
  destruct sc as [d k|b e]; cbn [scan fault_drained].
  - intros _. destruct (span d C k) as [l rest k'|w|w e]; cbn [snd fault_drained]; auto.
    destruct w; cbn [snd fault_drained]; destruct e; auto.
  - destruct e; intros H; try (destruct (scan_lines b true) as [[tok rest]|]; exact I).
    subst b. reflexivity.
Qed.

Theorem scan_settles C : scanner_settles (scan C) sc_err fault_drained.
Proof.
  split; [|split].
  - intros sc. apply scan_drained.
  - intros sc _. apply scan_sticky.
  - intros sc sc' _ Hs Hor. destruct (scan_none_dead _ _ _ Hs Hor) as [e ->]. apply scan_dead.
Qed.

Lemma scan_fault_final C : forall sc e,
  fault_drained sc -> sc_err sc = Some e -> e <> STooLong -> scan C sc = (None, sc).
Proof.
  intros [d k|b e0] e Hd He Hne; cbn [sc_err] in He; [discriminate|].
  destruct e0; cbn [err_public] in He; inversion He; subst; [congruence|].
  cbn [fault_drained] in Hd. subst b. reflexivity.
Qed.

(* ---- the operational scanner, through the simulation of StreamProofs ---- *)

Definition cgood (C : Z) (c : cstate) : Prop := cinv C c /\ fault_drained (abs c).

Lemma cscan_dead C c e : c_err c = Some e -> c_buf c = [] -> cscan C c = (None, c).
Proof.
  destruct c as [buf rd k ch er st]. cbn [c_err c_buf]. intros -> ->.
  unfold cscan. cbn [c_rd]. replace (length rd + 3)%nat with (S (length rd + 2)) by lia.
  reflexivity.
Qed.

Lemma abs_stopped c b e : abs c = Stopped b e -> c_err c = Some e /\ c_buf c = b.
Proof. unfold abs. destruct (c_err c); intros H; inversion H; auto. Qed.

Theorem cscan_settles C : scanner_settles (cscan C) c_public_err (cgood C).
Proof.
  split; [|split].
  - intros c [Hc Hd]. destruct (cscan C c) as [t c'] eqn:E.
    destruct (cscan_sim _ _ _ _ Hc E) as [Hs Hc']. cbn [snd]. split; [exact Hc'|].
    pose proof (scan_drained C (abs c) Hd) as H. rewrite Hs in H. exact H.
  - intros c [Hc _] He. destruct (cscan C c) as [t c'] eqn:E.
    destruct (cscan_sim _ _ _ _ Hc E) as [Hs _]. cbn [snd].
    rewrite c_public_err_abs in *. pose proof (scan_sticky C (abs c) He) as H. rewrite Hs in H. exact H.
  - intros c c' [Hc _] E Hor. destruct (cscan_sim _ _ _ _ Hc E) as [Hs _].
    rewrite !c_public_err_abs in Hor. destruct (scan_none_dead _ _ _ Hs Hor) as [e He].
    destruct (abs_stopped _ _ _ He). eapply cscan_dead; eauto.
Qed.

Lemma cscan_fault_final C : forall c e,
  cgood C c -> c_public_err c = Some e -> e <> STooLong -> cscan C c = (None, c).
Proof.
  intros c e [_ Hd] He Hne. rewrite c_public_err_abs in He.
  destruct (abs c) as [d k|b e0] eqn:EA; cbn [sc_err] in He; [discriminate|].
  destruct e0; cbn [err_public] in He; inversion He; subst; [congruence|].
  cbn [fault_drained] in Hd. subst b. destruct (abs_stopped _ _ _ EA). eapply cscan_dead; eauto.
Qed.

Lemma c_init_good C s k chunks :
  match k with Some x => 0 <= x | None => True end -> cgood C (c_init s k chunks).
Proof.
  intros Hk. split.
  - unfold cinv, c_init. cbn. split; [reflexivity|]. intros _. split; [lia | exact Hk].
  - unfold abs, c_init. cbn. exact I.
Qed.

(* ================================================================================== *)
(* Part 3 — whole runs                                                                 *)

Section Runs.
  Variable R : Type.
  Variable get_row : str -> res R.
  Variable export_row : R -> res str.

  (* StreamSt / StreamChunkedSt are Stream / StreamChunked plus the state the run stopped in *)
  Theorem StreamSt_observe wf proc C s k :
    observe sstate (StreamSt R get_row export_row wf proc C s k) = Stream R get_row export_row wf proc C s k.
  Proof. unfold Stream, StreamSt. rewrite stream_fuel_observe. reflexivity. Qed.

  Theorem StreamChunkedSt_observe wf proc C s k chunks :
    observe cstate (StreamChunkedSt R get_row export_row wf proc C s k chunks)
    = StreamChunked R get_row export_row wf proc C s k chunks.
  Proof. unfold StreamChunked, StreamChunkedSt. rewrite stream_fuel_observe. reflexivity. Qed.

  (* ---------------- C07 ---------------- *)

  Theorem Pull_is_Stream wf C s k :
    Pull R get_row export_row wf C s k = Stream R get_row export_row wf NoFailureProcessor C s k.
  Proof. apply pull_fuel_is_stream_fuel. Qed.

  Theorem PullChunked_is_StreamChunked wf C s k chunks :
    PullChunked R get_row export_row wf C s k chunks
    = StreamChunked R get_row export_row wf NoFailureProcessor C s k chunks.
  Proof. apply pull_fuel_is_stream_fuel. Qed.

  Corollary PullChunked_is_Stream wf C s k chunks :
    match k with Some x => 0 <= x | None => True end ->
    PullChunked R get_row export_row wf C s k chunks
    = Stream R get_row export_row wf NoFailureProcessor C s k.
  Proof. intros Hk. rewrite PullChunked_is_StreamChunked. apply chunking. exact Hk. Qed.

  (* ---------------- C08 ---------------- *)

  Theorem StreamSt_ok_at_end wf proc C s k i' o' :
    StreamSt R get_row export_row wf proc C s k = (ROk, i', o') -> at_end (scan C) sc_err i'.
  Proof.
    intros H.
    eapply (stream_ok_at_end R get_row export_row _ _ _ wf _ (scan_settles C)) in H.
    - destruct H as [_ H]. auto.
    - apply NewImporter_good. exact I.
  Qed.

  Theorem StreamChunkedSt_ok_at_end wf proc C s k chunks i' o' :
    match k with Some x => 0 <= x | None => True end ->
    StreamChunkedSt R get_row export_row wf proc C s k chunks = (ROk, i', o') ->
    at_end (cscan C) c_public_err i'.
  Proof.
    intros Hk H.
    eapply (stream_ok_at_end R get_row export_row _ _ _ wf _ (cscan_settles C)) in H.
    - destruct H as [_ H]. auto.
    - apply NewImporter_good. apply c_init_good. exact Hk.
  Qed.

  Theorem StreamSt_fatal_read_at_end wf proc C s k x i' o' tl :
    StreamSt R get_row export_row wf proc C s k = (RErr x, i', o') ->
    o_trace o' = EvCall (Some EcRead) :: tl ->
    exists i'', Import sstate (scan C) sc_err i' = (false, i'') /\ at_end (scan C) sc_err i''.
  Proof.
    intros H Htr.
    eapply (stream_fatal_read_at_end R get_row export_row _ _ _ wf _ (scan_settles C) (scan_fault_final C)); eauto.
    apply NewImporter_good. exact I.
  Qed.

  Theorem StreamChunkedSt_fatal_read_at_end wf proc C s k chunks x i' o' tl :
    match k with Some x => 0 <= x | None => True end ->
    StreamChunkedSt R get_row export_row wf proc C s k chunks = (RErr x, i', o') ->
    o_trace o' = EvCall (Some EcRead) :: tl ->
    exists i'', Import cstate (cscan C) c_public_err i' = (false, i'') /\ at_end (cscan C) c_public_err i''.
  Proof.
    intros Hk H Htr.
    eapply (stream_fatal_read_at_end R get_row export_row _ _ _ wf _ (cscan_settles C) (cscan_fault_final C)); eauto.
    apply NewImporter_good. apply c_init_good. exact Hk.
  Qed.
End Runs.

(* ================================================================================== *)
(* Part 4 — the statements of props/C07.v and props/C08.v                              *)

(* "nothing after the end", for an importer i: every way of asking for more finds nothing, does
   nothing and changes nothing — with any writer, any processor, any observer state *)
Definition nothing_after (R : Type) (get_row : str -> res R) (export_row : R -> res str)
           (Sc : Type) (s_scan : Sc -> option str * Sc) (s_err : Sc -> option serr) (i : importer Sc) : Prop :=
  Import Sc s_scan s_err i = (false, i) /\
  ReadOne R get_row Sc s_scan s_err i = (None, i) /\
  (forall wf2 proc2 f o2,
     stream_loop_st R get_row export_row Sc s_scan s_err wf2 proc2 (S f) i o2 = (ROk, i, o2)) /\
  (forall wf2 proc2 f o2,
     stream_loop R get_row export_row Sc s_scan s_err wf2 proc2 (S f) i o2 = (ROk, o2)) /\
  (forall wf2 f o2,
     pull_loop R get_row export_row Sc s_scan s_err wf2 (S f) i o2 = (ROk, i, o2)) /\
  GetRow R get_row Sc s_err i =
    (match s_err (i_sc i) with
     | Some e => GrErr (eclass_of_serr e)
     | None => match get_row [] with
               | Ok r => GrOk r
               | Err s => GrErr (EcImport s)
               | Panic => GrPanic
               | Fuel => GrFuel
               end
     end, i).

Lemma at_end_nothing_after R get_row export_row Sc s_scan s_err i :
  at_end s_scan s_err i -> nothing_after R get_row export_row Sc s_scan s_err i.
Proof.
  intros He. unfold nothing_after.
  split; [exact He|].
  split; [apply (at_end_nothing R get_row export_row Sc s_scan s_err (fun _ => None) i He)|].
  split; [intros wf2; apply (at_end_nothing R get_row export_row Sc s_scan s_err wf2 i He)|].
  split; [intros wf2; apply (at_end_nothing R get_row export_row Sc s_scan s_err wf2 i He)|].
  split; [intros wf2; apply (at_end_nothing R get_row export_row Sc s_scan s_err wf2 i He)|].
  apply (at_end_nothing R get_row export_row Sc s_scan s_err (fun _ => None) i He).
Qed.

Theorem nothing_after_the_end :
  forall (R : Type) (get_row : str -> res R) (export_row : R -> res str)
         (Sc : Type) (s_scan : Sc -> option str * Sc) (s_err : Sc -> option serr) (good : Sc -> Prop)
         (wf : nat -> option Z) (proc : nat -> option eclass -> option eclass)
         (fuel : nat) (i : importer Sc) (o : ost) (i' : importer Sc) (o' : ost),
  (forall sc, good sc -> good (snd (s_scan sc))) ->
  (forall sc, good sc -> s_err sc <> None -> s_err (snd (s_scan sc)) <> None) ->
  (forall sc sc', good sc -> s_scan sc = (None, sc') ->
                  s_err sc' = None \/ s_err sc <> None -> s_scan sc' = (None, sc')) ->
  good (i_sc i) -> (i_failed i = true -> s_err (i_sc i) <> None) ->
  stream_loop_st R get_row export_row Sc s_scan s_err wf proc fuel i o = (ROk, i', o') ->
  nothing_after R get_row export_row Sc s_scan s_err i'.
Proof.
  intros R get_row export_row Sc s_scan s_err good wf proc fuel i o i' o' H1 H2 H3 Hg Hf H.
  apply at_end_nothing_after.
  eapply (stream_ok_at_end R get_row export_row Sc s_scan s_err wf good (conj H1 (conj H2 H3))) in H.
  - destruct H as [_ H]. auto.
  - split; assumption.
Qed.

Theorem nothing_after_the_end_run :
  forall (R : Type) (get_row : str -> res R) (export_row : R -> res str)
         (wf : nat -> option Z) (proc : nat -> option eclass -> option eclass)
         (C : Z) (s : str) (k : option Z) (evs : list event),
  Stream R get_row export_row wf proc C s k = (ROk, evs) ->
  exists i' o',
    StreamSt R get_row export_row wf proc C s k = (ROk, i', o') /\ rev (o_trace o') = evs /\
    nothing_after R get_row export_row sstate (scan C) sc_err i'.
Proof.
  intros R get_row export_row wf proc C s k evs H.
  rewrite <- StreamSt_observe in H.
  destruct (StreamSt R get_row export_row wf proc C s k) as [[r i'] o'] eqn:E.
  cbn [observe] in H. inversion H; subst. exists i', o'.
  split; [reflexivity|]. split; [reflexivity|].
  apply at_end_nothing_after. eapply StreamSt_ok_at_end; eauto.
Qed.

Theorem nothing_after_the_end_run_chunked :
  forall (R : Type) (get_row : str -> res R) (export_row : R -> res str)
         (wf : nat -> option Z) (proc : nat -> option eclass -> option eclass)
         (C : Z) (s : str) (k : option Z) (chunks : list Z) (evs : list event),
  match k with Some x => 0 <= x | None => True end ->
  StreamChunked R get_row export_row wf proc C s k chunks = (ROk, evs) ->
  exists i' o',
    StreamChunkedSt R get_row export_row wf proc C s k chunks = (ROk, i', o') /\ rev (o_trace o') = evs /\
    nothing_after R get_row export_row cstate (cscan C) c_public_err i'.
Proof.
  intros R get_row export_row wf proc C s k chunks evs Hk H.
  rewrite <- StreamChunkedSt_observe in H.
  destruct (StreamChunkedSt R get_row export_row wf proc C s k chunks) as [[r i'] o'] eqn:E.
  cbn [observe] in H. inversion H; subst. exists i', o'.
  split; [reflexivity|]. split; [reflexivity|].
  apply at_end_nothing_after. eapply StreamChunkedSt_ok_at_end; eauto.
Qed.

(* the processor stopped the run on the reader's failure: the next Import() says false, and that
   is the end *)
Theorem fatal_read_is_an_end_run :
  forall (R : Type) (get_row : str -> res R) (export_row : R -> res str)
         (wf : nat -> option Z) (proc : nat -> option eclass -> option eclass)
         (C : Z) (s : str) (k : option Z) (x : eclass) (evs : list event),
  Stream R get_row export_row wf proc C s k = (RErr x, evs ++ [EvCall (Some EcRead)]) ->
  exists i' o' i'',
    StreamSt R get_row export_row wf proc C s k = (RErr x, i', o') /\
    rev (o_trace o') = evs ++ [EvCall (Some EcRead)] /\
    Import sstate (scan C) sc_err i' = (false, i'') /\
    (forall wf2 proc2 f o2,
       stream_loop_st R get_row export_row sstate (scan C) sc_err wf2 proc2 (S f) i' o2 = (ROk, i'', o2)) /\
    nothing_after R get_row export_row sstate (scan C) sc_err i''.
Proof.
  intros R get_row export_row wf proc C s k x evs H.
  rewrite <- StreamSt_observe in H.
  destruct (StreamSt R get_row export_row wf proc C s k) as [[r i'] o'] eqn:E.
  cbn [observe] in H. inversion H as [[Hr Htr]]. subst r.
  assert (Htr' : o_trace o' = EvCall (Some EcRead) :: rev evs).
  { rewrite <- (rev_involutive (o_trace o')), Htr, rev_app_distr. reflexivity. }
  destruct (StreamSt_fatal_read_at_end _ _ _ _ _ _ _ _ _ _ _ _ E Htr') as (i'' & HI & He).
  exists i', o', i''. split; [reflexivity|]. split; [reflexivity|]. split; [exact HI|].
  split; [|apply at_end_nothing_after; exact He].
  intros wf2 proc2 f o2.
  destruct (run_does_nothing_iff R get_row export_row sstate (scan C) sc_err wf2 proc2 f i' o2) as [Hn _].
  rewrite HI in Hn. apply Hn. reflexivity.
Qed.

(* ================================================================================== *)
(* Part 5 — examples                                                                   *)

Module PullExamples.
  Import StreamProofs.Examples.

  (* the second Write fails after 0 bytes *)
  Definition wf1 : nat -> option Z := fun j => if Nat.eqb j 1 then Some 0 else None.

  Notation loop_st := (stream_loop_st str ex_get ex_exp sstate (scan 8) sc_err).

  (* The processor (DefaultProcessor) stops the run on the rejected second line of
     "{}\n1\r\n\nx\n{}": input remains, and a second run of the same streamer goes on with the
     blank line, the line rejected on output and the last line; only then is it the end. *)
  Example ex_stopped_early_goes_on :
    let '(r, i', o') := StreamSt str ex_get ex_exp quiet_wf DefaultProcessor 8 ex_s None in
    r = RErr (EcImport ErrNoWrap) /\
    rev (o_trace o') = [EvCall None; EvWrite [123;125;10] 3; EvCall (Some (EcImport ErrNoWrap))] /\
    let '(r2, i2, o2) := loop_st quiet_wf NoFailureProcessor 10 i' ost0 in
    r2 = ROk /\
    rev (o_trace o2) = [EvCall None; EvWrite [10] 1;
                        EvCall None; EvCall (Some (EcExport ErrUnsupportedFormat));
                        EvCall None; EvWrite [123;125;10] 3] /\
    loop_st quiet_wf NoFailureProcessor 10 i2 o2 = (ROk, i2, o2).
  Proof. vm_compute. repeat split. Qed.

  (* An over-long line (C = 2) made fatal by the default processor: the next run delivers
     ErrTooLong ONCE MORE (the buffered bytes come out as one more token), the third run finds
     the end. *)
  Example ex_too_long_fatal_twice :
    let '(r, i', o') := StreamSt str ex_get ex_exp quiet_wf DefaultProcessor 2 ex_s None in
    r = RErr EcTooLong /\ rev (o_trace o') = [EvCall (Some EcTooLong)] /\
    let '(r2, i2, o2) := stream_loop_st str ex_get ex_exp sstate (scan 2) sc_err quiet_wf DefaultProcessor 10 i' ost0 in
    r2 = RErr EcTooLong /\ rev (o_trace o2) = [EvCall (Some EcTooLong)] /\
    let '(r3, i3, o3) := stream_loop_st str ex_get ex_exp sstate (scan 2) sc_err quiet_wf DefaultProcessor 10 i2 o2 in
    r3 = ROk /\ o3 = o2 /\
    stream_loop_st str ex_get ex_exp sstate (scan 2) sc_err quiet_wf DefaultProcessor 10 i3 o3 = (ROk, i3, o3).
  Proof. vm_compute. repeat split. Qed.

  (* the reader's failure made fatal (fault after 8 bytes, inside the fourth line): the next run
     ends at once *)
  Example ex_read_fault_fatal_is_end :
    let '(r, i', o') := StreamSt str ex_get ex_exp quiet_wf (fun _ e => match e with Some EcRead => Some EcRead | _ => None end) 8 ex_s (Some 8) in
    r = RErr EcRead /\
    rev (o_trace o') = [EvCall None; EvWrite [123;125;10] 3; EvCall (Some (EcImport ErrNoWrap));
                        EvCall None; EvWrite [10] 1; EvCall (Some EcRead)] /\
    let '(r2, i2, o2) := loop_st quiet_wf NoFailureProcessor 10 i' o' in
    r2 = ROk /\ o2 = o' /\ loop_st quiet_wf NoFailureProcessor 10 i2 o2 = (ROk, i2, o2).
  Proof. vm_compute. repeat split. Qed.
End PullExamples.
