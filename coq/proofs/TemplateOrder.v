(* C03 — templates fix key order and presence (top level): key list of a row created from a
   template, of a row filled from a text / a row, and the order in which row.MarshalJSON emits. *)
From Coq Require Import ZArith List Bool Lia.
From JL.std Require Import GoBase GoFloat GoStrconv GoTime GoVal.
From JL.gen Require Import CastGen ConvGen.
From JL.model Require Import CastRun Row RowRun Template.
From JL.proofs Require Import RowProofs.
Import ListNotations.
Open Scope Z_scope.

Definition mem (k : str) (l : list str) : bool := existsb (str_eqb k) l.

Lemma mem_In k l : mem k l = true <-> In k l.
Proof.
  unfold mem. rewrite existsb_exists. split.
  - intros [x [Hx E]]. apply str_eqb_eq in E. now subst.
  - intros H. exists k. split; auto. apply str_eqb_refl.
Qed.

(* pushing keys at the back of a key list, each at its first appearance only *)
Definition push_key (l : list str) (k : str) : list str := if mem k l then l else l ++ [k].
Definition push_all (l ks : list str) : list str := fold_left push_key ks l.

(* readable characterisation: the list itself, then the keys not in it, in order of first appearance *)
Fixpoint first_new (seen ks : list str) : list str :=
  match ks with
  | [] => []
  | k :: r => if mem k seen then first_new seen r else k :: first_new (seen ++ [k]) r
  end.

Lemma push_all_cons l k r : push_all l (k :: r) = push_all (push_key l k) r.
Proof. reflexivity. Qed.

Lemma push_all_first_new ks : forall l, push_all l ks = l ++ first_new l ks.
Proof.
  induction ks as [|k r IH]; intros l; [cbn; now rewrite app_nil_r|].
  rewrite push_all_cons, IH. cbn [first_new]. unfold push_key.
  destruct (mem k l) eqn:E; [reflexivity|]. now rewrite <- app_assoc.
Qed.

Lemma first_new_spec ks : forall seen k,
  In k (first_new seen ks) <-> In k ks /\ ~ In k seen.
Proof.
  induction ks as [|k0 r IH]; intros seen k; cbn; [tauto|].
  destruct (mem k0 seen) eqn:E.
  - rewrite IH. apply mem_In in E. split; [tauto|]. intros [[->|H] Hn]; [contradiction | tauto].
  - assert (Hn : ~ In k0 seen) by (rewrite <- mem_In; congruence).
    cbn. rewrite IH, in_app_iff. cbn. split.
    + intros [->|[H1 H2]]; [tauto|]. split; [tauto|]. tauto.
    + intros [[->|H] Hs]; [now left|]. destruct (list_eq_dec Z.eq_dec k0 k) as [->|Hd]; [now left|].
      right. split; auto. intros [H1|[H1|[]]]; auto.
Qed.

Lemma first_new_NoDup ks : forall seen, NoDup (first_new seen ks).
Proof.
  induction ks as [|k r IH]; intros seen; cbn; [constructor|].
  destruct (mem k seen); auto. constructor; auto.
  rewrite first_new_spec. intros [_ H]. apply H, in_or_app. right. now left.
Qed.

(* pushing keys that are all already there changes nothing; pushing is idempotent *)
Lemma push_all_subset ks : forall l, (forall k, In k ks -> In k l) -> push_all l ks = l.
Proof.
  induction ks as [|k r IH]; intros l H; [reflexivity|]. rewrite push_all_cons. unfold push_key.
  assert (E : mem k l = true) by (apply mem_In, H; now left). rewrite E. apply IH. intros; apply H; now right.
Qed.

Lemma push_all_In ks : forall l k, In k (push_all l ks) <-> In k l \/ In k ks.
Proof.
  intros l k. rewrite push_all_first_new, in_app_iff, first_new_spec.
  destruct (in_dec (list_eq_dec Z.eq_dec) k l); tauto.
Qed.

Lemma push_all_app l a b : push_all l (a ++ b) = push_all (push_all l a) b.
Proof. unfold push_all. apply fold_left_app. Qed.

Lemma push_all_idem l ks : push_all (push_all l ks) ks = push_all l ks.
Proof. apply push_all_subset. intros k H. apply push_all_In. now right. Qed.

Lemma first_new_id ks : forall seen, NoDup ks -> (forall k, In k ks -> ~ In k seen) -> first_new seen ks = ks.
Proof.
  induction ks as [|k r IH]; intros seen Hnd Hd; [reflexivity|]. cbn [first_new].
  inversion Hnd as [|? ? Hn Hnd']; subst.
  assert (E : mem k seen = false).
  { destruct (mem k seen) eqn:E; auto. apply mem_In in E. exfalso. eapply Hd; eauto. now left. }
  rewrite E. f_equal. apply IH; auto. intros k0 H0 Hs. apply in_app_iff in Hs as [Hs|[<-|[]]]; [|contradiction].
  eapply Hd; eauto. now right.
Qed.

Lemma push_all_twice l ks : push_all l (push_all l ks) = push_all l ks.
Proof.
  rewrite (push_all_first_new ks l), push_all_app, (push_all_subset l l) by auto.
  rewrite push_all_first_new. f_equal. apply first_new_id; [apply first_new_NoDup|].
  intros k H. now apply first_new_spec in H.
Qed.

(* the list of keys a store leaves, in terms of push_key *)
Lemma store_l_push k c r : Inv r -> row_l (store k c r) = push_key (row_l r) k.
Proof.
  intros [_ Hin]. rewrite store_l. unfold push_key, row_has.
  destruct (ahas k (row_m r)) eqn:E.
  - assert (H : mem k (row_l r) = true) by (apply mem_In, Hin, E). now rewrite H.
  - destruct (mem k (row_l r)) eqn:H; auto. apply mem_In, Hin in H. congruence.
Qed.

Section Order.
  Context (O : oracles).

  (* ---------- UnmarshalJSON: existing keys stay, new keys are pushed at first appearance ---------- *)
  Lemma unmarshal_members_l n ms : forall r r',
    Inv r -> unmarshal_members O n ms r = (r', Ok tt) ->
    Inv r' /\ row_l r' = push_all (row_l r) (map fst ms).
  Proof.
    induction ms as [|[k v] rest IH]; intros r r' Hi; cbn [unmarshal_members map fst].
    - intros [= <-]. split; auto.
    - destruct (alookup k (row_m r)) as [c0|] eqn:E.
      + destruct (cell_import O n c0 v) as [c' e]. destruct e as [[]| | |]; try discriminate.
        assert (Hh : row_has k r = true) by (unfold row_has, ahas; now rewrite E).
        rewrite (set_cell_existing k c' r Hh). intros H. apply IH in H; [|now apply Inv_store].
        destruct H as [H1 H2]. split; auto. rewrite H2, store_l_push by auto. reflexivity.
      + change (set_cell k (new_value_auto v) (push_if_absent k r)) with (store k (new_value_auto v) r).
        intros H. apply IH in H; [|now apply Inv_store].
        destruct H as [H1 H2]. split; auto. rewrite H2, store_l_push by auto. reflexivity.
  Qed.

  (* ---------- CreateRow(Row): the exporter's re-creation ---------- *)
  Lemma create_from_row_l n m2 l2 : forall r r',
    Inv r -> create_from_row O n m2 l2 r = Ok r' -> Inv r' /\ row_l r' = push_all (row_l r) l2.
  Proof.
    induction l2 as [|k rest IH]; intros r r' Hi; cbn [create_from_row].
    - intros [= <-]. split; auto.
    - destruct (alookup k m2) as [c2|]; [|discriminate].
      destruct (cell_raw n c2) as [raw| | |]; cbn [bind]; try discriminate.
      destruct (fill_cell O (get_value k r) raw) as [c| | |]; cbn [bind]; try discriminate.
      rewrite set_value_store. intros H. apply IH in H; [|now apply Inv_store].
      destruct H as [H1 H2]. split; auto. rewrite H2, store_l_push by auto. reflexivity.
  Qed.

  Lemma create_from_map_l kvs : forall r r',
    Inv r -> create_from_map O kvs r = Ok r' -> Inv r' /\ row_l r' = push_all (row_l r) (map fst kvs).
  Proof.
    induction kvs as [|[k x] rest IH]; intros r r' Hi; cbn [create_from_map map fst].
    - intros [= <-]. split; auto.
    - destruct (fill_cell O (get_value k r) x) as [c| | |]; cbn [bind]; try discriminate.
      rewrite set_value_store. intros H. apply IH in H; [|now apply Inv_store].
      destruct H as [H1 H2]. split; auto. rewrite H2, store_l_push by auto. reflexivity.
  Qed.

  (* ---------- formats: a filled cell keeps the format of its column; a new key is auto ---------- *)
  Lemma fill_cell_format target x c :
    fill_cell O target x = Ok c ->
    cell_format c = match target with Some t => cell_format t | None => FAuto end.
  Proof.
    unfold fill_cell. destruct target as [t|]; [|now intros [= <-]].
    destruct (cast_to O (cell_rawtype t) x); try discriminate.
    unfold new_value. destruct (cast_to O (cell_rawtype t) x); try discriminate; now intros [= <-].
  Qed.

  Definition fmt_of (r : crow) (k : str) : format :=
    match get_value k r with Some c => cell_format c | None => FAuto end.

  Lemma create_from_row_fmt n m2 l2 : forall r r' k,
    create_from_row O n m2 l2 r = Ok r' -> fmt_of r' k = fmt_of r k.
  Proof.
    induction l2 as [|k0 rest IH]; intros r r' k; cbn [create_from_row].
    - now intros [= <-].
    - destruct (alookup k0 m2) as [c2|]; [|discriminate].
      destruct (cell_raw n c2) as [raw| | |]; cbn [bind]; try discriminate.
      destruct (fill_cell O (get_value k0 r) raw) as [c| | |] eqn:Ef; cbn [bind]; try discriminate.
      rewrite set_value_store. intros H. rewrite (IH _ _ k H). unfold fmt_of.
      destruct (list_eq_dec Z.eq_dec k0 k) as [->|Hd].
      + rewrite get_store_same. apply fill_cell_format in Ef. rewrite Ef. destruct (get_value k r); reflexivity.
      + rewrite get_store_other by exact Hd. reflexivity.
  Qed.

  (* CloneRow keeps the format of every column *)
  Lemma clone_cells_fmt n m : forall l acc r' k,
    clone_cells O n m l acc = Ok r' -> NoDup l ->
    fmt_of r' k = if mem k l then match alookup k m with Some c => cell_format c | None => FAuto end else fmt_of acc k.
  Proof.
    induction l as [|k0 l IH]; intros acc r' k; cbn [clone_cells].
    - intros [= <-] _. reflexivity.
    - destruct (alookup k0 m) as [c|] eqn:E; [|discriminate].
      unfold clone_value. destruct (cell_raw n c) as [raw| | |]; cbn [bind]; try discriminate.
      unfold new_value. destruct (cast_to O (cell_rawtype c) raw) as [x|e| |]; cbn [bind]; try discriminate;
        intros H Hnd; inversion Hnd as [|? ? Hn Hnd']; subst;
        rewrite (IH _ _ k H Hnd'); cbn [mem existsb]; fold (mem k l);
        rewrite set_value_store; unfold fmt_of;
        (destruct (str_eqb k k0) eqn:Ek;
         [ apply str_eqb_eq in Ek; subst k0;
           assert (Hm : mem k l = false) by (destruct (mem k l) eqn:Hm; auto; apply mem_In in Hm; contradiction);
           rewrite Hm, get_store_same, E; reflexivity
         | cbn; destruct (mem k l); auto; rewrite get_store_other; auto; intros ->; now rewrite str_eqb_refl in Ek ]).
  Qed.

  Lemma clone_row_fmt n t r k : Inv t -> clone_row O n t = Ok r -> fmt_of r k = fmt_of t k.
  Proof.
    intros [Hnd Hin] H. unfold clone_row in H. rewrite (clone_cells_fmt _ _ _ _ _ k H Hnd).
    unfold fmt_of, get_value. destruct (mem k (row_l t)) eqn:E; [reflexivity|].
    cbn. destruct (alookup k (row_m t)) eqn:E2; auto.
    assert (In k (row_l t)) by (apply Hin; unfold ahas; now rewrite E2). apply mem_In in H0. congruence.
  Qed.

  (* ---------- the order in which row.MarshalJSON emits ---------- *)
  Context (enc_string : str -> str).

  Definition visible (r : crow) (k : str) : bool := negb (format_eqb (fmt_of r k) FHidden).

  Fixpoint zip_members (ks : list str) (vs : list str) : list str :=
    match ks, vs with
    | k :: ks', v :: vs' => (enc_string k ++ [58] ++ v) :: zip_members ks' vs'
    | _, _ => []
    end.

  Lemma marshal_row_members_order (rec : cell -> res str) m l0 : forall l ss,
    marshal_row_members enc_string rec m l = Ok ss ->
    exists vs, length vs = length (filter (visible (MkRow m l0)) l)
               /\ ss = zip_members (filter (visible (MkRow m l0)) l) vs.
  Proof.
    induction l as [|k l IH]; intros ss; cbn [marshal_row_members filter].
    - intros [= <-]. exists []. auto.
    - destruct (alookup k m) as [c|] eqn:E; [|discriminate].
      assert (Hv : visible (MkRow m l0) k = negb (format_eqb (cell_format c) FHidden)).
      { unfold visible, fmt_of, get_value. cbn [row_m]. now rewrite E. }
      rewrite Hv. destruct (format_eqb (cell_format c) FHidden); cbn [negb].
      + apply IH.
      + destruct (rec c) as [s| | |]; cbn [bind]; try discriminate.
        destruct (marshal_row_members enc_string rec m l) as [ss'| | |] eqn:E2; cbn [bind]; try discriminate.
        intros [= <-]. destruct (IH ss' eq_refl) as [vs [H1 H2]].
        exists (s :: vs). cbn. split; [now rewrite H1 | now rewrite H2].
  Qed.

  (* ---------- one line through importer and exporter ---------- *)
  Context (parse_top : str -> list (str * rv) * bool).
  Context (jfloat : bool -> Z -> option str) (jother : Z -> option str).

  Lemma bind_ok {A B} (x : res A) (f : A -> res B) y : bind x f = Ok y -> exists a, x = Ok a /\ f a = Ok y.
  Proof. destruct x; cbn; try discriminate. eauto. Qed.

  Lemma get_row_keys n ti line row :
    Inv ti -> get_row O parse_top n ti line = Ok row ->
    Inv row /\ row_l row = push_all (row_l ti) (map fst (fst (parse_top line)))
    /\ snd (parse_top line) = true.
  Proof.
    intros Hi H. unfold get_row in H. apply bind_ok in H as [r0 [Hc H]].
    apply clone_row_spec in Hc as [Hi0 Hl0]; auto.
    unfold unmarshal_text in H. destruct (parse_top line) as [ms ok] eqn:Ep. cbn [fst snd].
    unfold row_unmarshal in H. destruct (unmarshal_members O n ms r0) as [r1 e] eqn:Eu.
    destruct e as [[]| | |]; cbn in H; try discriminate.
    destruct ok; cbn in H; try discriminate. injection H as <-.
    apply unmarshal_members_l in Eu as [H1 H2]; auto. rewrite H2, Hl0. auto.
  Qed.

  Lemma export_row_keys n to row out :
    Inv to -> Inv row ->
    export_bytes O enc_string parse_top jfloat jother n to (RV (CRow row)) = Ok out ->
    exists vs,
      let keys := push_all (row_l to) (row_l row) in
      let emitted := filter (fun k => negb (format_eqb (fmt_of to k) FHidden)) keys in
      length vs = length emitted
      /\ out = [123] ++ join_with [44] (zip_members emitted vs) ++ [125] ++ [10].
  Proof.
    intros Hi Hr H. unfold export_bytes in H. apply bind_ok in H as [r2 [Hc H]].
    apply bind_ok in H as [b [Hm H]]. injection H as <-.
    unfold create_row in Hc. apply bind_ok in Hc as [c0 [Hc0 Hc]].
    destruct row as [m2 l2]. cbn [row_l].
    pose proof (clone_row_spec O n to c0 Hi Hc0) as [Hi0 Hl0].
    pose proof (create_from_row_l n m2 l2 c0 r2 Hi0 Hc) as [Hi2 Hl2].
    destruct n as [|n']; [discriminate|]. cbn [marshal_row] in Hm. destruct r2 as [m l].
    apply bind_ok in Hm as [ss [Hss Hm]]. injection Hm as <-.
    destruct (marshal_row_members_order (marshal_cell O enc_string jfloat jother n') m l l ss Hss) as [vs [H1 H2]].
    exists vs. cbn [row_l] in Hl2. cbv zeta.
    assert (Hf : forall k, visible (MkRow m l) k = negb (format_eqb (fmt_of to k) FHidden)).
    { intros k. unfold visible. rewrite (create_from_row_fmt _ _ _ _ _ k Hc), (clone_row_fmt _ _ _ k Hi Hc0). reflexivity. }
    rewrite (filter_ext _ _ Hf) in H1, H2. rewrite Hl2, Hl0 in H1, H2.
    split; [exact H1|]. rewrite H2. cbn [app]. f_equal. rewrite <- app_assoc. reflexivity.
  Qed.

  Theorem pipeline_order n ti to line out :
    Inv ti -> Inv to ->
    pipeline O enc_string parse_top jfloat jother n ti to line = Ok out ->
    exists vs,
      let keys := push_all (row_l to) (push_all (row_l ti) (map fst (fst (parse_top line)))) in
      let emitted := filter (fun k => negb (format_eqb (fmt_of to k) FHidden)) keys in
      length vs = length emitted
      /\ out = [123] ++ join_with [44] (zip_members emitted vs) ++ [125] ++ [10].
  Proof.
    intros Hti Hto H. unfold pipeline in H. apply bind_ok in H as [row [Hg He]].
    apply get_row_keys in Hg as [Hr [Hl _]]; auto.
    apply export_row_keys in He as [vs Hv]; auto. exists vs. cbv zeta in *. now rewrite <- Hl.
  Qed.

  (* one column list for both templates (what jl builds): declared columns first, in declaration
     order, then the undeclared keys of the line in order of first appearance *)
  Corollary pipeline_order_same_columns n ti to line out :
    Inv ti -> Inv to -> row_l ti = row_l to ->
    pipeline O enc_string parse_top jfloat jother n ti to line = Ok out ->
    exists vs,
      let keys := row_l to ++ first_new (row_l to) (map fst (fst (parse_top line))) in
      let emitted := filter (fun k => negb (format_eqb (fmt_of to k) FHidden)) keys in
      length vs = length emitted
      /\ out = [123] ++ join_with [44] (zip_members emitted vs) ++ [125] ++ [10].
  Proof.
    intros Hti Hto Hl H. destruct (pipeline_order n ti to line out Hti Hto H) as [vs Hv].
    exists vs. cbv zeta in *. rewrite Hl in Hv.
    rewrite push_all_twice, push_all_first_new in Hv. exact Hv.
  Qed.
End Order.
