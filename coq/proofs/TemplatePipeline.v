(* C03 / C04 over the whole path of a line: importer -> exporter, with the text layer of
   JL.std.GoJson plugged in (JL.model.TemplateJson). *)
From Coq Require Import ZArith List Bool Lia.
From JL.std Require Import GoBase GoFloat GoStrconv GoTime GoVal GoJson.
From JL.gen Require Import CastGen ConvGen.
From JL.model Require Import CastRun Row RowRun Template TemplateJson.
From JL.proofs Require Import RowProofs RowSafe TemplateOrder TemplateClass.
Import ListNotations.
Open Scope Z_scope.

Section Pipeline.
  Context (O : oracles) (jfloat : bool -> Z -> option str) (jother : Z -> option str).

  (* templates built with With / WithRow satisfy the row invariant and list their columns in
     declaration order (a name declared twice keeps its first position) *)
  Lemma with_col_Inv name f typ t : Inv t -> Inv (with_col name f typ t).
  Proof. intros H. unfold with_col. rewrite set_value_store. now apply Inv_store. Qed.

  Lemma with_col_l name f typ t : Inv t -> row_l (with_col name f typ t) = push_key (row_l t) name.
  Proof. intros H. unfold with_col. rewrite set_value_store. now apply store_l_push. Qed.

  Lemma with_row_Inv n name sub t t' : Inv t -> with_row O n name sub t = Ok t' -> Inv t' /\ row_l t' = push_key (row_l t) name.
  Proof.
    intros H. unfold with_row. destruct (create_row_empty O n sub); cbn; try discriminate.
    intros [= <-]. rewrite set_value_store. split; [now apply Inv_store | now apply store_l_push].
  Qed.

  (* the keys the importer's row lists: the input template's columns, then the undeclared keys of the line *)
  Theorem importer_keys n ti line row :
    Inv ti -> jl_get_row O n ti line = Ok row ->
    Inv row /\ row_l row = push_all (row_l ti) (map fst (fst (parse_top line))).
  Proof.
    intros Hi H. apply get_row_keys in H as [H1 [H2 _]]; auto. split; auto. rewrite H2.
    unfold parse_top_rv. destruct (parse_top line) as [ms ok]. cbn. now rewrite map_map.
  Qed.

  (* C03 at the top level and C04 for every declared column of the output template, for one line *)
  Theorem pipeline_members n ti to line out :
    Inv ti -> Inv to ->
    jl_pipeline O jfloat jother (S (S (S n))) ti to line = Ok out ->
    exists vs,
      let keys := push_all (row_l to) (push_all (row_l ti) (map fst (fst (parse_top line)))) in
      let emitted := filter (fun k => negb (format_eqb (fmt_of to k) FHidden)) keys in
      out = [123] ++ join_with [44] (map (fun kv => encode_string (fst kv) ++ [58] ++ snd kv) (combine emitted vs)) ++ [125] ++ [10]
      /\ Forall2 (fun k v => typed_format (fmt_of to k) = true ->
                             member_class O encode_string jfloat jother (fmt_of to k) v) emitted vs.
  Proof.
    intros Hti Hto H. unfold jl_pipeline, pipeline in H. apply bind_ok in H as [row [Hg He]].
    pose proof (importer_keys _ _ _ _ Hti Hg) as [Hr Hl].
    unfold export_bytes in He. apply bind_ok in He as [r2 [Hc He]].
    apply bind_ok in He as [b [Hm He]]. injection He as <-.
    unfold create_row in Hc. apply bind_ok in Hc as [c0 [Hc0 Hc]].
    destruct row as [m2 l2]. cbn [row_l] in Hl.
    pose proof (clone_row_spec O _ to c0 Hto Hc0) as [Hi0 Hl0].
    pose proof (create_from_row_l O _ m2 l2 c0 r2 Hi0 Hc) as [Hi2 Hl2].
    assert (Hcv : cvals r2).
    { eapply create_from_row_cvals; eauto. unfold clone_row in Hc0.
      eapply clone_cells_cvals; eauto. intros k c Hk. discriminate. }
    assert (Hf : forall k, fmt_of r2 k = fmt_of to k).
    { intros k. rewrite (create_from_row_fmt O _ _ _ _ _ k Hc). eapply clone_row_fmt; eauto. }
    destruct r2 as [m l]. rewrite marshal_row_S in Hm.
    destruct (marshal_row_members encode_string (marshal_cell O encode_string jfloat jother (S (S n))) m l) as [ss| | |] eqn:E;
      cbn [bind] in Hm; try discriminate. injection Hm as <-.
    destruct (marshal_row_members_vals encode_string _ _ _ _ E) as [vs [H1 H2]].
    assert (Hfilt : forall k, (match alookup k m with Some c => negb (format_eqb (cell_format c) FHidden) | None => false end)
                              = (if mem k l then negb (format_eqb (fmt_of to k) FHidden) else false)).
    { intros k. rewrite <- Hf. unfold fmt_of, get_value. cbn [row_m].
      destruct (alookup k m) eqn:Ek.
      - assert (In k l) by (apply (proj2 Hi2 k); unfold ahas; cbn; now rewrite Ek). apply mem_In in H. now rewrite H.
      - destruct (mem k l) eqn:Hm; auto. apply mem_In in Hm. apply (proj2 Hi2 k) in Hm. unfold ahas in Hm. cbn in Hm. now rewrite Ek in Hm. }
    assert (Hfl : filter (fun k => match alookup k m with Some c => negb (format_eqb (cell_format c) FHidden) | None => false end) l
                  = filter (fun k => negb (format_eqb (fmt_of to k) FHidden)) l).
    { apply filter_ext_in. intros k Hk. rewrite Hfilt. apply mem_In in Hk. now rewrite Hk. }
    rewrite Hfl in H1, H2. cbn [row_l] in Hl2. rewrite Hl2, Hl0, Hl in H1, H2.
    exists vs. cbv zeta. split.
    - rewrite H2. cbn [app]. f_equal. rewrite <- app_assoc. reflexivity.
    - eapply Forall2_weaken; [|exact H1]. intros k v [c [Hk Hv]] Ht.
      destruct (Hcv k c) as [raw [f [t ->]]]; [unfold get_value; exact Hk|].
      assert (Hfk : fmt_of to k = f).
      { rewrite <- Hf. unfold fmt_of, get_value. cbn [row_m]. now rewrite Hk. }
      rewrite Hfk in *. eapply cell_text_class; eauto.
  Qed.

  (* the input order of declared keys never matters: only the undeclared keys of the line, in
     order of first appearance, are added after the declared columns *)
  Lemma first_new_filter_sub S ks : forall S',
    (forall x, mem x S = true -> mem x S' = true) ->
    first_new S' ks = first_new S' (filter (fun k => negb (mem k S)) ks).
  Proof.
    induction ks as [|x r IH]; intros S' Hsub; [reflexivity|]. cbn [filter].
    destruct (mem x S) eqn:Ex; cbn [negb].
    - cbn [first_new]. rewrite (Hsub x Ex). apply IH, Hsub.
    - cbn [first_new]. destruct (mem x S') eqn:Ex'; [apply IH, Hsub|]. f_equal. apply IH.
      intros y Hy. apply mem_In. apply in_or_app. left. apply mem_In. now apply Hsub.
  Qed.

  Lemma first_new_filter seen ks : first_new seen ks = first_new seen (filter (fun k => negb (mem k seen)) ks).
  Proof. apply first_new_filter_sub. auto. Qed.

  Theorem declared_order_irrelevant l ks1 ks2 :
    filter (fun k => negb (mem k l)) ks1 = filter (fun k => negb (mem k l)) ks2 ->
    push_all l ks1 = push_all l ks2.
  Proof. intros H. rewrite !push_all_first_new, (first_new_filter l ks1), (first_new_filter l ks2), H. reflexivity. Qed.

  (* an object found under an undeclared key or an auto column keeps its member order:
     the row the reader builds lists the members in order of first appearance *)
  Lemma obj_row_fold ms : forall r, Inv r ->
    let r' := fold_left (fun r kv => set_cell (fst kv) (CVal (snd kv) FAuto VNil) (push_if_absent (fst kv) r)) ms r in
    Inv r' /\ row_l r' = push_all (row_l r) (map fst ms).
  Proof.
    induction ms as [|[k v] rest IH]; intros r Hr; [split; auto|]. cbv zeta. cbn [fold_left map fst snd].
    change (set_cell k (CVal v FAuto VNil) (push_if_absent k r)) with (store k (CVal v FAuto VNil) r).
    destruct (IH (store k (CVal v FAuto VNil) r) (Inv_store _ _ _ Hr)) as [H1 H2]. split; [exact H1|].
    rewrite H2, store_l_push by auto. reflexivity.
  Qed.

  Lemma obj_row_l ms : Inv (obj_row ms) /\ row_l (obj_row ms) = push_all [] (map fst ms).
  Proof. apply (obj_row_fold ms new_row Inv_new). Qed.
End Pipeline.
