(* C19 — jl behaves as the library does; file and inline templates are equivalent. *)
From Coq Require Import ZArith List Bool Lia.
From JL.std Require Import GoBase GoFloat GoStrconv GoTime GoVal GoJson GoScanner.
From JL.gen Require Import CastGen ConvGen.
From JL.model Require Import CastRun Row RowRun Template TemplateJson Jl Stream.
From JL.proofs Require Import RowProofs TemplateOrder StreamProofs.
Import ListNotations.
Open Scope Z_scope.

(* ---------- strings ---------- *)
Lemma take_until_no c s : ~ In c s -> take_until c s = (s, []).
Proof.
  induction s as [|x r IH]; cbn; [reflexivity|]. intros H.
  destruct (x =? c) eqn:E; [apply Z.eqb_eq in E; subst; exfalso; apply H; now left|].
  rewrite IH by (intros H'; apply H; now right). reflexivity.
Qed.

Lemma take_until_app c a b : ~ In c a -> take_until c (a ++ c :: b) = (a, c :: b).
Proof.
  induction a as [|x r IH]; cbn; intros H; [now rewrite Z.eqb_refl|].
  destruct (x =? c) eqn:E; [apply Z.eqb_eq in E; subst; exfalso; apply H; now left|].
  rewrite IH by (intros H'; apply H; now right). reflexivity.
Qed.

Lemma split_colon_join a b : ~ In 58 a -> split_colon (a ++ 58 :: b) = (a, Some b).
Proof. intros H. unfold split_colon. now rewrite take_until_app. Qed.

(* ---------- the inline form of a column list ---------- *)
(* well-formed column lists: the common domain of the two forms (DESIGN.md section 9, C19):
   unique names at each level, no ':' in an input descriptor, sub-lists well formed *)
Fixpoint names (cols : list coldef) : list str :=
  match cols with [] => [] | Col n _ _ _ :: r => n :: names r end.

(* one column (and, recursively, its sub-columns) *)
Fixpoint wf_col (c : coldef) : Prop :=
  match c with
  | Col _ i _ sub =>
      ~ In 58 i /\ NoDup (names sub)
      /\ (fix all (l : list coldef) : Prop := match l with [] => True | x :: r => wf_col x /\ all r end) sub
  end.
Definition wf_cols (cols : list coldef) : Prop := NoDup (names cols) /\ Forall wf_col cols.

Lemma wf_col_sub name i o sub : wf_col (Col name i o sub) -> ~ In 58 i /\ wf_cols sub.
Proof.
  cbn. intros [H1 [H2 H3]]. split; [exact H1|]. split; [exact H2|]. clear H1 H2.
  induction sub as [|x r IH]; constructor; destruct H3 as [Hx Hr]; [exact Hx | exact (IH Hr)].
Qed.

(* the row json.Unmarshal builds from the inline JSON object: "in:out" strings, nested objects *)
Fixpoint inline_cell (c : coldef) : str * cell :=
  match c with
  | Col name i o [] => (name, CVal (RS (VStr (i ++ 58 :: o))) FAuto VNil)
  | Col name i o sub => (name, CVal (RV (CRow (MkRow (map inline_cell sub) (names sub)))) FAuto VNil)
  end.
Definition inline_cells (cols : list coldef) : list (str * cell) := map inline_cell cols.

Lemma inline_cell_name c : fst (inline_cell c) = match c with Col n _ _ _ => n end.
Proof. destruct c as [n i o [|s r]]; reflexivity. Qed.

Lemma alookup_inline_notin k cols : ~ In k (names cols) -> alookup k (inline_cells cols) = None.
Proof.
  induction cols as [|c r IH]; [reflexivity|]. intros H. unfold inline_cells. cbn [map alookup].
  destruct (inline_cell c) as [n cc] eqn:E. pose proof (inline_cell_name c) as Hn. rewrite E in Hn. cbn in Hn.
  destruct c as [n0 i o sub]. cbn [names] in H. subst n.
  rewrite str_eqb_neq by (intros ->; apply H; now left). apply IH. intros H'. apply H. now right.
Qed.

Section Equiv.
  Context (O : oracles).

  Lemma aset_aset {A} k (a b : A) m : aset k b (aset k a m) = aset k b m.
  Proof.
    induction m as [|[k' v] m IH]; cbn; [now rewrite str_eqb_refl|].
    destruct (str_eqb k k') eqn:E; cbn; [now rewrite str_eqb_refl | now rewrite E, IH].
  Qed.

  Lemma store_store k c1 c2 r : store k c2 (store k c1 r) = store k c2 r.
  Proof.
    destruct r as [m l]. unfold store, set_cell, push_if_absent. 
    destruct (ahas k m) eqn:E.
    - cbn. unfold ahas. rewrite alookup_aset_same. now rewrite aset_aset.
    - cbn. unfold ahas. rewrite alookup_aset_same. now rewrite aset_aset.
  Qed.

  Lemma with_row_after_with_col n name st f typ t :
    with_row O n name st (with_col name f typ t) = with_row O n name st t.
  Proof.
    unfold with_row, with_col. destruct (create_row_empty O n st); cbn [bind]; try reflexivity.
    f_equal. rewrite !set_value_store. apply store_store.
  Qed.

  Lemma cell_export_J raw f t :
    cell_export O FUELJ (CVal raw f t) = if rv_is_nil raw then Ok rnil else export_scalar O f raw.
  Proof. reflexivity. Qed.

  (* the two routes build the same pair of templates, fuel for fuel *)
  Theorem yaml_inline_equiv : forall n cols ti to m,
    wf_cols cols ->
    (forall k c, alookup k (inline_cells cols) = Some c -> alookup k m = Some c) ->
    of_inline O n m (names cols) ti to = of_yaml O n cols ti to.
  Proof.
    induction n as [|n IH]; intros cols ti to m [Hnd Hall] Hm; [reflexivity|].
    destruct cols as [|[name i o sub] rest]; [reflexivity|].
    cbn [names] in *. inversion Hnd as [|? ? Hnin Hnd']; subst. inversion Hall as [|? ? Hc Hrest]; subst.
    destruct (wf_col_sub _ _ _ _ Hc) as [Hi Hsub].
    assert (Htail : forall k c, alookup k (inline_cells rest) = Some c -> alookup k m = Some c).
    { intros k c Hk. apply Hm. unfold inline_cells. cbn [map alookup].
      destruct (inline_cell (Col name i o sub)) as [n0 cc] eqn:E.
      pose proof (inline_cell_name (Col name i o sub)) as Hn. rewrite E in Hn. cbn in Hn. subst n0.
      destruct (str_eqb k name) eqn:Ek; [|exact Hk].
      apply str_eqb_eq in Ek. subst k. rewrite (alookup_inline_notin name rest Hnin) in Hk. discriminate. }
    cbn [of_inline of_yaml]. destruct sub as [|s1 sub'].
    - rewrite (Hm name (CVal (RS (VStr (i ++ 58 :: o))) FAuto VNil)) by (cbn; now rewrite str_eqb_refl).
      rewrite cell_export_J. cbn [rv_is_nil export_scalar]. rewrite split_colon_join by exact Hi.
      destruct (parse_descriptor i) as [fi typi]. destruct (parse_descriptor o) as [fo typo].
      apply IH; [split; assumption | exact Htail].
    - set (sub := s1 :: sub') in *.
      rewrite (Hm name (CVal (RV (CRow (MkRow (map inline_cell sub) (names sub)))) FAuto VNil))
        by (cbn; now rewrite str_eqb_refl).
      rewrite cell_export_J. cbn [rv_is_nil export_scalar].
      destruct (parse_descriptor i) as [fi typi]. destruct (parse_descriptor o) as [fo typo].
      rewrite (IH sub new_template new_template (map inline_cell sub) Hsub) by auto.
      destruct (of_yaml O n sub new_template new_template) as [[sti sto]| | |]; cbn [bind fst snd]; try reflexivity.
      rewrite !with_row_after_with_col.
      destruct (with_row O FUELJ name sti ti) as [ti2| | |]; cbn [bind]; try reflexivity.
      destruct (with_row O FUELJ name sto to) as [to2| | |]; cbn [bind]; try reflexivity.
      apply IH; [split; assumption | exact Htail].
  Qed.
End Equiv.

(* ---------- run = the library streamer ---------- *)
Section Run.
  Context (O : oracles) (jfloat : bool -> Z -> option str) (jother : Z -> option str).

  (* the two per-line functions the streaming model is instantiated with *)
  Definition jl_import (ti : template) (line : str) : res crow := jl_get_row O FUELJ ti line.
  Definition jl_export (to : template) (row : crow) : res str :=
    bind (jl_create_row O FUELJ to (RV (CRow row))) (jl_marshal_row O jfloat jother FUELJ).

  Definition written (t : list event) : str := concat (map fst (writes_of t)).

  (* stdout of run = the bytes of the Writes of the streaming model, line after line *)
  Theorem run_is_stream ti to lines :
    run_lines O jfloat jother ti to lines
    = written (flat_map (line_events crow (jl_import ti) (jl_export to)) lines).
  Proof.
    induction lines as [|line rest IH]; [reflexivity|].
    cbn [run_lines flat_map]. unfold written in *. unfold writes_of in *. rewrite flat_map_app, map_app, concat_app, <- IH.
    unfold line_events, item_events, jl_pipeline, pipeline, jl_import, jl_get_row.
    destruct (get_row O parse_top_rv FUELJ ti line) as [row| | |]; cbn [bind flat_map app map concat]; try reflexivity.
    unfold jl_export, jl_create_row, jl_marshal_row, export_bytes.
    destruct (create_row O parse_top_rv FUELJ to (RV (CRow row))) as [r2| | |]; cbn [bind flat_map app map concat]; try reflexivity.
    destruct (marshal_row O encode_string jfloat jother FUELJ r2) as [b| | |]; cbn [bind flat_map app map concat fst]; try reflexivity.
    now rewrite app_nil_r.
  Qed.

  (* an inline template replaces the file's columns entirely *)
  Theorem inline_overrides file inline t :
    of_yaml O FUELJ file new_template new_template = Ok t ->
    inline <> [] -> inline <> [123; 125] ->
    create_template O file inline = of_inline_text O inline.
  Proof.
    intros Hf H1 H2. unfold create_template. rewrite Hf. cbn [bind].
    rewrite (str_eqb_neq inline []) by exact H1. rewrite (str_eqb_neq inline [123; 125]) by exact H2. reflexivity.
  Qed.
End Run.
