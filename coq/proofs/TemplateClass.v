(* C04 — a declared column is emitted in its format's class or the line is rejected: the image
   of each export conversion (regenerated from conversions_export.go and pkg/cast) and the
   text json.Marshal gives it. *)
From Coq Require Import ZArith List Bool Lia.
From JL.std Require Import GoBase GoFloat GoStrconv GoTime GoVal GoBase64 GoJsonNum.
From JL.gen Require Import CastGen ConvGen.
From JL.model Require Import CastRun Row RowRun Template.
From JL.proofs Require Import CastTotal RowProofs RowSafe.
Import ListNotations.
Open Scope Z_scope.

Section Class.
  Context (O : oracles).

  (* a date text: accepted by the layout 2006-01-02, or produced by Format with that layout *)
  Definition date_shape (s : str) : Prop :=
    (exists t, time_Parse O LDate s = Some t) \/ (exists t, s = time_Format LDate t).

  (* the lexical class of a format, on the value handed to json.Marshal *)
  Definition class_val (f : format) (e : gval) : Prop :=
    match f with
    | FString => exists s, e = VStr s
    | FNumeric => exists s, e = VNum s
    | FBoolean => exists b, e = VBool b
    | FBinary => exists b, e = VStr (base64_encode b)
    | FDate => exists s, e = VStr s /\ date_shape s
    | FDateTime => exists t, e = VStr (time_Format LRFC3339 t) /\ 0 <= time_Year t <= 9999
    | FTimestamp => exists z, e = VInt KInt64 z
    | FAuto | FHidden | FBad => True
    end.

  (* results of a cast of a non-nil value: exactly the wanted kind *)
  Lemma good_kind want v r x : good (Some want) v r -> r = Ok x -> v <> VNil -> kind_of x = want.
  Proof.
    intros G -> Hv. cbn in G. destruct G as [G1 G2]. apply G2. intros ->. apply Hv, G1. reflexivity.
  Qed.

  (* ToDate only ever returns nil or a date text: by induction on the unrolling *)
  Definition date_res (r : res gval) : Prop :=
    match r with
    | Ok VNil => True
    | Ok (VStr s) => date_shape s
    | Ok _ => False
    | _ => True
    end.

  Lemma ToDate_body_date rec v : (forall x, date_res (rec x)) -> date_res (ToDate_body O rec v).
  Proof.
    intros Hrec. unfold ToDate_body. cbv zeta.
    destruct v as [| b | k z | x | x | s | b | s | t | s | g]; try destruct k;
      repeat match goal with
             | |- date_res (rec ?x) => apply Hrec
             | |- date_res (Ok VNil) => exact I
             | |- date_res (Err _) => exact I
             | |- date_res Panic => exact I
             | |- date_res Fuel => exact I
             | |- date_res (Ok (VStr (time_Format LDate ?t))) => right; eauto
             | |- date_res (match time_Parse O LDate ?s with _ => _ end) =>
                 let E := fresh "E" in destruct (time_Parse O LDate s) eqn:E; [left; eauto|]
             | |- date_res (match rec ?x with _ => _ end) =>
                 let E := fresh "E" in pose proof (Hrec x) as E; destruct (rec x)
             | |- date_res (match ?F with _ => _ end) => destruct F
             end; auto.
  Qed.

  Lemma ToDate_date v : date_res (ToDate O v).
  Proof.
    unfold ToDate, ToDate_5, ToDate_4, ToDate_3, ToDate_2, ToDate_1.
    repeat (apply ToDate_body_date; intros ?). exact I.
  Qed.

  Lemma ToString_of_str s : ToString O (VStr s) = Ok (VStr s).
  Proof. reflexivity. Qed.

  Lemma ToTime_is_time v x : ToTime O v = Ok x -> v <> VNil -> exists t, x = VTime t.
  Proof.
    intros E Hv. pose proof (good_kind _ _ _ _ (ToTime_good O v) E Hv) as K.
    destruct x; cbn in K; try discriminate. eauto.
  Qed.

  Lemma ToString_of_time t :
    ToString O (VTime t) = if (time_Year t <? 0) || (time_Year t >? 9999) then Err ErrUnableToCastToString
                           else Ok (VStr (time_Format LRFC3339 t)).
  Proof. reflexivity. Qed.

  Lemma ToTimestamp_range v x : ToTimestamp O v = Ok x -> v <> VNil -> exists z, x = VInt KInt64 z.
  Proof.
    intros E Hv. pose proof (good_kind _ _ _ _ (ToTimestamp_good O v) E Hv) as K.
    destruct x as [| | k z| | | | | | | |]; cbn in K; try discriminate. injection K as ->. eauto.
  Qed.

  (* the image of Export for each format (value.go:193 + conversions_export.go) *)
  Theorem export_class f raw e :
    export_scalar O f raw = Ok (RS e) -> to_gval raw <> VNil -> e <> VNil -> class_val f e.
  Proof.
    intros H Hv He. destruct f; cbn [export_scalar class_val] in *; try exact I.
    - (* string *)
      unfold lift, exportToString, exportToString_5, exportToString_body in H.
      destruct (ToString O (to_gval raw)) as [x| | |] eqn:E; try discriminate. injection H as ->.
      destruct (ToString_is_str O _ _ E Hv) as [s ->]. eauto.
    - (* numeric *)
      unfold lift, exportToNumber, exportToNumber_5, exportToNumber_body in H.
      destruct (ToNumber O (to_gval raw)) as [x| | |] eqn:E; try discriminate. injection H as ->.
      pose proof (good_kind _ _ _ _ (ToNumber_good O _) E Hv) as K. destruct e; cbn in K; try discriminate. eauto.
    - (* boolean *)
      unfold lift, exportToBool, exportToBool_5, exportToBool_body in H.
      destruct (ToBool O (to_gval raw)) as [x| | |] eqn:E; try discriminate. injection H as ->.
      pose proof (good_kind _ _ _ _ (ToBool_good O _) E Hv) as K. destruct e; cbn in K; try discriminate. eauto.
    - (* binary *)
      unfold lift, exportToBinary, exportToBinary_5, exportToBinary_body in H.
      destruct (ToBinary O (to_gval raw)) as [x| | |] eqn:E; try discriminate.
      destruct (as_bytes x) as [b|]; try discriminate. injection H as <-. eauto.
    - (* date *)
      unfold lift, exportToDate, exportToDate_5, exportToDate_body in H.
      pose proof (ToDate_date (to_gval raw)) as D.
      destruct (ToDate O (to_gval raw)) as [x| | |] eqn:E; try discriminate.
      destruct x as [| | | | | s | | | | |]; cbn in D; try contradiction.
      + cbn in H. injection H as <-. contradiction He; reflexivity.
      + rewrite ToString_of_str in H. injection H as <-. eauto.
    - (* datetime *)
      unfold lift, exportToDateTime, exportToDateTime_5, exportToDateTime_body in H.
      destruct (ToTime O (to_gval raw)) as [x| | |] eqn:E; try discriminate.
      destruct (ToTime_is_time _ _ E Hv) as [t ->]. rewrite ToString_of_time in H.
      destruct ((time_Year t <? 0) || (time_Year t >? 9999)) eqn:Ey; [discriminate|]. injection H as <-.
      exists t. split; [reflexivity|]. apply orb_false_iff in Ey as [E1 E2]. apply Z.ltb_ge in E1. apply Z.gtb_ltb in E2 || (rewrite Z.gtb_ltb in E2). apply Z.ltb_ge in E2. lia.
    - (* timestamp *)
      unfold lift, exportToTimestamp, exportToTimestamp_5, exportToTimestamp_body in H.
      destruct (ToTimestamp O (to_gval raw)) as [x| | |] eqn:E; try discriminate. injection H as ->.
      destruct (ToTimestamp_range _ _ E Hv) as [z ->]. eauto.
  Qed.

  (* ---------- the text json.Marshal gives an exported value ---------- *)
  Context (enc_string : str -> str).
  Context (jfloat : bool -> Z -> option str) (jother : Z -> option str).

  Definition typed_format (f : format) : bool :=
    match f with FAuto | FHidden | FBad => false | _ => true end.

  (* what the writer emits for a column of format f: null, or the JSON text of a value of the class *)
  Definition member_class (f : format) (txt : str) : Prop :=
    txt = s_null \/ exists e, class_val f e /\ marshal_gval enc_string jfloat jother e = Ok txt.

  Lemma marshal_rv_scalar n e : marshal_rv O enc_string jfloat jother (S n) (RS e) = marshal_gval enc_string jfloat jother e.
  Proof. reflexivity. Qed.

  Lemma lift_inv x r : lift x = Ok r -> exists e, r = RS e /\ x = Ok e.
  Proof. destruct x; cbn; try discriminate. intros [= <-]. eauto. Qed.

  Lemma export_typed_scalar f raw r : typed_format f = true -> export_scalar O f raw = Ok r -> exists e, r = RS e.
  Proof.
    intros Hf H. destruct f; try discriminate; cbn [export_scalar] in H; apply lift_inv in H as [e [-> _]]; eauto.
  Qed.

  Lemma marshal_cell_S n raw f t :
    marshal_cell O enc_string jfloat jother (S n) (CVal raw f t) =
    if rv_is_nil raw then Ok s_null
    else bind (export_scalar O f raw) (fun e => marshal_rv O enc_string jfloat jother n e).
  Proof. reflexivity. Qed.

  Lemma marshal_row_S n m l :
    marshal_row O enc_string jfloat jother (S n) (MkRow m l) =
    bind (marshal_row_members enc_string (marshal_cell O enc_string jfloat jother n) m l)
         (fun ss => Ok ([123] ++ join_with [44] ss ++ [125])).
  Proof. reflexivity. Qed.

  Theorem cell_text_class n raw f t txt :
    typed_format f = true ->
    marshal_cell O enc_string jfloat jother (S (S n)) (CVal raw f t) = Ok txt ->
    member_class f txt.
  Proof.
    intros Hf H. rewrite marshal_cell_S in H. destruct (rv_is_nil raw) eqn:En.
    - injection H as <-. now left.
    - destruct (export_scalar O f raw) as [r| | |] eqn:E; cbn [bind] in H; try discriminate.
      destruct (export_typed_scalar _ _ _ Hf E) as [e ->]. rewrite marshal_rv_scalar in H.
      destruct e as [| b | k z | x | x | s | b | s | tm | s | g] eqn:Ee;
        try (right; exists e; subst e; split; [apply (export_class f raw); auto using to_gval_nonnil; discriminate | exact H]).
      cbn in H. injection H as <-. now left.
  Qed.

  (* ---------- rows created by a template only hold plain values ---------- *)
  Definition cvals (r : crow) : Prop := forall k c, get_value k r = Some c -> exists raw f t, c = CVal raw f t.

  Lemma cvals_store k raw f t r : cvals r -> cvals (store k (CVal raw f t) r).
  Proof.
    intros H k0 c. destruct (list_eq_dec Z.eq_dec k k0) as [->|Hd].
    - rewrite get_store_same. intros [= <-]. eauto.
    - rewrite get_store_other by exact Hd. apply H.
  Qed.

  Lemma new_value_cval v f t c : new_value O v f t = Ok c -> exists raw, c = CVal raw f t.
  Proof. unfold new_value. destruct (cast_to O t v); try discriminate; intros [= <-]; eauto. Qed.

  Lemma fill_cell_cval target x c : fill_cell O target x = Ok c -> exists raw f t, c = CVal raw f t.
  Proof.
    unfold fill_cell. destruct target as [tc|]; [|intros [= <-]; unfold new_value_auto; eauto].
    destruct (cast_to O (cell_rawtype tc) x); try discriminate. intros H. apply new_value_cval in H as [raw ->]. eauto.
  Qed.

  Lemma clone_cells_cvals n m : forall l acc r', clone_cells O n m l acc = Ok r' -> cvals acc -> cvals r'.
  Proof.
    induction l as [|k l IH]; intros acc r'; cbn [clone_cells]; [now intros [= <-]|].
    destruct (alookup k m) as [c|]; [|discriminate].
    destruct (clone_value O n c) as [c'| | |] eqn:E; cbn [bind]; try discriminate.
    intros H Ha. eapply IH; eauto. rewrite set_value_store.
    unfold clone_value in E. destruct (cell_raw n c); cbn [bind] in E; try discriminate.
    apply new_value_cval in E as [raw ->]. now apply cvals_store.
  Qed.

  Lemma create_from_row_cvals n m2 : forall l2 r r', create_from_row O n m2 l2 r = Ok r' -> cvals r -> cvals r'.
  Proof.
    induction l2 as [|k rest IH]; intros r r'; cbn [create_from_row]; [now intros [= <-]|].
    destruct (alookup k m2) as [c2|]; [|discriminate].
    destruct (cell_raw n c2) as [raw| | |]; cbn [bind]; try discriminate.
    destruct (fill_cell O (get_value k r) raw) as [c| | |] eqn:E; cbn [bind]; try discriminate.
    intros H Hr. eapply IH; eauto. rewrite set_value_store.
    apply fill_cell_cval in E as [raw' [f [t ->]]]. now apply cvals_store.
  Qed.

  (* ---------- the members row.MarshalJSON emits, with what produced each ---------- *)
  Lemma marshal_row_members_vals (rec : cell -> res str) m : forall l ss,
    marshal_row_members enc_string rec m l = Ok ss ->
    exists vs,
      Forall2 (fun k v => exists c, alookup k m = Some c /\ rec c = Ok v)
              (filter (fun k => match alookup k m with Some c => negb (format_eqb (cell_format c) FHidden) | None => false end) l) vs
      /\ ss = map (fun kv => enc_string (fst kv) ++ [58] ++ snd kv)
                 (combine (filter (fun k => match alookup k m with Some c => negb (format_eqb (cell_format c) FHidden) | None => false end) l) vs).
  Proof.
    induction l as [|k l IH]; intros ss; cbn [marshal_row_members filter].
    - intros [= <-]. exists []. split; constructor.
    - destruct (alookup k m) as [c|] eqn:E; [|discriminate].
      destruct (format_eqb (cell_format c) FHidden); cbn [negb].
      + apply IH.
      + destruct (rec c) as [s| | |] eqn:Er; cbn [bind]; try discriminate.
        destruct (marshal_row_members enc_string rec m l) as [ss'| | |] eqn:E2; cbn [bind]; try discriminate.
        intros [= <-]. destruct (IH ss' eq_refl) as [vs [H1 H2]].
        exists (s :: vs). split; [constructor; eauto | cbn; now rewrite H2].
  Qed.

  Lemma Forall2_weaken {A B} (P Q : A -> B -> Prop) l1 l2 :
    (forall a b, P a b -> Q a b) -> Forall2 P l1 l2 -> Forall2 Q l1 l2.
  Proof. intros H F. induction F; constructor; auto. Qed.

  (* a row that only holds plain values: every emitted member of a typed column is in its class *)
  Theorem row_members_class n r txt :
    cvals r -> marshal_row O enc_string jfloat jother (S (S (S n))) r = Ok txt ->
    exists ks vs,
      txt = [123] ++ join_with [44] (map (fun kv => enc_string (fst kv) ++ [58] ++ snd kv) (combine ks vs)) ++ [125]
      /\ Forall2 (fun k v => typed_format (match get_value k r with Some c => cell_format c | None => FAuto end) = true ->
                             member_class (match get_value k r with Some c => cell_format c | None => FAuto end) v) ks vs.
  Proof.
    intros Hc H. destruct r as [m l]. rewrite marshal_row_S in H.
    destruct (marshal_row_members enc_string (marshal_cell O enc_string jfloat jother (S (S n))) m l) as [ss| | |] eqn:E;
      cbn [bind] in H; try discriminate. injection H as <-.
    destruct (marshal_row_members_vals _ _ _ _ E) as [vs [H1 H2]].
    eexists _, vs. split; [rewrite H2; reflexivity|].
    eapply Forall2_weaken; [|exact H1]. intros k v [c [Hk Hv]]. unfold get_value. cbn [row_m]. rewrite Hk.
    destruct (Hc k c) as [raw [f [t ->]]]; [unfold get_value; exact Hk|]. cbn [cell_format]. intros Hf.
    eapply cell_text_class; eauto.
  Qed.
End Class.
