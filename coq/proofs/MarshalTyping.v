(* C01, the typing premise of the pipeline theorems discharged.

   MarshalValid.export_line / pipeline_line need "the row that reaches MarshalJSON satisfies
   [row_bytes]" (every key / string / byte slice in it is a list of bytes, nanosecond fields are
   non-negative, typed columns export byte strings). This file proves it as a preservation
   theorem over an invariant [tw_rv] / [tw_cell] / [tw_crow] that says it of every RAW value (so
   that it survives Raw(), CloneRow, Import and the casts), for

     - what the JSON reader hands the row (parse_top_rv of ANY list of integers: the decoder
       only copies checked bytes, well-formed UTF-8 sequences, decoded escapes and U+FFFD),
     - the generated cast layer (CastGen / ConvGen: every To*, import*, export* maps typed values
       to typed values),
     - CreateRowEmpty / UnmarshalJSON / Import / CreateRow of the row and template models,

   and derives the closed corollaries [export_line_typed] and [pipeline_line_typed], whose
   premises are on the inputs only.

   What the Go standard library contributes beyond the executable models enters through one
   hypothesis on the oracle record, [oracles_typed O] (never an axiom):
     the text strconv.FormatFloat returns is a list of bytes, and the nanosecond field of a
     time the lenient path of time.Parse returns is non-negative. *)
From Coq Require Import ZArith List Bool Lia ZifyBool.
From JL.std Require Import GoBase GoFloat GoStrconv GoTime GoVal GoBase64 GoJsonNum GoJson.
From JL.gen Require Import CastGen ConvGen.
From JL.model Require Import Row RowRun Template TemplateJson TemplateRun.
From JL.proofs Require Import StrconvProofs CastTactics CastTotal CastBinary CastInt CastText.
From JL.proofs Require Import JsonUtf8 JsonStr JsonNumber JsonTok JsonParseC JsonWrite JsonFuel JsonProofs.
From JL.proofs Require Import TimeCalendar RowProofs RowSafe TemplateClass MarshalValid.
Import ListNotations.
Open Scope Z_scope.

(* ================= the invariant ================= *)

(* a scalar denotes a Go value as far as its text / bytes go: strings, json.Numbers, []byte and
   [N]byte contents are lists of bytes, a uint8 is a byte, nanoseconds are non-negative.
   (Nothing is asked of the other integer kinds or of float bit patterns: they only become bytes
   through conv_int / le_bytes, which reduce them.) *)
Definition tg (g : gval) : Prop :=
  match g with
  | VInt KUint8 z => is_byte z
  | VStr s | VNum s | VByteArr s => bytes_ok s
  | VBytes b => bytes_ok (bdata b)
  | VTime t => 0 <= tnsec t
  | _ => True
  end.

Fixpoint tw_rv (v : rv) : Prop :=
  match v with
  | RS g => tg g
  | RArr l => (fix go (l : list rv) : Prop := match l with [] => True | x :: t => tw_rv x /\ go t end) l
  | RMap m => (fix go (m : list (str * rv)) : Prop :=
                 match m with [] => True | kv :: t => (bytes_ok (fst kv) /\ tw_rv (snd kv)) /\ go t end) m
  | RV c => tw_cell c
  end
with tw_cell (c : cell) : Prop :=
  match c with
  | CVal raw _ _ => tw_rv raw
  | CRow r => tw_crow r
  end
with tw_crow (r : crow) : Prop :=
  match r with
  | MkRow m l =>
      Forall bytes_ok l
      /\ (fix go (m : list (str * cell)) : Prop := match m with [] => True | kc :: t => tw_cell (snd kc) /\ go t end) m
  end.

Definition tw_cells (m : list (str * cell)) : Prop := Forall (fun kc => tw_cell (snd kc)) m.
Definition tw_kvs (m : list (str * rv)) : Prop := Forall (fun kv => bytes_ok (fst kv) /\ tw_rv (snd kv)) m.

Lemma tw_arr_eq l : tw_rv (RArr l) <-> Forall tw_rv l.
Proof.
  induction l as [|x l IH]; [split; intros; [constructor|exact I]|].
  change (tw_rv (RArr (x :: l))) with (tw_rv x /\ tw_rv (RArr l)).
  rewrite IH, Forall_cons_iff. tauto.
Qed.

Lemma tw_map_eq m : tw_rv (RMap m) <-> tw_kvs m.
Proof.
  unfold tw_kvs. induction m as [|x m IH]; [split; intros; [constructor|exact I]|].
  change (tw_rv (RMap (x :: m))) with ((bytes_ok (fst x) /\ tw_rv (snd x)) /\ tw_rv (RMap m)).
  rewrite IH, Forall_cons_iff. tauto.
Qed.

Lemma tw_crow_eq m l : tw_crow (MkRow m l) <-> Forall bytes_ok l /\ tw_cells m.
Proof.
  cbn [tw_crow]. apply and_iff_compat_l. unfold tw_cells.
  induction m as [|x m IH]; [split; intros; [constructor|exact I]|].
  rewrite Forall_cons_iff, <- IH. tauto.
Qed.

Lemma tw_new_row : tw_crow new_row.
Proof. apply tw_crow_eq. split; constructor. Qed.

(* a generic induction principle over the three nested types *)
Section RvInd.
  Variables (P : rv -> Prop) (Q : cell -> Prop) (R : crow -> Prop).
  Hypothesis HS : forall g, P (RS g).
  Hypothesis HA : forall l, Forall P l -> P (RArr l).
  Hypothesis HM : forall m, Forall (fun kv => P (snd kv)) m -> P (RMap m).
  Hypothesis HV : forall c, Q c -> P (RV c).
  Hypothesis HC : forall raw f t, P raw -> Q (CVal raw f t).
  Hypothesis HR : forall r, R r -> Q (CRow r).
  Hypothesis HK : forall m l, Forall (fun kc => Q (snd kc)) m -> R (MkRow m l).

  Fixpoint rv_ind3 (v : rv) : P v :=
    match v with
    | RS g => HS g
    | RArr l => HA l ((fix go (l : list rv) : Forall P l :=
                         match l with [] => Forall_nil _ | x :: t => Forall_cons x (rv_ind3 x) (go t) end) l)
    | RMap m => HM m ((fix go (m : list (str * rv)) : Forall (fun kv => P (snd kv)) m :=
                         match m with
                         | [] => Forall_nil _
                         | (k, x) :: t => Forall_cons (P := fun kv => P (snd kv)) (k, x) (rv_ind3 x) (go t)
                         end) m)
    | RV c => HV c (cell_ind3 c)
    end
  with cell_ind3 (c : cell) : Q c :=
    match c with
    | CVal raw f t => HC raw f t (rv_ind3 raw)
    | CRow r => HR r (crow_ind3 r)
    end
  with crow_ind3 (r : crow) : R r :=
    match r with
    | MkRow m l => HK m l ((fix go (m : list (str * cell)) : Forall (fun kc => Q (snd kc)) m :=
                              match m with
                              | [] => Forall_nil _
                              | (k, c) :: t => Forall_cons (P := fun kc => Q (snd kc)) (k, c) (cell_ind3 c) (go t)
                              end) m)
    end.

  Lemma rv_cell_crow_ind : (forall v, P v) /\ (forall c, Q c) /\ (forall r, R r).
  Proof. exact (conj rv_ind3 (conj cell_ind3 crow_ind3)). Qed.
End RvInd.

(* ================= the JSON reader produces byte strings, from any input ================= *)

Lemma bytes_of_out o : Forall (fun b => 32 <= b < 256) o -> bytes_ok o.
Proof. apply Forall_impl. intros a Ha. unfold is_byte. lia. Qed.

Lemma bytes_of_high o : Forall (fun b => 128 <= b < 256) o -> bytes_ok o.
Proof. apply Forall_impl. intros a Ha. unfold is_byte. lia. Qed.

Lemma utf8_encode_bytes_any c : 0 <= c <= 1114111 -> bytes_ok (utf8_encode c).
Proof.
  intros Hc. destruct (Z.ltb_spec c 128) as [Hl|Hl].
  - unfold utf8_encode. destruct (Z.ltb_spec c 128); [|lia]. repeat constructor; unfold is_byte; lia.
  - apply bytes_of_high, utf8_encode_bytes. lia.
Qed.

Lemma short_esc_byte e d : short_esc e = Some d -> is_byte d.
Proof.
  unfold short_esc, is_byte.
  repeat match goal with |- context [if ?c then _ else _] => destruct c end;
    intros H; inversion H; lia.
Qed.

Lemma rune_error_bytes : bytes_ok rune_error.
Proof. repeat constructor; unfold is_byte; lia. Qed.

Lemma hex4_range a b c d v : hex4 a b c d = Some v -> 0 <= v < 65536.
Proof. intros H. apply hex4d_hex4 in H. eapply hex4d_range; eauto. Qed.

(* one decoded unit is made of bytes, whatever the input list is *)
Lemma str_step_emit_bytes s o r : str_step s = SEmit o r -> bytes_ok o.
Proof.
  unfold str_step. destruct s as [|c r0]; [discriminate|].
  destruct (Z.eqb_spec c 34) as [E34|E34]; [discriminate|].
  destruct (Z.eqb_spec c 92) as [E92|E92].
  - destruct r0 as [|e r1]; [discriminate|].
    destruct (Z.eqb_spec e 117) as [E117|E117].
    + destruct r1 as [|a [|b [|c2 [|d r2]]]]; try discriminate.
      destruct (hex4 a b c2 d) as [rr|] eqn:Eh; [|discriminate].
      pose proof (hex4_range _ _ _ _ _ Eh) as Hrr.
      destruct (is_surrogate rr) eqn:Es.
      * destruct (getu4 r2) as [rr1|] eqn:Eg.
        -- destruct (is_high rr && is_low rr1) eqn:Ehl.
           ++ intros [= <- _]. apply utf8_encode_bytes_any.
              apply andb_true_iff in Ehl as [E1 E2]. unfold is_high, is_low, in_rng in E1, E2.
              unfold combine_surr. lia.
           ++ intros [= <- _]. apply rune_error_bytes.
        -- intros [= <- _]. apply rune_error_bytes.
      * intros [= <- _]. apply utf8_encode_bytes_any. lia.
    + destruct (short_esc e) as [d|] eqn:Ee; [|discriminate].
      intros [= <- _]. constructor; [eapply short_esc_byte; eauto | constructor].
  - destruct (Z.ltb_spec c 32); [discriminate|].
    destruct (Z.ltb_spec c 128).
    + intros [= <- _]. constructor; [unfold is_byte; lia | constructor].
    + destruct (utf8_size (c :: r0)) as [|k] eqn:Eu.
      * intros [= <- _]. apply rune_error_bytes.
      * intros [= <- _]. apply bytes_of_out. apply (copied_char c r0 k); [lia | exact Eu].
Qed.

Lemma scan_str_bytes f : forall s x r, scan_str f s = Some (x, r) -> bytes_ok x.
Proof.
  induction f as [|f IH]; intros s x r; cbn [scan_str]; [discriminate|].
  destruct (str_step s) as [r0|o r0|] eqn:Es; [intros [= <- _]; constructor| |discriminate].
  destruct (scan_str f r0) as [[x0 r1]|] eqn:Er; [|discriminate].
  intros [= <- _]. apply Forall_app. split; [eapply str_step_emit_bytes; eauto | eapply IH; eauto].
Qed.

Lemma jnumber_bytes lit : jnumber lit -> bytes_ok lit.
Proof.
  intros H. apply bytes_of_out. eapply Forall_impl; [|apply jnumber_chars, H].
  intros a Ha. apply numchar_bytes, Ha.
Qed.

(* tokens *)
Definition tok_ok (t : tok) : Prop :=
  match t with TStr s | TNum s => bytes_ok s | _ => True end.

Lemma scan_scalar_ok s t r : scan_scalar s = Some (t, r) -> tok_ok t.
Proof.
  destruct s as [|c s]; [discriminate|].
  destruct (Z.eqb_spec c 34) as [->|Hc].
  - cbn [scan_scalar]. rewrite Z.eqb_refl.
    destruct (scan_str (length s) s) as [[x r']|] eqn:E; [|discriminate].
    intros [= <- _]. cbn [tok_ok]. eapply scan_str_bytes; eauto.
  - intros H. destruct (scan_scalar_sound_nostr c s t r Hc H) as (_ & Hv & _).
    destruct t as [d|x|lit|b|]; try exact I.
    + cbn [scan_scalar] in H. (* a string token only comes from a quote *)
      destruct (Z.eqb_spec c 34); [contradiction|].
      repeat match type of H with
             | (if ?b then _ else _) = _ => destruct b
             | match ?l with _ => _ end = _ => destruct l
             end; try discriminate.
    + cbn [tok_val] in Hv. apply (proj1 grammar_wf) in Hv. apply wf_num_inv in Hv.
      apply jnumber_bytes, Hv.
Qed.

Lemma token_nosep_ok st stk s t st1 stk1 r : token_nosep st stk s = RTok t st1 stk1 r -> tok_ok t.
Proof.
  unfold token_nosep. destruct s as [|c r0]; [discriminate|].
  repeat match goal with
         | |- (if ?b then _ else _) = _ -> _ => destruct b
         | |- match scan_scalar ?x with _ => _ end = _ -> _ =>
             let E := fresh "E" in destruct (scan_scalar x) as [[? ?]|] eqn:E
         | |- match ?l with _ => _ end = _ -> _ => destruct l
         end; try discriminate; intros [= <- _ _ _]; try exact I; eapply scan_scalar_ok; eauto.
Qed.

Lemma token_ok st stk s t st1 stk1 r : token st stk s = RTok t st1 stk1 r -> tok_ok t.
Proof.
  unfold token. destruct (skip_ws s) as [|c r0]; [discriminate|].
  repeat match goal with
         | |- (if ?b then _ else _) = _ -> _ => destruct b
         | |- match ?l with _ => _ end = _ -> _ => destruct l
         end; try discriminate; apply token_nosep_ok.
Qed.

Lemma tok_run_ok f : forall st stk s l b, tok_run f st stk s = (l, b) -> Forall tok_ok l.
Proof.
  induction f as [|f IH]; intros st stk s l b; cbn [tok_run]; [intros [= <- _]; constructor|].
  destruct (token st stk s) as [t st1 stk1 r| |] eqn:Et; try (intros [= <- _]; constructor).
  destruct (tok_run f st1 stk1 r) as [l0 b0] eqn:Er. intros [= <- _].
  constructor; [eapply token_ok; eauto | eapply IH; eauto].
Qed.

(* trees whose strings, keys and number literals are byte strings *)
Fixpoint jv_tb (v : jv) : Prop :=
  match v with
  | JStr s | JNum s => bytes_ok s
  | JArr l => (fix go (l : list jv) : Prop := match l with [] => True | x :: r => jv_tb x /\ go r end) l
  | JObj m => (fix go (m : list (str * jv)) : Prop :=
                 match m with [] => True | kv :: r => (bytes_ok (fst kv) /\ jv_tb (snd kv)) /\ go r end) m
  | _ => True
  end.

Definition jm_tb (m : list (str * jv)) : Prop := Forall (fun kv => bytes_ok (fst kv) /\ jv_tb (snd kv)) m.

Lemma jv_tb_arr l : jv_tb (JArr l) <-> Forall jv_tb l.
Proof.
  induction l as [|x l IH]; [split; intros; [constructor|exact I]|].
  change (jv_tb (JArr (x :: l))) with (jv_tb x /\ jv_tb (JArr l)). rewrite IH, Forall_cons_iff. tauto.
Qed.

Lemma jv_tb_obj m : jv_tb (JObj m) <-> jm_tb m.
Proof.
  unfold jm_tb. induction m as [|x m IH]; [split; intros; [constructor|exact I]|].
  change (jv_tb (JObj (x :: m))) with ((bytes_ok (fst x) /\ jv_tb (snd x)) /\ jv_tb (JObj m)).
  rewrite IH, Forall_cons_iff. tauto.
Qed.

Lemma parse_tb f :
  (forall t rest v r, tok_ok t -> Forall tok_ok rest -> p_value f t rest = Some (v, r) -> jv_tb v /\ Forall tok_ok r)
  /\ (forall toks acc, Forall tok_ok toks -> jm_tb acc ->
        jm_tb (fst (p_object f toks acc))
        /\ forall r, snd (p_object f toks acc) = Some r -> Forall tok_ok r)
  /\ (forall toks acc l r, Forall tok_ok toks -> Forall jv_tb acc -> p_array f toks acc = Some (l, r) ->
        Forall jv_tb l /\ Forall tok_ok r).
Proof.
  induction f as [|f (IHv & IHo & IHa)].
  - split; [|split].
    + intros; discriminate.
    + intros toks acc _ Hacc. rewrite p_object_O. cbn [fst snd]. split; [apply Forall_rev, Hacc | discriminate].
    + intros; discriminate.
  - split; [|split].
    + intros t rest v r Ht Hrest. rewrite p_value_S. destruct t as [c|s|n|b|].
      * destruct (c =? 123).
        { destruct (IHo rest [] Hrest (Forall_nil _)) as [Hm Hr].
          destruct (p_object f rest []) as [m [r0|]]; [|discriminate]. cbn [fst snd] in *.
          intros [= <- <-]. split; [apply jv_tb_obj, Hm | apply Hr; reflexivity]. }
        destruct (c =? 91); [|discriminate].
        destruct (p_array f rest []) as [[l r0]|] eqn:Ea; [|discriminate].
        intros [= <- <-]. destruct (IHa rest [] l r0 Hrest (Forall_nil _) Ea) as [Hl Hr].
        split; [apply jv_tb_arr, Hl | exact Hr].
      * intros [= <- <-]. split; [exact Ht | exact Hrest].
      * intros [= <- <-]. split; [exact Ht | exact Hrest].
      * intros [= <- <-]. split; [exact I | exact Hrest].
      * intros [= <- <-]. split; [exact I | exact Hrest].
    + intros toks acc Htoks Hacc. rewrite p_object_S.
      assert (Hrev : jm_tb (rev acc)) by (apply Forall_rev, Hacc).
      destruct toks as [|t rest]; [cbn [fst snd]; split; [exact Hrev | discriminate]|].
      inversion Htoks as [|? ? Ht Hrest]; subst.
      destruct t as [c|k|n|b|]; try (cbn [fst snd]; split; [exact Hrev | discriminate]).
      * destruct (c =? 125); cbn [fst snd]; (split; [exact Hrev|]); [intros r [= <-]; exact Hrest | discriminate].
      * destruct rest as [|t' rest']; [cbn [fst snd]; split; [exact Hrev | discriminate]|].
        inversion Hrest as [|? ? Ht' Hrest']; subst.
        destruct (p_value f t' rest') as [[v r0]|] eqn:Ev; [|cbn [fst snd]; split; [exact Hrev | discriminate]].
        destruct (IHv t' rest' v r0 Ht' Hrest' Ev) as [Hv Hr0].
        apply IHo; [exact Hr0|]. constructor; [split; [exact Ht | exact Hv] | exact Hacc].
    + intros toks acc l r Htoks Hacc. rewrite p_array_S.
      destruct toks as [|t rest]; [discriminate|].
      inversion Htoks as [|? ? Ht Hrest]; subst.
      assert (Hgen : match p_value f t rest with
                     | Some (v, r0) => p_array f r0 (v :: acc)
                     | None => None
                     end = Some (l, r) -> Forall jv_tb l /\ Forall tok_ok r).
      { destruct (p_value f t rest) as [[v r0]|] eqn:Ev; [|discriminate].
        destruct (IHv t rest v r0 Ht Hrest Ev) as [Hv Hr0]. intros H.
        eapply IHa; [exact Hr0 | | exact H]. constructor; auto. }
      destruct t as [c|k|n|b|]; try exact Hgen.
      destruct (c =? 93); [intros [= <- <-]; split; [apply Forall_rev, Hacc | exact Hrest]|].
      destruct (c =? 125); [discriminate | exact Hgen].
Qed.

Lemma parse_top_tb s ms ok : parse_top s = (ms, ok) -> jm_tb ms.
Proof.
  unfold parse_top, tokenize. destruct (tok_run (S (length s)) TopValue [] s) as [toks eof] eqn:Et.
  apply tok_run_ok in Et. unfold parse_tokens.
  destruct toks as [|t rest]; [intros [= <- _]; constructor|].
  inversion Et as [|? ? Ht Hrest]; subst.
  destruct t as [c|k|n|b|]; try (intros [= <- _]; constructor).
  destruct (c =? 123); [|intros [= <- _]; constructor].
  destruct (proj1 (proj2 (parse_tb (2 * length rest + 2))) rest [] Hrest (Forall_nil _)) as [Hm _].
  destruct (p_object (2 * length rest + 2) rest []) as [m [[|? ?]|]]; cbn [fst] in Hm; intros [= <- _]; exact Hm.
Qed.

(* ================= association lists and row mutators ================= *)

Lemma tw_cells_lookup m k c : tw_cells m -> alookup k m = Some c -> tw_cell c.
Proof.
  unfold tw_cells. induction m as [|[k' c'] m IH]; cbn [alookup]; [discriminate|].
  intros H. inversion H as [|? ? Hc Hm]; subst. cbn [snd] in Hc.
  destruct (str_eqb k k'); [intros [= <-]; exact Hc | apply IH, Hm].
Qed.

Lemma tw_cells_aset m k c : tw_cells m -> tw_cell c -> tw_cells (aset k c m).
Proof.
  unfold tw_cells. induction m as [|[k' c'] m IH]; cbn [aset]; intros H Hc; [repeat constructor; exact Hc|].
  inversion H as [|? ? Hc' Hm]; subst. destruct (str_eqb k k'); constructor; auto.
Qed.

Lemma tw_kvs_aset (m : list (str * rv)) k v : tw_kvs m -> bytes_ok k -> tw_rv v -> tw_kvs (aset k v m).
Proof.
  unfold tw_kvs. induction m as [|[k' c'] m IH]; cbn [aset]; intros H Hk Hv; [repeat constructor; auto|].
  inversion H as [|? ? Hc' Hm]; subst. destruct (str_eqb k k'); constructor; auto.
Qed.

Lemma tw_set_cell k c r : tw_crow r -> tw_cell c -> tw_crow (set_cell k c r).
Proof.
  destruct r as [m l]. cbn [set_cell]. rewrite !tw_crow_eq. intros [Hl Hm] Hc.
  split; [exact Hl | apply tw_cells_aset; auto].
Qed.

Lemma tw_push k r : tw_crow r -> bytes_ok k -> tw_crow (push_if_absent k r).
Proof.
  destruct r as [m l]. cbn [push_if_absent]. intros Hr Hk. destruct (ahas k m); [exact Hr|].
  apply tw_crow_eq in Hr as [Hl Hm]. apply tw_crow_eq. split; [|exact Hm].
  apply Forall_app. split; [exact Hl | repeat constructor; exact Hk].
Qed.

Lemma tw_store k c r : tw_crow r -> bytes_ok k -> tw_cell c -> tw_crow (set_cell k c (push_if_absent k r)).
Proof. intros Hr Hk Hc. apply tw_set_cell; [apply tw_push; auto | exact Hc]. Qed.

Definition tw_ocell (c : option cell) : Prop := match c with Some c => tw_cell c | None => True end.

Lemma tw_set_value k oc r : tw_crow r -> bytes_ok k -> tw_ocell oc -> tw_crow (set_value k oc r).
Proof.
  intros Hr Hk Hc. unfold set_value. apply tw_store; auto. destruct oc as [c|]; [exact Hc | exact I].
Qed.

Lemma tw_get r k c : tw_crow r -> get_value k r = Some c -> tw_cell c.
Proof. destruct r as [m l]. rewrite tw_crow_eq. intros [_ Hm]. apply tw_cells_lookup, Hm. Qed.

Lemma tw_row_l r : tw_crow r -> Forall bytes_ok (row_l r).
Proof. destruct r as [m l]. rewrite tw_crow_eq. intros [Hl _]. exact Hl. Qed.

Lemma key_at_bytes l i : Forall bytes_ok l -> bytes_ok (key_at l i).
Proof.
  intros Hl. unfold key_at. destruct (i <? 0); [constructor|].
  destruct (nth_in_or_default (Z.to_nat i) l []) as [Hin| ->]; [|constructor].
  rewrite Forall_forall in Hl. apply Hl, Hin.
Qed.

(* ---------- the row parseobject builds, and what handledelim returns ---------- *)

Lemma tw_obj_row_from ms : forall r, tw_kvs ms -> tw_crow r ->
  tw_crow (fold_left (fun r kv => set_cell (fst kv) (CVal (snd kv) FAuto VNil) (push_if_absent (fst kv) r)) ms r).
Proof.
  induction ms as [|[k v] ms IH]; intros r Hms Hr; cbn [fold_left]; [exact Hr|].
  inversion Hms as [|? ? [Hk Hv] Hrest]; subst. cbn [fst snd] in *.
  apply IH; [exact Hrest|]. apply tw_store; auto.
Qed.

Lemma tw_obj_row ms : tw_kvs ms -> tw_crow (obj_row ms).
Proof. intros H. apply tw_obj_row_from; [exact H | apply tw_new_row]. Qed.

Lemma tw_rv_of_jv v : jv_tb v -> tw_rv (rv_of_jv v).
Proof.
  induction v as [|b|l|s|l IH|m IH] using jv_ind2; intros Hv; cbn [rv_of_jv].
  - exact I.
  - exact I.
  - exact Hv.
  - exact Hv.
  - apply jv_tb_arr in Hv. apply tw_arr_eq. rewrite Forall_forall in *. intros x Hx.
    apply in_map_iff in Hx as (y & <- & Hy). apply IH; auto.
  - apply jv_tb_obj in Hv. change (tw_crow (obj_row (map (fun kv => (fst kv, rv_of_jv (snd kv))) m))).
    apply tw_obj_row. unfold tw_kvs, jm_tb in *. rewrite Forall_forall in *. intros x Hx.
    apply in_map_iff in Hx as (y & <- & Hy). cbn [fst snd]. destruct (Hv y Hy) as [Hk Hy']. split; [exact Hk|].
    apply IH; auto.
Qed.

(* what the row's UnmarshalJSON traverses, for any text *)
Theorem parse_top_rv_typed line ms ok : parse_top_rv line = (ms, ok) -> tw_kvs ms.
Proof.
  unfold parse_top_rv. destruct (parse_top line) as [jms ok'] eqn:E. intros [= <- _].
  apply parse_top_tb in E. unfold tw_kvs, jm_tb in *. rewrite Forall_forall in *. intros x Hx.
  apply in_map_iff in Hx as (y & <- & Hy). cbn [fst snd]. destruct (E y Hy) as [Hk Hv].
  split; [exact Hk | apply tw_rv_of_jv, Hv].
Qed.

(* ================= texts and bytes produced by the standard-library models ================= *)

Lemma dec_bytes z : bytes_ok (dec z).
Proof.
  unfold dec. destruct (Z.ltb_spec z 0).
  - constructor; [unfold is_byte, c_minus; lia | apply pl_bytes_ok, pl_dec_nat; lia].
  - apply pl_bytes_ok, pl_dec_nat; lia.
Qed.

Lemma FormatBool_bytes b : bytes_ok (FormatBool b).
Proof. destruct b; repeat constructor; unfold is_byte; lia. Qed.

Lemma time_Format_bytes l t : bytes_ok (time_Format l t).
Proof.
  destruct l; cbn [time_Format].
  - apply pl_bytes_ok, pl_fmt_rfc3339.
  - apply pl_bytes_ok, pl_fmt_date_civil.
Qed.

Lemma base64_bytes s : bytes_ok s -> bytes_ok (base64_encode s).
Proof. intros H. apply pl_bytes_ok, base64_plain, H. Qed.

Lemma conv_u8_byte z : is_byte (conv_int KUint8 z).
Proof.
  pose proof (conv_int_range KUint8 z) as H. unfold in_range in H.
  change (imin KUint8) with 0 in H. change (imax KUint8) with 255 in H. unfold is_byte. lia.
Qed.

Lemma get_at_byte s i z : bytes_ok s -> get_at s i = Some z -> is_byte z.
Proof.
  unfold get_at. intros Hs. destruct (i <? 0); [discriminate|]. intros H.
  apply nth_error_In in H. unfold bytes_ok in Hs. rewrite Forall_forall in Hs. apply Hs, H.
Qed.

(* ---------- base64 decoding ---------- *)
Lemma b64_val_range c v : b64_val c = Some v -> 0 <= v < 64.
Proof.
  unfold b64_val.
  destruct ((65 <=? c) && (c <=? 90)) eqn:E1; [intros [= <-]; lia|].
  destruct ((97 <=? c) && (c <=? 122)) eqn:E2; [intros [= <-]; lia|].
  destruct ((48 <=? c) && (c <=? 57)) eqn:E3; [intros [= <-]; lia|].
  destruct (c =? 43); [intros [= <-]; lia|].
  destruct (c =? 47); [intros [= <-]; lia | discriminate].
Qed.

Lemma b64_quanta_bytes n : forall s out, (length s <= n)%nat -> b64_quanta s = Some out -> bytes_ok out.
Proof.
  induction n as [|n IH]; intros s out Hl H.
  - destruct s; [injection H as <-; constructor | cbn in Hl; lia].
  - destruct s as [|c0 [|c1 [|c2 [|c3 r]]]];
      try (cbn in H; first [discriminate H | injection H as <-; constructor]).
    + exfalso. cbn [b64_quanta] in H.
      repeat match type of H with
             | match ?x with _ => _ end = _ => destruct x; try discriminate H
             end.
    + assert (Hr : forall t, b64_quanta r = Some t -> bytes_ok t) by (intros t; apply IH; cbn in Hl; lia).
      cbn [b64_quanta] in H.
      repeat match type of H with
             | match ?x with _ => _ end = _ =>
                 first [ is_var x; destruct x | let E := fresh "E" in destruct x eqn:E ]; try discriminate H
             end;
        injection H as <-;
        repeat match goal with
               | E : b64_val _ = Some _ |- _ => apply b64_val_range in E
               | E : b64_quanta r = Some _ |- _ => apply Hr in E
               end;
        repeat (constructor; [unfold is_byte; Z.div_mod_to_equations; lia|]);
        first [assumption | constructor | apply Hr; reflexivity].
Qed.

Lemma base64_decode_bytes s out : base64_decode s = Some out -> bytes_ok out.
Proof. unfold base64_decode. apply (b64_quanta_bytes _ _ _ (le_n _)). Qed.

Lemma b64_decode_mk s b : option_map mkbytes (base64_decode s) = Some b -> bytes_ok (bdata b).
Proof.
  destruct (base64_decode s) as [o|] eqn:E; [|discriminate]. intros [= <-]. cbn [bdata mkbytes].
  eapply base64_decode_bytes; eauto.
Qed.

(* ---------- time.Parse: the nanosecond field ---------- *)
Lemma digits_value_nonneg s : forall acc x, 0 <= acc -> digits_value s acc = Some x -> 0 <= x.
Proof.
  induction s as [|c r IH]; intros acc x Ha; cbn [digits_value]; [intros [= <-]; exact Ha|].
  destruct (is_digit c) eqn:E; [|discriminate]. apply IH. unfold is_digit in E. lia.
Qed.

Lemma nanos_nonneg ds : 0 <= nanos_of_digits ds.
Proof.
  unfold nanos_of_digits. destruct (digits_value (firstn 9 ds) 0) as [v|] eqn:E; [|lia].
  apply Z.mul_nonneg_nonneg; [eapply digits_value_nonneg; [|exact E]; lia | apply Z.pow_nonneg; lia].
Qed.

Lemma parse_zone_nsec base nsec rest t : parse_zone base nsec rest = Some t -> tnsec t = nsec.
Proof.
  unfold parse_zone. intros H.
  repeat match type of H with
         | match ?x with _ => _ end = _ => destruct x; try discriminate H
         | (if ?b then _ else _) = _ => destruct b; try discriminate H
         end;
    injection H as <-; reflexivity.
Qed.

Lemma parse_tail_nsec base rest t : parse_tail base rest = Some t -> 0 <= tnsec t.
Proof.
  unfold parse_tail.
  match goal with |- (let '(nsec, r) := ?p in _) = _ -> _ => assert (Hp : 0 <= fst p) end.
  { destruct rest as [|c0 [|c1 r]]; cbn [fst]; try lia.
    destruct ((c0 =? 46) && is_digit c1); [|cbn [fst]; lia].
    destruct (take_digits (skipn 1 (c0 :: c1 :: r))) as [ds r']. cbn [fst]. apply nanos_nonneg. }
  match goal with |- (let '(nsec, r) := ?p in _) = _ -> _ => destruct p as [nsec r0] end.
  cbn [fst] in Hp. intros H. apply parse_zone_nsec in H. lia.
Qed.

Lemma parse_rfc3339_fast_nsec s t : parse_rfc3339_fast s = Some t -> 0 <= tnsec t.
Proof.
  unfold parse_rfc3339_fast.
  destruct (length s <? 19)%nat; [discriminate|].
  destruct (parse_field (sub s 0 4) 0 9999) as [y|]; [|discriminate].
  destruct (parse_field (sub s 5 7) 1 12) as [mo|]; [|discriminate].
  destruct (parse_field (sub s 8 10) 1 (days_in mo y)) as [d|]; [|discriminate].
  destruct (parse_field (sub s 11 13) 0 23) as [hh|]; [|discriminate].
  destruct (parse_field (sub s 14 16) 0 59) as [mi|]; [|discriminate].
  destruct (parse_field (sub s 17 19) 0 59) as [ss|]; [|discriminate].
  destruct (negb _); [discriminate|].
  change (parse_tail (unix_of_civil y mo d hh mi ss) (skipn 19 s) = Some t -> 0 <= tnsec t).
  apply parse_tail_nsec.
Qed.

(* ================= the oracle hypothesis ================= *)

(* What the typing proofs need of the standard-library functions that have no executable model:
   strconv.FormatFloat returns bytes; a time the general (lenient) parser of time.Parse returns
   has a non-negative nanosecond field. *)
Definition oracles_typed (O : oracles) : Prop :=
  (forall fmt prec bits x, bytes_ok (o_ffmt O fmt prec bits x))
  /\ (forall s t, o_time_parse_slow O s = Some t -> 0 <= tnsec t).

Definition tyres (r : res gval) : Prop := match r with Ok x => tg x | _ => True end.
Definition tybytes (r : res gbytes) : Prop := match r with Ok b => bytes_ok (bdata b) | _ => True end.

Lemma as_bytes_inv g b : as_bytes g = Some b -> g = VBytes b.
Proof. destruct g; cbn; try discriminate. intros [= <-]. reflexivity. Qed.
Lemma as_string_inv g s : as_string g = Some s -> g = VStr s.
Proof. destruct g; cbn; try discriminate. intros [= <-]. reflexivity. Qed.

(* ================= the generated cast layer maps typed values to typed values ================= *)

Section CastTyping.
  Context (O : oracles).
  Hypothesis HO : oracles_typed O.

  Lemma FormatFloat_bytes x fmt prec bits : bytes_ok (FormatFloat O x fmt prec bits).
  Proof. unfold FormatFloat. apply (proj1 HO). Qed.

  Lemma time_Parse_nsec l s t : time_Parse O l s = Some t -> 0 <= tnsec t.
  Proof.
    unfold time_Parse. destruct l.
    - destruct (parse_rfc3339_fast s) as [t0|] eqn:E.
      + intros [= <-]. eapply parse_rfc3339_fast_nsec; eauto.
      + apply (proj2 HO).
    - destruct (date_layout_ok s); [|discriminate]. intros H.
      repeat match type of H with
             | match ?x with _ => _ end = _ => destruct x; try discriminate H
             end;
        injection H as <-; cbn [tnsec]; lia.
  Qed.

  Lemma time_Unix_nsec z : 0 <= tnsec (time_Unix O z).
  Proof. cbn. lia. Qed.

  (* casts whose result kind carries no constraint: C10's [good] is enough *)
  Lemma good_tyres k v r :
    good (Some k) v r ->
    match k with KI KUint8 | KStr | KBytes | KNum | KTime | KByteArr => False | _ => True end ->
    tyres r.
  Proof.
    destruct r as [x| | |]; try (intros; exact I). cbn [good tyres]. intros [_ Hk] Hnot.
    destruct x as [| b | k0 z | y | y | s | b | s | t | s | g]; try exact I;
      (assert (Hx : kind_of _ = k) by (apply Hk; discriminate)); cbn [kind_of] in Hx; subst k;
      try contradiction. destruct k0; try exact I. contradiction.
  Qed.

  Lemma ToInt_ty v : tyres (ToInt O v). Proof. eapply good_tyres; [apply ToInt_good | exact I]. Qed.
  Lemma ToInt64_ty v : tyres (ToInt64 O v). Proof. eapply good_tyres; [apply ToInt64_good | exact I]. Qed.
  Lemma ToInt32_ty v : tyres (ToInt32 O v). Proof. eapply good_tyres; [apply ToInt32_good | exact I]. Qed.
  Lemma ToInt16_ty v : tyres (ToInt16 O v). Proof. eapply good_tyres; [apply ToInt16_good | exact I]. Qed.
  Lemma ToInt8_ty v : tyres (ToInt8 O v). Proof. eapply good_tyres; [apply ToInt8_good | exact I]. Qed.
  Lemma ToUint_ty v : tyres (ToUint O v). Proof. eapply good_tyres; [apply ToUint_good | exact I]. Qed.
  Lemma ToUint64_ty v : tyres (ToUint64 O v). Proof. eapply good_tyres; [apply ToUint64_good | exact I]. Qed.
  Lemma ToUint32_ty v : tyres (ToUint32 O v). Proof. eapply good_tyres; [apply ToUint32_good | exact I]. Qed.
  Lemma ToUint16_ty v : tyres (ToUint16 O v). Proof. eapply good_tyres; [apply ToUint16_good | exact I]. Qed.
  Lemma ToFloat64_ty v : tyres (ToFloat64 O v). Proof. eapply good_tyres; [apply ToFloat64_good | exact I]. Qed.
  Lemma ToFloat32_ty v : tyres (ToFloat32 O v). Proof. eapply good_tyres; [apply ToFloat32_good | exact I]. Qed.
  Lemma ToBool_ty v : tyres (ToBool O v). Proof. eapply good_tyres; [apply ToBool_good | exact I]. Qed.
  Lemma ToTimestamp_ty v : tyres (ToTimestamp O v). Proof. eapply good_tyres; [apply ToTimestamp_good | exact I]. Qed.

  Create HintDb ty discriminated.
  Hint Resolve ToInt_ty ToInt64_ty ToInt32_ty ToInt16_ty ToInt8_ty ToUint_ty ToUint64_ty ToUint32_ty ToUint16_ty
    ToFloat64_ty ToFloat32_ty ToBool_ty ToTimestamp_ty
    dec_bytes FormatBool_bytes FormatFloat_bytes time_Format_bytes base64_bytes conv_u8_byte le_bytes_ok
    time_Unix_nsec : ty.

  (* ---------- the proof loop over one generated body ---------- *)
  Ltac ty_norm := cbn [tyres tybytes tg bdata mkbytes] in *.
  Ltac const_bytes := solve [repeat first [apply Forall_nil | apply Forall_cons; [unfold is_byte; lia|]]].
  Hint Extern 1 (tg _) => cbn [tg]; try exact I : ty.
  Ltac ty_side := ty_norm; try exact I; try assumption; try const_bytes; try (unfold is_byte; lia); auto with ty.

  (* the innermost scrutinee of the matches of a term *)
  Ltac inner x :=
    lazymatch x with
    | context [match ?y with _ => _ end] => inner y
    | _ => constr:(x)
    end.

  (* before a call is case-split: what is known of its result *)
  Ltac ty_note x :=
    lazymatch type of x with
    | res gval => let H := fresh "Hty" in assert (H : tyres x) by (ty_side; fail); revert H
    | res gbytes => let H := fresh "Hty" in assert (H : tybytes x) by (ty_side; fail); revert H
    | _ => idtac
    end.

  (* after it: what the equation says *)
  Ltac ty_facts E :=
    try (apply as_bytes_inv in E; match type of E with ?g = VBytes _ => subst g end);
    try (apply as_string_inv in E; match type of E with ?g = VStr _ => subst g end);
    try (let H := fresh "Hns" in pose proof (time_Parse_nsec _ _ _ E) as H);
    try (let H := fresh "Hb64" in pose proof (b64_decode_mk _ _ E) as H);
    try (match type of E with get_at ?s _ = Some _ =>
           let H := fresh "Hat" in pose proof (get_at_byte s _ _ ltac:(ty_norm; assumption) E) as H end);
    ty_norm.

  Ltac ty_step :=
    cbv beta iota zeta delta [bind];
    lazymatch goal with
    | |- context [match ?x0 with _ => _ end] =>
        let x := inner x0 in
        try ty_note x;
        let E := fresh "E" in destruct x eqn:E; intros; ty_facts E
    end.

  Ltac ty_loop := repeat ty_step; ty_side.

  (* ---------- []byte encoders / decoders ---------- *)
  Ltac put_steps :=
    repeat match goal with
    | |- context [put_le 8 (make_bytes 8) ?v] => change (make_bytes 8) with (make_bytes (Z.of_nat 8)); rewrite put_le_make
    | |- context [put_le 4 (make_bytes 4) ?v] => change (make_bytes 4) with (make_bytes (Z.of_nat 4)); rewrite put_le_make
    | |- context [put_le 2 (make_bytes 2) ?v] => change (make_bytes 2) with (make_bytes (Z.of_nat 2)); rewrite put_le_make
    | |- context [set_at (make_bytes 1) 0 ?v] => rewrite set_at_make1
    end.

  Ltac enc_ty f := intros; unfold f; cbv zeta; cbn [bdata mkbytes]; put_steps; ty_loop.

  Lemma intToBytes_ty z : tybytes (intToBytes O z). Proof. enc_ty intToBytes. Qed.
  Lemma int64ToBytes_ty z : tybytes (int64ToBytes O z). Proof. enc_ty int64ToBytes. Qed.
  Lemma int32ToBytes_ty z : tybytes (int32ToBytes O z). Proof. enc_ty int32ToBytes. Qed.
  Lemma int16ToBytes_ty z : tybytes (int16ToBytes O z). Proof. enc_ty int16ToBytes. Qed.
  Lemma int8ToBytes_ty z : tybytes (int8ToBytes O z).
  Proof. enc_ty int8ToBytes. constructor; [apply conv_u8_byte | constructor]. Qed.
  Lemma uintToBytes_ty z : tybytes (uintToBytes O z). Proof. enc_ty uintToBytes. Qed.
  Lemma uint64ToBytes_ty z : tybytes (uint64ToBytes O z). Proof. enc_ty uint64ToBytes. Qed.
  Lemma uint32ToBytes_ty z : tybytes (uint32ToBytes O z). Proof. enc_ty uint32ToBytes. Qed.
  Lemma uint16ToBytes_ty z : tybytes (uint16ToBytes O z). Proof. enc_ty uint16ToBytes. Qed.
  Lemma uint8ToBytes_ty z : is_byte z -> tybytes (uint8ToBytes O z).
  Proof. enc_ty uint8ToBytes. constructor; [assumption | constructor]. Qed.
  Lemma float64ToBytes_ty z : tybytes (float64ToBytes O z). Proof. enc_ty float64ToBytes. Qed.
  Lemma float32ToBytes_ty z : tybytes (float32ToBytes O z). Proof. enc_ty float32ToBytes. Qed.
  Lemma boolToBytes_ty b : tybytes (boolToBytes O b).
  Proof. enc_ty boolToBytes; repeat (constructor; [unfold is_byte; lia|]); constructor. Qed.

  Hint Resolve intToBytes_ty int64ToBytes_ty int32ToBytes_ty int16ToBytes_ty int8ToBytes_ty uintToBytes_ty
    uint64ToBytes_ty uint32ToBytes_ty uint16ToBytes_ty uint8ToBytes_ty float64ToBytes_ty float32ToBytes_ty
    boolToBytes_ty : ty.

  Lemma uint8FromBytes_ty b : bytes_ok (bdata b) -> tyres (uint8FromBytes O b).
  Proof. intros Hb. unfold uint8FromBytes. ty_loop. Qed.
  Hint Resolve uint8FromBytes_ty : ty.

  Lemma reflect_bytearray_ty v : tg v -> tyres (reflect_bytearray v).
  Proof. intros Hv. unfold reflect_bytearray. destruct v; ty_loop. Qed.
  Hint Resolve reflect_bytearray_ty : ty.

  (* ---------- one level of each recursive cast, then the unrolled function ---------- *)
  Ltac body_ty f :=
    let Hrec := fresh "Hrec" in let v := fresh "v" in let Hv := fresh "Hv" in
    intros Hrec v Hv; destruct v as [| b | k z | x | x | s | b | s | t | s | g]; try destruct k;
    unfold f; ty_loop.

  Ltac unroll_ty body_lemma := repeat (apply body_lemma); intros; exact I.

  Lemma ToString_body_ty rec : (forall v, tg v -> tyres (rec v)) -> forall v, tg v -> tyres (ToString_body O rec v).
  Proof. body_ty ToString_body. Qed.
  Lemma ToString_ty v : tg v -> tyres (ToString O v).
  Proof.
    revert v. unfold ToString, ToString_5, ToString_4, ToString_3, ToString_2, ToString_1.
    unroll_ty ToString_body_ty.
  Qed.

  Lemma ToNumber_body_ty rec : (forall v, tg v -> tyres (rec v)) -> forall v, tg v -> tyres (ToNumber_body O rec v).
  Proof. body_ty ToNumber_body. Qed.
  Lemma ToNumber_ty v : tg v -> tyres (ToNumber O v).
  Proof.
    revert v. unfold ToNumber, ToNumber_5, ToNumber_4, ToNumber_3, ToNumber_2, ToNumber_1.
    unroll_ty ToNumber_body_ty.
  Qed.

  Lemma ToBinary_body_ty rec : (forall v, tg v -> tyres (rec v)) -> forall v, tg v -> tyres (ToBinary_body O rec v).
  Proof. body_ty ToBinary_body. Qed.
  Lemma ToBinary_ty v : tg v -> tyres (ToBinary O v).
  Proof.
    revert v. unfold ToBinary, ToBinary_5, ToBinary_4, ToBinary_3, ToBinary_2, ToBinary_1.
    unroll_ty ToBinary_body_ty.
  Qed.

  Lemma byte_of_u8_range z : in_range KUint8 z -> is_byte z.
  Proof.
    unfold in_range. change (imin KUint8) with 0. change (imax KUint8) with 255. unfold is_byte. lia.
  Qed.

  Lemma ToUint8_body_ty rec : (forall v, tg v -> tyres (rec v)) -> forall v, tg v -> tyres (ToUint8_body O rec v).
  Proof.
    intros Hrec v Hv. destruct v as [| b | k z | x | x | s | b | s | t | s | g]; try destruct k;
    lazymatch goal with
    | |- tyres (ToUint8_body O rec (VF64 ?y)) =>
        change (tyres (To O (sample KUint8) (VF64 y)));
        destruct (To O (sample KUint8) (VF64 y)) as [r| | |] eqn:E; try exact I;
        destruct (ToInt_f64_sound O KUint8 y r E) as (_ & -> & Hr); cbn [tyres tg];
        apply byte_of_u8_range, Hr
    | |- tyres (ToUint8_body O rec (VF32 ?y)) =>
        change (tyres (To O (sample KUint8) (VF32 y)));
        destruct (To O (sample KUint8) (VF32 y)) as [r| | |] eqn:E; try exact I;
        destruct (ToInt_f32_sound O KUint8 y r E) as (_ & -> & Hr); cbn [tyres tg];
        apply byte_of_u8_range, Hr
    | |- _ => unfold ToUint8_body; ty_loop
    end.
  Qed.
  Lemma ToUint8_ty v : tg v -> tyres (ToUint8 O v).
  Proof.
    revert v. unfold ToUint8, ToUint8_5, ToUint8_4, ToUint8_3, ToUint8_2, ToUint8_1.
    unroll_ty ToUint8_body_ty.
  Qed.

  Hint Resolve ToString_ty ToNumber_ty ToBinary_ty ToUint8_ty : ty.

  Lemma ToTime_body_ty rec : (forall v, tg v -> tyres (rec v)) -> forall v, tg v -> tyres (ToTime_body O rec v).
  Proof. body_ty ToTime_body. Qed.
  Lemma ToTime_ty v : tg v -> tyres (ToTime O v).
  Proof.
    revert v. unfold ToTime, ToTime_5, ToTime_4, ToTime_3, ToTime_2, ToTime_1.
    unroll_ty ToTime_body_ty.
  Qed.

  Lemma ToDate_body_ty rec : (forall v, tg v -> tyres (rec v)) -> forall v, tg v -> tyres (ToDate_body O rec v).
  Proof. body_ty ToDate_body. Qed.
  Lemma ToDate_ty v : tg v -> tyres (ToDate O v).
  Proof.
    revert v. unfold ToDate, ToDate_5, ToDate_4, ToDate_3, ToDate_2, ToDate_1.
    unroll_ty ToDate_body_ty.
  Qed.

  Hint Resolve ToTime_ty ToDate_ty : ty.

  (* cast.To: whatever the sample is *)
  Theorem To_ty typ v : tg v -> tyres (To O typ v).
  Proof.
    intros Hv. unfold To. destruct typ as [| b | k z | x | x | s | b | s | t | s | g]; try destruct k; ty_loop.
  Qed.
  Hint Resolve To_ty : ty.

  (* ---------- conversions_export.go / conversions_import.go ---------- *)
  Ltac conv_body f := let rec_ := fresh "rec" in let v := fresh "v" in let Hv := fresh "Hv" in
                      intros rec_ v Hv; unfold f; ty_loop.

  Lemma exportToString_body_ty : forall rec v, tg v -> tyres (exportToString_body O rec v).
  Proof. conv_body exportToString_body. Qed.
  Lemma exportToNumber_body_ty : forall rec v, tg v -> tyres (exportToNumber_body O rec v).
  Proof. conv_body exportToNumber_body. Qed.
  Lemma exportToBool_body_ty : forall rec v, tg v -> tyres (exportToBool_body O rec v).
  Proof. conv_body exportToBool_body. Qed.
  Lemma exportToBinary_body_ty : forall rec v, tg v -> tyres (exportToBinary_body O rec v).
  Proof. conv_body exportToBinary_body. Qed.
  Lemma exportToDate_body_ty : forall rec v, tg v -> tyres (exportToDate_body O rec v).
  Proof. conv_body exportToDate_body. Qed.
  Lemma exportToDateTime_body_ty : forall rec v, tg v -> tyres (exportToDateTime_body O rec v).
  Proof. conv_body exportToDateTime_body. Qed.
  Lemma exportToTimestamp_body_ty : forall rec v, tg v -> tyres (exportToTimestamp_body O rec v).
  Proof. conv_body exportToTimestamp_body. Qed.

  Lemma exportToString_ty v : tg v -> tyres (exportToString O v).
  Proof. apply exportToString_body_ty. Qed.
  Lemma exportToNumber_ty v : tg v -> tyres (exportToNumber O v).
  Proof. apply exportToNumber_body_ty. Qed.
  Lemma exportToBool_ty v : tg v -> tyres (exportToBool O v).
  Proof. apply exportToBool_body_ty. Qed.
  Lemma exportToBinary_ty v : tg v -> tyres (exportToBinary O v).
  Proof. apply exportToBinary_body_ty. Qed.
  Lemma exportToDate_ty v : tg v -> tyres (exportToDate O v).
  Proof. apply exportToDate_body_ty. Qed.
  Lemma exportToDateTime_ty v : tg v -> tyres (exportToDateTime O v).
  Proof. apply exportToDateTime_body_ty. Qed.
  Lemma exportToTimestamp_ty v : tg v -> tyres (exportToTimestamp O v).
  Proof. apply exportToTimestamp_body_ty. Qed.

  Ltac imp_ty f := let v := fresh "v" in let typ := fresh "typ" in let Hv := fresh "Hv" in
                   intros v typ Hv; unfold f; ty_loop.

  Lemma importFromString_ty : forall v typ, tg v -> tyres (importFromString O v typ).
  Proof. imp_ty importFromString. Qed.
  Lemma importFromNumeric_ty : forall v typ, tg v -> tyres (importFromNumeric O v typ).
  Proof. imp_ty importFromNumeric. Qed.
  Lemma importFromBoolean_ty : forall v typ, tg v -> tyres (importFromBoolean O v typ).
  Proof. imp_ty importFromBoolean. Qed.
  Lemma importFromBinary_ty : forall v typ, tg v -> tyres (importFromBinary O v typ).
  Proof. imp_ty importFromBinary. Qed.
  Lemma importFromDate_ty : forall v typ, tg v -> tyres (importFromDate O v typ).
  Proof. imp_ty importFromDate. Qed.
  Lemma importFromDateTime_ty : forall v typ, tg v -> tyres (importFromDateTime O v typ).
  Proof. imp_ty importFromDateTime. Qed.
  Lemma importFromTimestamp_ty : forall v typ, tg v -> tyres (importFromTimestamp O v typ).
  Proof. imp_ty importFromTimestamp. Qed.

  (* ================= the row model ================= *)

  Lemma tg_to_gval v : tw_rv v -> tg (to_gval v).
  Proof. destruct v; cbn [to_gval tw_rv]; auto; intros _; exact I. Qed.

  Lemma tw_lift x r : tyres x -> lift x = Ok r -> tw_rv r.
  Proof. destruct x; cbn [lift tyres]; try discriminate. intros H [= <-]. exact H. Qed.

  Theorem export_scalar_typed f raw r : tw_rv raw -> export_scalar O f raw = Ok r -> tw_rv r.
  Proof.
    intros Hraw. pose proof (tg_to_gval raw Hraw) as Hg.
    destruct f; cbn [export_scalar]; try discriminate;
      try (intros [= <-]; exact Hraw); apply tw_lift;
      first [ apply exportToString_ty | apply exportToNumber_ty | apply exportToBool_ty | apply exportToBinary_ty
            | apply exportToDate_ty | apply exportToDateTime_ty | apply exportToTimestamp_ty ]; exact Hg.
  Qed.

  Theorem cast_to_typed typ v r : tw_rv v -> cast_to O typ v = Ok r -> tw_rv r.
  Proof.
    intros Hv. pose proof (To_ty typ (to_gval v) (tg_to_gval v Hv)) as Ht. unfold cast_to.
    destruct (To O typ (to_gval v)) as [g| | |]; try discriminate. cbn [tyres] in Ht.
    destruct v as [g0|l|m|c]; try (intros [= <-]; exact Ht);
      destruct g; intros [= <-]; first [exact Ht | exact Hv].
  Qed.

  Theorem import_scalar_typed f typ v r : tw_rv v -> import_scalar O f typ v = Ok r -> tw_rv r.
  Proof.
    intros Hv. pose proof (tg_to_gval v Hv) as Hg.
    destruct f; cbn [import_scalar]; try discriminate;
      try (apply cast_to_typed; exact Hv); apply tw_lift;
      first [ apply importFromString_ty | apply importFromNumeric_ty | apply importFromBoolean_ty
            | apply importFromBinary_ty | apply importFromDate_ty | apply importFromDateTime_ty
            | apply importFromTimestamp_ty ]; exact Hg.
  Qed.

  (* ---------- NewValue, Raw(), CloneRow ---------- *)
  Lemma new_value_typed v f typ c : tw_rv v -> new_value O v f typ = Ok c -> tw_cell c.
  Proof.
    intros Hv. unfold new_value. destruct (cast_to O typ v) as [r| | |] eqn:E; try discriminate;
      intros [= <-]; cbn [tw_cell]; [eapply cast_to_typed; eauto | exact Hv].
  Qed.

  Lemma cells_raw_typed (rec : cell -> res rv) m l :
    (forall c v, tw_cell c -> rec c = Ok v -> tw_rv v) -> tw_cells m -> Forall bytes_ok l ->
    forall t, cells_raw rec m l = Ok t -> tw_kvs t.
  Proof.
    intros Hrec Hm. induction 1 as [|k l Hk Hl IH]; cbn [cells_raw]; intros t.
    - intros [= <-]. constructor.
    - destruct (alookup k m) as [c|] eqn:E; [|discriminate].
      destruct (rec c) as [v| | |] eqn:Ev; cbn [bind]; try discriminate.
      destruct (cells_raw rec m l) as [t0| | |]; cbn [bind]; try discriminate.
      intros [= <-]. apply tw_kvs_aset; [apply IH; reflexivity | exact Hk|].
      eapply Hrec; [|exact Ev]. eapply tw_cells_lookup; eauto.
  Qed.

  Lemma cell_raw_typed n : forall c v, tw_cell c -> cell_raw n c = Ok v -> tw_rv v.
  Proof.
    induction n as [|n IH]; intros c v Hc; cbn [cell_raw]; [discriminate|].
    destruct c as [raw f t|[m l]]; [intros [= <-]; exact Hc|].
    apply tw_crow_eq in Hc as [Hl Hm].
    destruct (cells_raw (cell_raw n) m l) as [t| | |] eqn:E; cbn [bind]; try discriminate.
    intros [= <-]. apply tw_map_eq. eapply cells_raw_typed; eauto.
  Qed.

  Lemma clone_value_typed n c c' : tw_cell c -> clone_value O n c = Ok c' -> tw_cell c'.
  Proof.
    intros Hc. unfold clone_value. destruct (cell_raw n c) as [raw| | |] eqn:E; cbn [bind]; try discriminate.
    apply new_value_typed. eapply cell_raw_typed; eauto.
  Qed.

  Lemma clone_cells_typed n m : tw_cells m -> forall l, Forall bytes_ok l ->
    forall acc r', tw_crow acc -> clone_cells O n m l acc = Ok r' -> tw_crow r'.
  Proof.
    intros Hm. induction 1 as [|k l Hk Hl IH]; intros acc r' Hacc; cbn [clone_cells]; [intros [= <-]; exact Hacc|].
    destruct (alookup k m) as [c|] eqn:E; [|discriminate].
    destruct (clone_value O n c) as [c'| | |] eqn:Ec; cbn [bind]; try discriminate.
    apply IH. apply tw_set_value; [exact Hacc | exact Hk|]. cbn [tw_ocell].
    eapply clone_value_typed; [|exact Ec]. eapply tw_cells_lookup; eauto.
  Qed.

  Theorem clone_row_typed n r r' : tw_crow r -> clone_row O n r = Ok r' -> tw_crow r'.
  Proof.
    destruct r as [m l]. intros Hr. apply tw_crow_eq in Hr as [Hl Hm]. unfold clone_row. cbn [row_m row_l].
    apply clone_cells_typed; auto. apply tw_new_row.
  Qed.

  (* ---------- Import ---------- *)
  Lemma value_import_typed n raw f typ v :
    tw_rv raw -> tw_rv v -> tw_cell (fst (value_import O n raw f typ v)).
  Proof.
    intros Hraw Hv. unfold value_import. destruct (rv_is_nil v); [exact I|].
    assert (Hs : tw_cell (fst match import_scalar O f typ v with
                              | Ok r => (CVal r f typ, Ok tt)
                              | Err e => (CVal (match f with FBad => raw | _ => rnil end) f typ, Err e)
                              | Panic => (CVal raw f typ, Panic)
                              | Fuel => (CVal raw f typ, Fuel)
                              end)).
    { destruct (import_scalar O f typ v) as [r| | |] eqn:E; cbn [fst tw_cell];
        [eapply import_scalar_typed; eauto | destruct f; first [exact I | exact Hraw] | exact Hraw | exact Hraw]. }
    destruct v as [g|l|m|c]; try exact Hs. destruct c as [raw' f' typ'|sub]; [exact Hv | exact Hs].
  Qed.

  Lemma import_typed n :
    (forall c v, tw_cell c -> tw_rv v -> tw_cell (fst (cell_import O n c v)))
    /\ (forall k v r, tw_crow r -> bytes_ok k -> tw_rv v -> tw_crow (fst (import_at_key O n k v r)))
    /\ (forall v r, tw_crow r -> tw_rv v -> tw_crow (fst (row_import O n v r))).
  Proof.
    induction n as [|n [IHc [IHk IHr]]].
    - repeat split; intros; cbn; auto.
    - assert (Hc : forall c v, tw_cell c -> tw_rv v -> tw_cell (fst (cell_import O (S n) c v))).
      { intros c v Hcw Hv. rewrite cell_import_S. destruct c as [raw f t|sub].
        - now apply value_import_typed.
        - pose proof (IHr v sub Hcw Hv) as H. destruct (row_import O n v sub) as [sub' e]. exact H. }
      assert (Hk : forall k v r, tw_crow r -> bytes_ok k -> tw_rv v -> tw_crow (fst (import_at_key O (S n) k v r))).
      { intros k v r Hr Hkb Hv. rewrite import_at_key_S. cbv zeta.
        destruct (alookup k (row_m r)) as [c0|] eqn:E.
        - pose proof (IHc c0 v (tw_get r k c0 Hr E) Hv) as H.
          destruct (cell_import O n c0 v) as [c' e]. cbn [fst] in *. apply tw_store; auto.
        - destruct (as_value v) as [c|] eqn:Ea; cbn [fst]; apply tw_store; auto.
          destruct v; try discriminate. injection Ea as <-. exact Hv. }
      split; [exact Hc | split; [exact Hk|]].
      intros v r Hr Hv. rewrite row_import_S. destruct v as [g|vals|kvs|c]; try exact Hr.
      + apply tw_arr_eq in Hv. generalize 0. revert r Hr.
        induction Hv as [|x rest Hx _ IH]; intros r Hr i; cbn [import_arr]; [exact Hr|].
        pose proof (IHk (key_at (row_l r) i) x r Hr (key_at_bytes _ _ (tw_row_l r Hr)) Hx) as H.
        destruct (import_at_key O n (key_at (row_l r) i) x r) as [r' e]. cbn [fst] in H.
        destruct e; try exact H. apply IH, H.
      + apply tw_map_eq in Hv. revert r Hr.
        induction Hv as [|[k x] rest [Hkb Hx] _ IH]; intros r Hr; cbn [import_map]; [exact Hr|].
        cbn [fst snd] in *. pose proof (IHk k x r Hr Hkb Hx) as H.
        destruct (import_at_key O n k x r) as [r' e]. cbn [fst] in H.
        destruct e; try exact H. apply IH, H.
  Qed.

  Lemma cell_import_typed n c v : tw_cell c -> tw_rv v -> tw_cell (fst (cell_import O n c v)).
  Proof. apply (proj1 (import_typed n)). Qed.

  Lemma unmarshal_members_typed n ms : forall r, tw_crow r -> tw_kvs ms -> tw_crow (fst (unmarshal_members O n ms r)).
  Proof.
    induction ms as [|[k v] rest IH]; intros r Hr Hms; cbn [unmarshal_members]; [exact Hr|].
    inversion Hms as [|? ? [Hk Hv] Hrest]; subst. cbn [fst snd] in *.
    destruct (alookup k (row_m r)) as [c0|] eqn:E.
    - pose proof (cell_import_typed n c0 v (tw_get r k c0 Hr E) Hv) as H.
      destruct (cell_import O n c0 v) as [c' e]. cbn [fst] in H.
      assert (Hw : tw_crow (set_cell k c' r)) by (apply tw_set_cell; auto).
      destruct e; try exact Hw. apply IH; auto.
    - apply IH; auto. apply tw_store; auto.
  Qed.

  Lemma row_unmarshal_typed n ms ok r : tw_crow r -> tw_kvs ms -> tw_crow (fst (row_unmarshal O n ms ok r)).
  Proof.
    intros Hr Hms. unfold row_unmarshal. pose proof (unmarshal_members_typed n ms r Hr Hms) as H.
    destruct (unmarshal_members O n ms r) as [r' e]. cbn [fst] in H. destruct e; exact H.
  Qed.

  (* UnmarshalJSON of any text *)
  Theorem unmarshal_text_typed n text r : tw_crow r -> tw_crow (fst (unmarshal_text O parse_top_rv n text r)).
  Proof.
    intros Hr. unfold unmarshal_text. destruct (parse_top_rv text) as [ms ok] eqn:E.
    apply row_unmarshal_typed; [exact Hr | eapply parse_top_rv_typed; eauto].
  Qed.

  (* ---------- templates: CreateRowEmpty, CreateRow, GetRow ---------- *)
  Lemma fill_cell_typed target val c : tw_rv val -> fill_cell O target val = Ok c -> tw_cell c.
  Proof.
    intros Hv. unfold fill_cell. destruct target as [c0|]; [|intros [= <-]; exact Hv].
    destruct (cast_to O (cell_rawtype c0) val); try discriminate. apply new_value_typed, Hv.
  Qed.

  Lemma create_from_arr_typed vals : forall i r r', Forall tw_rv vals -> tw_crow r ->
    create_from_arr O i vals r = Ok r' -> tw_crow r'.
  Proof.
    induction vals as [|x rest IH]; intros i r r' Hvals Hr; cbn [create_from_arr]; [intros [= <-]; exact Hr|].
    inversion Hvals as [|? ? Hx Hrest]; subst.
    destruct (fill_cell O (get_value_at_index i r) x) as [c| | |] eqn:Ef; cbn [bind]; try discriminate.
    apply IH; [exact Hrest|]. unfold set_value_at_index.
    apply tw_set_value; [exact Hr | apply key_at_bytes, tw_row_l, Hr | eapply fill_cell_typed; eauto].
  Qed.

  Lemma create_from_map_typed kvs : forall r r', tw_kvs kvs -> tw_crow r ->
    create_from_map O kvs r = Ok r' -> tw_crow r'.
  Proof.
    induction kvs as [|[k x] rest IH]; intros r r' Hkvs Hr; cbn [create_from_map]; [intros [= <-]; exact Hr|].
    inversion Hkvs as [|? ? [Hk Hx] Hrest]; subst. cbn [fst snd] in *.
    destruct (fill_cell O (get_value k r) x) as [c| | |] eqn:Ef; cbn [bind]; try discriminate.
    apply IH; [exact Hrest|]. apply tw_set_value; [exact Hr | exact Hk | eapply fill_cell_typed; eauto].
  Qed.

  Lemma create_from_row_typed n m2 : tw_cells m2 -> forall l2, Forall bytes_ok l2 -> forall r r', tw_crow r ->
    create_from_row O n m2 l2 r = Ok r' -> tw_crow r'.
  Proof.
    intros Hm. induction 1 as [|k l2 Hk Hl IH]; intros r r' Hr; cbn [create_from_row]; [intros [= <-]; exact Hr|].
    destruct (alookup k m2) as [c2|] eqn:E; [|discriminate].
    destruct (cell_raw n c2) as [raw| | |] eqn:Er; cbn [bind]; try discriminate.
    destruct (fill_cell O (get_value k r) raw) as [c| | |] eqn:Ef; cbn [bind]; try discriminate.
    apply IH. apply tw_set_value; [exact Hr | exact Hk|]. eapply fill_cell_typed; [|exact Ef].
    eapply cell_raw_typed; [|exact Er]. eapply tw_cells_lookup; eauto.
  Qed.

  Lemma unmarshal_into_typed n text r r' : tw_crow r ->
    (let '(r1, e) := unmarshal_text O parse_top_rv n text r in bind e (fun _ => Ok r1)) = Ok r' -> tw_crow r'.
  Proof.
    intros Hr. pose proof (unmarshal_text_typed n text r Hr) as H.
    destruct (unmarshal_text O parse_top_rv n text r) as [r1 e]. cbn [fst] in H.
    destruct e; cbn [bind]; try discriminate. intros [= <-]. exact H.
  Qed.

  (* CreateRow(v): for every kind of input the model accepts *)
  Theorem create_row_typed n t input row :
    tw_crow t -> tw_rv input -> create_row O parse_top_rv n t input = Ok row -> tw_crow row.
  Proof.
    intros Ht Hin. unfold create_row.
    destruct (clone_row O n t) as [result| | |] eqn:Ec; cbn [bind]; try discriminate.
    pose proof (clone_row_typed n t result Ht Ec) as Hres.
    destruct input as [g|vals|kvs|c].
    - destruct g; try discriminate; apply unmarshal_into_typed; exact Hres.
    - apply create_from_arr_typed; [apply tw_arr_eq, Hin | exact Hres].
    - apply create_from_map_typed; [apply tw_map_eq, Hin | exact Hres].
    - destruct c as [raw f typ|[m2 l2]]; [discriminate|].
      cbn [tw_rv tw_cell] in Hin. apply tw_crow_eq in Hin as [Hl Hm].
      apply create_from_row_typed; auto.
  Qed.

  (* importer.GetRow: for every line *)
  Theorem get_row_typed n ti line r : tw_crow ti -> get_row O parse_top_rv n ti line = Ok r -> tw_crow r.
  Proof.
    intros Ht. unfold get_row, create_row_empty.
    destruct (clone_row O n ti) as [r0| | |] eqn:Ec; cbn [bind]; try discriminate.
    apply unmarshal_into_typed. eapply clone_row_typed; eauto.
  Qed.

  (* ---------- the invariant of this file implies the one MarshalJSON needs ---------- *)
  Lemma tg_gw g : tg g -> gw True g.
  Proof. destruct g as [| b | k z | x | x | s | b | s | t | s | tag]; cbn [tg gw]; auto. Qed.

  Theorem typed_bytes :
    (forall v, tw_rv v -> rv_bytes O v) /\ (forall c, tw_cell c -> cell_bytes O c) /\ (forall r, tw_crow r -> row_bytes O r).
  Proof.
    unfold rv_bytes, cell_bytes, row_bytes. apply rv_cell_crow_ind.
    - intros g Hg. apply tg_gw, Hg.
    - intros l IH Hl. apply tw_arr_eq in Hl. apply mw_arr_eq.
      rewrite Forall_forall in *. intros x Hx. apply IH; auto.
    - intros m IH Hm. apply tw_map_eq in Hm. apply mw_map_eq. unfold tw_kvs in Hm.
      rewrite Forall_forall in *. intros x Hx. destruct (Hm x Hx) as [Hk Hv]. split; [intros _; exact Hk | apply IH; auto].
    - intros c IH Hc. apply IH, Hc.
    - intros raw f t IH Hraw. cbn [tw_cell] in Hraw.
      assert (Hexp : True -> rv_is_nil raw = false -> forall s, export_scalar O f raw = Ok (RS (VStr s)) -> bytes_ok s).
      { intros _ _ s He. exact (export_scalar_typed f raw _ Hraw He). }
      destruct f; cbn [mw_cell]; first [exact Hexp | apply IH, Hraw].
    - intros r IH Hr. apply IH, Hr.
    - intros m l IH Hr. apply tw_crow_eq in Hr as [Hl Hm]. apply mw_crow_eq. split; [intros _; exact Hl|].
      unfold tw_cells in Hm. rewrite Forall_forall in *. intros x Hx. apply IH; auto.
  Qed.

  Corollary row_typed_bytes r : tw_crow r -> row_bytes O r.
  Proof. apply (proj2 (proj2 typed_bytes)). Qed.
End CastTyping.

(* ================= templates ================= *)

(* The well-formedness asked of a template is the invariant itself, on the prototype row:
   [tw_crow t]. It holds of every template the builders make from byte-string column names. *)
Definition template_typed (t : template) : Prop := tw_crow t.

Lemma new_template_typed : template_typed new_template.
Proof. exact tw_new_row. Qed.

Lemma with_col_typed name f typ t : bytes_ok name -> template_typed t -> template_typed (with_col name f typ t).
Proof. intros Hn Ht. unfold with_col. apply tw_set_value; [exact Ht | exact Hn | exact I]. Qed.

Section Builders.
  Context (O : oracles).
  Hypothesis HO : oracles_typed O.

  Lemma with_row_typed n name sub t t' :
    bytes_ok name -> template_typed sub -> template_typed t -> with_row O n name sub t = Ok t' -> template_typed t'.
  Proof.
    intros Hn Hs Ht. unfold with_row, create_row_empty.
    destruct (clone_row O n sub) as [r| | |] eqn:E; cbn [bind]; try discriminate. intros [= <-].
    apply tw_set_value; [exact Ht | exact Hn|]. cbn [tw_ocell tw_cell]. exact (clone_row_typed O HO n sub r Hs E).
  Qed.

  (* column descriptors whose names are byte strings *)
  Fixpoint td_ok (d : tdesc) : Prop :=
    match d with
    | TCol name _ _ => bytes_ok name
    | TSub name cols =>
        bytes_ok name /\ (fix go (l : list tdesc) : Prop := match l with [] => True | x :: r => td_ok x /\ go r end) cols
    end.

  Lemma td_ok_sub name cols : td_ok (TSub name cols) <-> bytes_ok name /\ Forall td_ok cols.
  Proof.
    cbn [td_ok]. apply and_iff_compat_l.
    induction cols as [|x cols IH]; [split; intros; [constructor|exact I]|].
    rewrite Forall_cons_iff, <- IH. tauto.
  Qed.

  Theorem build_template_typed n : forall cols t t',
    Forall td_ok cols -> template_typed t -> build_template O n cols t = Ok t' -> template_typed t'.
  Proof.
    induction n as [|n IH]; intros cols t t' Hc Ht; cbn [build_template]; [discriminate|].
    destruct cols as [|[name f typ|name sub] rest]; [intros [= <-]; exact Ht| |].
    - inversion Hc as [|? ? Hd Hrest]; subst. apply IH; [exact Hrest|]. apply with_col_typed; [exact Hd | exact Ht].
    - inversion Hc as [|? ? Hd Hrest]; subst. apply td_ok_sub in Hd as [Hn Hsub].
      destruct (build_template O n sub new_template) as [st| | |] eqn:Es; cbn [bind]; try discriminate.
      destruct (with_row O FUEL name st t) as [t1| | |] eqn:Ew; cbn [bind]; try discriminate.
      apply IH; [exact Hrest|]. eapply with_row_typed; [exact Hn | | exact Ht | exact Ew].
      eapply IH; [exact Hsub | apply new_template_typed | exact Es].
  Qed.
End Builders.

(* a prototype row as With / WithRow leave it before any cloning: nil values under byte-string
   keys, or nested such rows. (CreateRowEmpty turns a nested row into a value holding a map — the
   flattening recorded as finding F6 — so clones only satisfy [template_typed].) *)
Fixpoint proto_cell (c : cell) : Prop :=
  match c with
  | CVal raw _ _ => raw = RS VNil
  | CRow r => proto_crow r
  end
with proto_crow (r : crow) : Prop :=
  match r with
  | MkRow m l =>
      Forall bytes_ok l
      /\ (fix go (m : list (str * cell)) : Prop := match m with [] => True | kc :: t => proto_cell (snd kc) /\ go t end) m
  end.

Lemma proto_typed : (forall c, proto_cell c -> tw_cell c) /\ (forall r, proto_crow r -> template_typed r).
Proof.
  destruct (rv_cell_crow_ind (fun _ => True) (fun c => proto_cell c -> tw_cell c) (fun r => proto_crow r -> tw_crow r))
    as (_ & Hc & Hr); auto.
  - intros raw f t _ H. cbn [proto_cell] in H. subst raw. exact I.
  - intros m l IH [Hl Hm]. apply tw_crow_eq. split; [exact Hl|]. unfold tw_cells.
    induction m as [|kc m IHm]; [constructor|]. destruct Hm as [Hk Hm]. inversion IH as [|? ? Hkc IH']; subst.
    constructor; [apply Hkc, Hk | apply IHm; auto].
Qed.

(* ================= the closed corollaries ================= *)

Section ClosedTyped.
  Context (O : oracles).
  Context (jfloat : bool -> Z -> option str) (jother : Z -> option str).

  (* oracle hypotheses of MarshalValid: json.Marshal of a finite float is a JSON number literal;
     of a value of another dynamic type, the compact text of a tree of byte strings *)
  Hypothesis H_jfloat : forall is32 x s, jfloat is32 x = Some s -> is_json_number s = true.
  Hypothesis H_jother : forall tag s, jother tag = Some s -> exists t, write_jv t = Some s /\ jv_bytes_ok t.
  (* oracle hypothesis of this file *)
  Hypothesis HO : oracles_typed O.

  (* exporter.Export on a typed input, through a typed template: whatever is handed to the single
     Write is one valid JSON object without raw LF, followed by LF *)
  Theorem export_line_typed n to input out :
    template_typed to -> tw_rv input ->
    export_bytes O encode_string parse_top_rv jfloat jother n to input = Ok out ->
    exists line, out = line ++ [10] /\ is_json_object line = true /\ ~ In 10 line.
  Proof.
    intros Hto Hin. apply (export_line O jfloat jother H_jfloat H_jother).
    intros row Hrow. apply (row_typed_bytes O HO). exact (create_row_typed O HO n to input row Hto Hin Hrow).
  Qed.

  (* one line through importer and exporter: for EVERY line (any list of integers, so any bytes),
     and every pair of typed templates *)
  Theorem pipeline_line_typed n ti to line out :
    template_typed ti -> template_typed to ->
    pipeline O encode_string parse_top_rv jfloat jother n ti to line = Ok out ->
    exists l, out = l ++ [10] /\ is_json_object l = true /\ ~ In 10 l.
  Proof.
    intros Hti Hto. apply (pipeline_line O jfloat jother H_jfloat H_jother).
    intros r row Hr Hrow. apply (row_typed_bytes O HO).
    apply (create_row_typed O HO n to (RV (CRow r)) row Hto); [|exact Hrow].
    cbn [tw_rv tw_cell]. exact (get_row_typed O HO n ti line r Hti Hr).
  Qed.
End ClosedTyped.

(* a value that satisfies GoVal.wf_gval (and whose time has a non-negative nanosecond field) is typed *)
Lemma wf_gval_tg g : wf_gval g -> match g with VTime t => 0 <= tnsec t | _ => True end -> tg g.
Proof.
  destruct g as [| b | k z | x | x | s | b | s | t | s | tag]; cbn [wf_gval tg]; auto; try tauto.
  destruct k; auto. intros H _. apply byte_of_u8_range, H.
Qed.

(* ================= the hypotheses are satisfiable: a concrete instance ================= *)

Definition ex_oracles : oracles :=
  {| o_ffmt := fun _ _ _ _ => [49; 46; 53];
     o_fparse := fun _ _ => Some 4609434218613702656;
     o_f2i := fun _ _ => 0;
     o_local_off := fun _ => 3600;
     o_time_parse_slow := fun _ => None |}.

Example oracles_typed_example : oracles_typed ex_oracles.
Proof.
  split.
  - intros fmt prec bits x. cbn. repeat (constructor; [unfold is_byte; lia|]). constructor.
  - intros s t H. discriminate H.
Qed.

(* columns: s string, n numeric, t datetime, b binary, h hidden, r a sub-row with one auto column *)
Definition ex_cols : list tdesc :=
  [TCol [115] FString VNil; TCol [110] FNumeric VNil; TCol [116] FDateTime VNil; TCol [98] FBinary VNil;
   TCol [104] FHidden VNil; TSub [114] [TCol [120] FAuto VNil]].

Definition ex_template : template :=
  Eval vm_compute in match build_template ex_oracles FUEL ex_cols new_template with Ok t => t | _ => new_template end.

(* one object with the members s (a string with an escaped quote, an escaped backslash, \n, the
   escape of U+2028, '<', one byte of invalid UTF-8 (0xff), '>' and a two-byte character), n = 1.5e3,
   t = 2020-01-02T03:04:05.5Z, b = AQI= (base64), h = [1,{k:null}], r = {x:y}, and a member whose key
   (e followed by the escape of U+0000) the template does not declare *)
Definition ex_line : str :=
  [123; 34; 115; 34; 58; 34; 97; 92; 34; 92; 92; 92; 110; 92; 117; 50; 48; 50; 56; 60; 255; 62; 195; 169; 34; 44; 34;
   110; 34; 58; 49; 46; 53; 101; 51; 44; 34; 116; 34; 58; 34; 50; 48; 50; 48; 45; 48; 49; 45; 48; 50; 84; 48; 51; 58;
   48; 52; 58; 48; 53; 46; 53; 90; 34; 44; 34; 98; 34; 58; 34; 65; 81; 73; 61; 34; 44; 34; 104; 34; 58; 91; 49; 44;
   123; 34; 107; 34; 58; 110; 117; 108; 108; 125; 93; 44; 34; 114; 34; 58; 123; 34; 120; 34; 58; 34; 121; 34; 125;
   44; 34; 101; 92; 117; 48; 48; 48; 48; 34; 58; 116; 114; 117; 101; 125].

Definition ex_jfloat : bool -> Z -> option str := fun _ _ => Some [49; 46; 53].
Definition ex_jother : Z -> option str := fun _ => Some [123; 125].

Definition ex_out : str :=
  Eval vm_compute in
    match pipeline ex_oracles encode_string parse_top_rv ex_jfloat ex_jother FUEL ex_template ex_template ex_line with
    | Ok o => o | _ => []
    end.

Example template_typed_example :
  build_template ex_oracles FUEL ex_cols new_template = Ok ex_template /\ template_typed ex_template.
Proof.
  assert (E : build_template ex_oracles FUEL ex_cols new_template = Ok ex_template) by (vm_compute; reflexivity).
  split; [exact E|].
  refine (build_template_typed ex_oracles oracles_typed_example FUEL ex_cols new_template ex_template _ new_template_typed E).
  assert (B : forall c, 0 <= c < 256 -> bytes_ok [c]) by (intros c Hc; constructor; [exact Hc | constructor]).
  do 5 (constructor; [apply B; lia|]).
  constructor; [|constructor]. apply td_ok_sub. split; [apply B; lia|].
  constructor; [apply B; lia | constructor].
Qed.

(* the pipeline succeeds on this instance, and the closed theorem applies to it *)
Example pipeline_typed_example :
  pipeline ex_oracles encode_string parse_top_rv ex_jfloat ex_jother FUEL ex_template ex_template ex_line = Ok ex_out
  /\ exists l, ex_out = l ++ [10] /\ is_json_object l = true /\ ~ In 10 l.
Proof.
  assert (E : pipeline ex_oracles encode_string parse_top_rv ex_jfloat ex_jother FUEL ex_template ex_template ex_line
              = Ok ex_out) by (vm_compute; reflexivity).
  split; [exact E|].
  destruct oracle_hyps_example as [Hf Ho].
  exact (pipeline_line_typed ex_oracles ex_jfloat ex_jother Hf Ho oracles_typed_example FUEL ex_template ex_template
           ex_line ex_out (proj2 template_typed_example) (proj2 template_typed_example) E).
Qed.
