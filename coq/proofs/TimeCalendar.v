(* C14, pure part (no floats, no generated code: everything here is closed under the global
   context): the proleptic Gregorian calendar functions of GoTime are mutually inverse on all
   of Z, fixed-width digit fields print and parse back, and RFC 3339 text <-> gtime:
     format_parse          text YYYY-MM-DDThh:mm:ss[.fff](Z|+-hh:mm)  --parse-->  instant, offset, floor(fraction)
     fmt_rfc3339_text      the rendering of a time is that text (no fraction, canonical zone)
     parse_format_rfc3339  parse (format t) = t at one-second resolution *)
From Coq Require Import ZArith List Bool Lia ZifyBool.
From JL.std Require Import GoBase GoStrconv GoTime.
From JL.proofs Require Import StrconvProofs.
Import ListNotations.
Open Scope Z_scope.

#[local] Ltac Zify.zify_post_hook ::= Z.to_euclidean_division_equations.

(* ====================================================================== *)
(* 1. calendar                                                             *)
(* ====================================================================== *)

Definition valid_date (y m d : Z) : Prop := 1 <= m <= 12 /\ 1 <= d <= days_in m y.

Lemma days_from_civil_from_days z :
  let '(y, m, d) := civil_from_days z in days_from_civil y m d = z.
Proof.
  unfold civil_from_days.
  set (z' := z + 719468).
  set (era := z' / 146097).
  set (doe := z' - era * 146097).
  assert (Hdoe : 0 <= doe <= 146096) by (subst doe era; lia).
  set (yoe := (doe - doe / 1460 + doe / 36524 - doe / 146096) / 365).
  assert (Hyoe : 0 <= yoe <= 399) by (subst yoe; lia).
  set (doy := doe - (365 * yoe + yoe / 4 - yoe / 100)).
  assert (Hdoy : 0 <= doy <= 365) by (subst doy yoe; lia).
  set (mp := (5 * doy + 2) / 153).
  assert (Hmp : 0 <= mp <= 11) by (subst mp; lia).
  set (d := doy - (153 * mp + 2) / 5 + 1).
  assert (Hd : 1 <= d <= 31) by (subst d mp; lia).
  destruct (Z.ltb_spec mp 10) as [Hm|Hm].
  - destruct (Z.leb_spec (mp + 3) 2) as [H2|H2]; [lia|].
    unfold days_from_civil.
    destruct (Z.leb_spec (mp + 3) 2); [lia|].
    destruct (Z.ltb_spec 2 (mp + 3)); [|lia].
    replace (mp + 3 - 3) with mp by lia.
    assert (E1 : (yoe + era * 400) / 400 = era) by lia.
    rewrite E1.
    replace (yoe + era * 400 - era * 400) with yoe by lia.
    subst d doy doe z'. lia.
  - destruct (Z.leb_spec (mp - 9) 2) as [H2|H2]; [|lia].
    unfold days_from_civil.
    destruct (Z.leb_spec (mp - 9) 2); [|lia].
    destruct (Z.ltb_spec 2 (mp - 9)); [lia|].
    replace (mp - 9 + 9) with mp by lia.
    replace (yoe + era * 400 + 1 - 1) with (yoe + era * 400) by lia.
    assert (E1 : (yoe + era * 400) / 400 = era) by lia.
    rewrite E1.
    replace (yoe + era * 400 - era * 400) with yoe by lia.
    subst d doy doe z'. lia.
Qed.

Lemma civil_from_days_valid z :
  let '(y, m, d) := civil_from_days z in valid_date y m d.
Proof.
  unfold civil_from_days.
  set (z' := z + 719468).
  set (era := z' / 146097).
  set (doe := z' - era * 146097).
  assert (Hdoe : 0 <= doe <= 146096) by (subst doe era; lia).
  set (yoe := (doe - doe / 1460 + doe / 36524 - doe / 146096) / 365).
  assert (Hyoe : 0 <= yoe <= 399) by (subst yoe; lia).
  set (doy := doe - (365 * yoe + yoe / 4 - yoe / 100)).
  assert (Hdoy : 0 <= doy <= 365) by (subst doy yoe; lia).
  assert (Hdoy' : doy = 365 -> (yoe + 1) mod 4 = 0 /\ ((yoe + 1) mod 100 <> 0 \/ yoe = 399)) by (subst doy yoe; lia).
  set (mp := (5 * doy + 2) / 153).
  assert (Hmp : 0 <= mp <= 11) by (subst mp; lia).
  set (d := doy - (153 * mp + 2) / 5 + 1).
  assert (Hd : 1 <= d <= 31) by (subst d mp; lia).
  clearbody doy yoe era. clear Hdoe doe z'.
  unfold valid_date, days_in, is_leap.
  destruct (mp <? 10) eqn:E10.
  - destruct (mp + 3 <=? 2) eqn:E; [lia|].
    split; [lia|]. split; [lia|].
    destruct (mp + 3 =? 2) eqn:E2; [lia|].
    destruct ((mp + 3 =? 4) || (mp + 3 =? 6) || (mp + 3 =? 9) || (mp + 3 =? 11)) eqn:E30; subst d mp; lia.
  - destruct (mp - 9 <=? 2) eqn:E; [|lia].
    split; [lia|]. split; [lia|].
    destruct (mp - 9 =? 2) eqn:E2.
    + match goal with |- context [if ?c then 29 else 28] => destruct c eqn:El end; subst d mp; lia.
    + destruct ((mp - 9 =? 4) || (mp - 9 =? 6) || (mp - 9 =? 9) || (mp - 9 =? 11)) eqn:E30; subst d mp; lia.
Qed.

(* the year-of-era is recovered from the day-of-era *)
Lemma yoe_of_doe yoe doy :
  0 <= yoe <= 399 -> 0 <= doy ->
  doy <= 364 + (if ((yoe + 1) mod 4 =? 0) && (negb ((yoe + 1) mod 100 =? 0) || (yoe =? 399)) then 1 else 0) ->
  let doe := yoe * 365 + yoe / 4 - yoe / 100 + doy in
  0 <= doe <= 146096 /\ (doe - doe / 1460 + doe / 36524 - doe / 146096) / 365 = yoe.
Proof.
  intros Hy Hd Hl doe. subst doe.
  destruct (((yoe + 1) mod 4 =? 0) && (negb ((yoe + 1) mod 100 =? 0) || (yoe =? 399))) eqn:E; split; lia.
Qed.

Lemma civil_from_days_from_civil y m d :
  valid_date y m d -> civil_from_days (days_from_civil y m d) = (y, m, d).
Proof.
  intros [Hm Hd].
  unfold days_from_civil.
  set (y' := if m <=? 2 then y - 1 else y).
  set (era := y' / 400).
  set (yoe := y' - era * 400).
  assert (Hyoe : 0 <= yoe <= 399) by (subst yoe era; lia).
  set (mp := if 2 <? m then m - 3 else m + 9).
  assert (Hmp : 0 <= mp <= 11) by (subst mp; destruct (2 <? m) eqn:E; lia).
  set (doy := (153 * mp + 2) / 5 + d - 1).
  assert (Hdoy : 0 <= doy <= 364 + (if ((yoe + 1) mod 4 =? 0) && (negb ((yoe + 1) mod 100 =? 0) || (yoe =? 399)) then 1 else 0)).
  { unfold days_in in Hd.
    destruct (((yoe + 1) mod 4 =? 0) && (negb ((yoe + 1) mod 100 =? 0) || (yoe =? 399))) eqn:El';
    destruct (is_leap y) eqn:El; unfold is_leap in El;
    destruct (m =? 2) eqn:E2; destruct ((m =? 4) || (m =? 6) || (m =? 9) || (m =? 11)) eqn:E30;
    subst doy mp yoe era y';
    destruct (m <=? 2) eqn:Em2; destruct (2 <? m) eqn:E2m; try lia. }
  destruct (yoe_of_doe yoe doy Hyoe (proj1 Hdoy) (proj2 Hdoy)) as [Hdoe Hyoe'].
  set (doe := yoe * 365 + yoe / 4 - yoe / 100 + doy) in *.
  unfold civil_from_days.
  replace (era * 146097 + doe - 719468 + 719468) with (era * 146097 + doe) by lia.
  assert (Eera : (era * 146097 + doe) / 146097 = era) by lia.
  rewrite Eera.
  replace (era * 146097 + doe - era * 146097) with doe by lia.
  rewrite Hyoe'.
  replace (doe - (365 * yoe + yoe / 4 - yoe / 100)) with doy by (subst doe; lia).
  assert (Emp : (5 * doy + 2) / 153 = mp).
  { subst doy. clear - Hmp Hd Hm. unfold days_in in Hd.
    destruct (is_leap y); destruct (m =? 2) eqn:E2; destruct ((m =? 4) || (m =? 6) || (m =? 9) || (m =? 11)) eqn:E30;
    subst mp; destruct (2 <? m) eqn:E2m; lia. }
  rewrite Emp.
  replace (doy - (153 * mp + 2) / 5 + 1) with d by (subst doy; lia).
  subst mp yoe era y'.
  destruct (2 <? m) eqn:E2m; destruct (m <=? 2) eqn:Em2; try lia.
  - destruct (m - 3 <? 10) eqn:E10.
    + replace (m - 3 + 3) with m by lia. rewrite Em2. f_equal. f_equal. lia.
    + replace (m - 3 - 9) with (m - 12) by lia. destruct (m - 12 <=? 2) eqn:E; lia.
  - destruct (m + 9 <? 10) eqn:E10; [lia|].
    replace (m + 9 - 9) with m by lia. rewrite Em2. f_equal. f_equal. lia.
Qed.

Lemma days_in_le_31 m y : days_in m y <= 31.
Proof.
  unfold days_in. destruct (m =? 2); [destruct (is_leap y); lia|].
  destruct ((m =? 4) || (m =? 6) || (m =? 9) || (m =? 11)); lia.
Qed.

(* year range <-> day range (0000-01-01 is day -719528, 9999-12-31 is day 2932896) *)
Lemma days_year_ge y m d : 1 <= m <= 12 -> 1 <= d <= 31 -> 10000 <= y -> 2932897 <= days_from_civil y m d.
Proof.
  intros Hm Hd Hy. unfold days_from_civil.
  destruct (m <=? 2) eqn:E1; destruct (2 <? m) eqn:E2; lia.
Qed.

Lemma days_year_le y m d : 1 <= m <= 12 -> 1 <= d <= 31 -> y <= -1 -> days_from_civil y m d <= -719529.
Proof.
  intros Hm Hd Hy. unfold days_from_civil.
  destruct (m <=? 2) eqn:E1; destruct (2 <? m) eqn:E2; lia.
Qed.

Lemma days_year_in y m d :
  1 <= m <= 12 -> 1 <= d <= 31 -> 0 <= y <= 9999 -> -719528 <= days_from_civil y m d <= 2932896 + 31.
Proof.
  intros Hm Hd Hy. unfold days_from_civil.
  destruct (m <=? 2) eqn:E1; destruct (2 <? m) eqn:E2; lia.
Qed.

Lemma civil_year_range z :
  -719528 <= z <= 2932896 -> let '(y, _, _) := civil_from_days z in 0 <= y <= 9999.
Proof.
  intros Hz. pose proof (days_from_civil_from_days z) as Hinv. pose proof (civil_from_days_valid z) as Hv.
  destruct (civil_from_days z) as [[y m] d]. destruct Hv as [Hm Hd].
  pose proof (days_in_le_31 m y) as H31.
  destruct (Z_lt_le_dec y 0) as [Hneg|Hpos].
  - pose proof (days_year_le y m d Hm ltac:(lia) ltac:(lia)). lia.
  - destruct (Z_lt_le_dec 9999 y) as [Hbig|Hok]; [|lia].
    pose proof (days_year_ge y m d Hm ltac:(lia) ltac:(lia)). lia.
Qed.

(* ====================================================================== *)
(* 2. fixed-width digit fields                                             *)
(* ====================================================================== *)

Lemma is_digit_true c : digit_char c -> is_digit c = true.
Proof. unfold digit_char, is_digit. lia. Qed.

Lemma is_digit_false c : ~ digit_char c -> is_digit c = false.
Proof. unfold digit_char, is_digit. lia. Qed.

Lemma digits_value_digits s acc : Forall digit_char s -> digits_value s acc = Some (horner s acc).
Proof.
  intros H. revert acc. induction H as [|c s Hc _ IH]; intros acc; [reflexivity|].
  cbn [digits_value]. rewrite (is_digit_true c Hc). rewrite IH. reflexivity.
Qed.

Lemma horner_cons c s acc : horner (c :: s) acc = horner s (acc * 10 + (c - 48)).
Proof. reflexivity. Qed.

Lemma horner_nil acc : horner [] acc = acc.
Proof. reflexivity. Qed.

(* value of a digit string: linear in the accumulator, and bounded by the width *)
Lemma horner_acc s acc : horner s acc = acc * 10 ^ Z.of_nat (length s) + horner s 0.
Proof.
  revert acc. induction s as [|c s IH]; intros acc.
  - rewrite !horner_nil. cbn [length Z.of_nat]. rewrite Z.pow_0_r. lia.
  - rewrite !horner_cons. rewrite (IH (acc * 10 + (c - 48))), (IH (0 * 10 + (c - 48))).
    cbn [length]. rewrite Nat2Z.inj_succ, Z.pow_succ_r by lia. ring.
Qed.

Lemma horner_bound s : Forall digit_char s -> 0 <= horner s 0 < 10 ^ Z.of_nat (length s).
Proof.
  induction 1 as [|c s Hc _ IH].
  - rewrite horner_nil. cbn. lia.
  - rewrite horner_cons, horner_acc. cbn [length]. rewrite Nat2Z.inj_succ, Z.pow_succ_r by lia.
    unfold digit_char in Hc. unfold byte in *. set (P := 10 ^ Z.of_nat (length s)) in *.
    assert (H1 : 0 <= (c - 48) * P) by (apply Z.mul_nonneg_nonneg; lia).
    assert (H2 : (c - 48) * P <= 9 * P) by (apply Z.mul_le_mono_nonneg_r; lia).
    clearbody P. lia.
Qed.

Definition digits4 (y : Z) : str := [48 + y / 1000; 48 + y / 100 mod 10; 48 + y / 10 mod 10; 48 + y mod 10].

Lemma pad2_digits n : 0 <= n <= 99 -> Forall digit_char (pad2 n) /\ horner (pad2 n) 0 = n.
Proof.
  intros Hn. unfold pad2, digit_char. split; [repeat constructor; lia|].
  unfold horner; cbn [fold_left]. lia.
Qed.

Lemma digits4_digits y : 0 <= y <= 9999 -> Forall digit_char (digits4 y) /\ horner (digits4 y) 0 = y.
Proof.
  intros Hy. unfold digits4, digit_char. split; [repeat constructor; lia|].
  unfold horner; cbn [fold_left]. lia.
Qed.

Lemma parse_field_digits s lo hi :
  Forall digit_char s -> lo <= horner s 0 <= hi -> parse_field s lo hi = Some (horner s 0).
Proof.
  intros Hs Hr. unfold parse_field. rewrite digits_value_digits by exact Hs.
  destruct (Z.ltb_spec (horner s 0) lo); [lia|]. destruct (Z.ltb_spec hi (horner s 0)); [lia|]. reflexivity.
Qed.

Lemma parse_field_pad2 n lo hi : 0 <= n <= 99 -> lo <= n <= hi -> parse_field (pad2 n) lo hi = Some n.
Proof.
  intros Hn Hr. destruct (pad2_digits n Hn) as [Hd Hv].
  rewrite parse_field_digits by (rewrite ?Hv; assumption). rewrite Hv. reflexivity.
Qed.

Lemma parse_field_digits4 y : 0 <= y <= 9999 -> parse_field (digits4 y) 0 9999 = Some y.
Proof.
  intros Hy. destruct (digits4_digits y Hy) as [Hd Hv].
  rewrite parse_field_digits by (rewrite ?Hv; assumption). rewrite Hv. reflexivity.
Qed.

(* four digit characters are determined by their value *)
Lemma digits4_unique a b c e y :
  Forall digit_char [a; b; c; e] -> horner [a; b; c; e] 0 = y -> [a; b; c; e] = digits4 y.
Proof.
  intros H Hv. unfold horner in Hv; cbn [fold_left] in Hv.
  inversion H as [|? ? Ha H1]; subst. inversion H1 as [|? ? Hb H2]; subst.
  inversion H2 as [|? ? Hc H3]; subst. inversion H3 as [|? ? He _]; subst.
  unfold digit_char in *. unfold digits4. repeat f_equal; lia.
Qed.

Ltac fdig :=
  repeat (apply Forall_cons; [first [assumption | unfold digit_char; lia]|]); try apply Forall_nil; try assumption.

(* time.appendInt(b, y, 4) for a year 0..9999: exactly four digits *)
Lemma append_int_4 y : 0 <= y <= 9999 -> append_int y 4 = digits4 y.
Proof.
  intros Hy. unfold append_int. destruct (Z.ltb_spec y 0); [lia|].
  destruct (dec_nat_spec y ltac:(lia)) as [Hall [Hv [Hnz Hz]]].
  destruct (dec_nat y) as [|a [|b [|c [|e [|f r]]]]] eqn:E.
  - exfalso. destruct (Z.eq_dec y 0) as [Hy0|Hne]; [discriminate (Hz Hy0)|].
    destruct (Hnz ltac:(lia)) as [? [? [? _]]]. discriminate.
  - unfold pad_left. cbn [length Nat.sub repeat app].
    pose proof (Forall_inv Hall) as Ha.
    apply digits4_unique; [fdig|]. unfold horner in *; cbn [fold_left] in *. lia.
  - unfold pad_left. cbn [length Nat.sub repeat app].
    pose proof (Forall_inv Hall) as Ha. pose proof (Forall_inv (Forall_inv_tail Hall)) as Hb.
    apply digits4_unique; [fdig|]. unfold horner in *; cbn [fold_left] in *. lia.
  - unfold pad_left. cbn [length Nat.sub repeat app].
    pose proof (Forall_inv Hall) as Ha. pose proof (Forall_inv (Forall_inv_tail Hall)) as Hb.
    pose proof (Forall_inv (Forall_inv_tail (Forall_inv_tail Hall))) as Hc.
    apply digits4_unique; [fdig|]. unfold horner in *; cbn [fold_left] in *. lia.
  - unfold pad_left. cbn [length Nat.sub repeat app].
    apply digits4_unique; assumption.
  - exfalso. destruct (Z.eq_dec y 0) as [Hy0|Hne]; [discriminate (Hz Hy0)|].
    destruct (Hnz ltac:(lia)) as [a' [r' [Er Ha']]]. inversion Er; subst a' r'.
    pose proof (Forall_inv Hall) as Ha. pose proof (Forall_inv_tail Hall) as Hrest.
    rewrite horner_cons, horner_acc in Hv.
    pose proof (horner_bound _ Hrest) as Hb.
    assert (Hl : 10 ^ 4 <= 10 ^ Z.of_nat (length (b :: c :: e :: f :: r))).
    { apply Z.pow_le_mono_r; [lia|]. cbn [length]. lia. }
    unfold digit_char in Ha. change (10 ^ 4) with 10000 in Hl. unfold byte in *.
    set (P := 10 ^ Z.of_nat (length (b :: c :: e :: f :: r))) in *. clearbody P.
    assert (H1 : 1 * P <= (a - 48) * P) by (apply Z.mul_le_mono_nonneg_r; lia).
    lia.
Qed.

(* ====================================================================== *)
(* 3. RFC 3339 text                                                        *)
(* ====================================================================== *)

(* --- fractional seconds: at most nine digits are used; the value is the floor --- *)
Lemma firstn_app_exact {A} (a b : list A) n : length a = n -> firstn n (a ++ b) = a.
Proof. intros <-. rewrite firstn_app, Nat.sub_diag, firstn_all. cbn [firstn]. apply app_nil_r. Qed.

Lemma nanos_long (a b : str) :
  length a = 9%nat -> Forall digit_char b ->
  horner (a ++ b) 0 * 10 ^ 9 / 10 ^ Z.of_nat (length (a ++ b)) = horner a 0.
Proof.
  intros La Hb. unfold str, byte in *.
  rewrite horner_app, (horner_acc b (horner a 0)), app_length, Nat2Z.inj_add, La.
  pose proof (horner_bound b Hb) as Bb.
  set (A := horner a 0). set (B := horner b 0) in *. set (P := 10 ^ Z.of_nat (length b)) in *.
  assert (Hp : 0 < P) by (apply Z.pow_pos_nonneg; lia).
  rewrite Z.pow_add_r by lia. fold P. change (10 ^ Z.of_nat 9) with (10 ^ 9).
  rewrite <- Z.div_div by lia. rewrite Z.div_mul by lia.
  rewrite Z.div_add_l by lia. rewrite Z.div_small by lia. lia.
Qed.

Lemma nanos_floor (ds : str) :
  Forall digit_char ds ->
  nanos_of_digits ds = horner ds 0 * 10 ^ 9 / 10 ^ Z.of_nat (length ds)
  /\ 0 <= nanos_of_digits ds < 10 ^ 9.
Proof.
  intros Hd. unfold nanos_of_digits. unfold str, byte in *.
  destruct (Nat.le_gt_cases (length ds) 9) as [Hle|Hgt].
  - rewrite firstn_all2 by exact Hle. rewrite digits_value_digits by exact Hd.
    pose proof (horner_bound ds Hd) as Hb.
    assert (Hl : 0 <= Z.of_nat (length ds) <= 9) by lia. set (l := Z.of_nat (length ds)) in *. clearbody l.
    assert (E9 : 10 ^ 9 = 10 ^ (9 - l) * 10 ^ l) by (rewrite <- Z.pow_add_r by lia; f_equal; lia).
    assert (Hp : 0 < 10 ^ l) by (apply Z.pow_pos_nonneg; lia).
    split.
    + rewrite E9, Z.mul_assoc, Z.div_mul by lia. reflexivity.
    + rewrite E9. assert (Hq : 0 < 10 ^ (9 - l)) by (apply Z.pow_pos_nonneg; lia).
      split; [apply Z.mul_nonneg_nonneg; lia|].
      rewrite (Z.mul_comm (10 ^ (9 - l))). apply Z.mul_lt_mono_pos_r; lia.
  - pose proof Hd as Hd'. rewrite <- (firstn_skipn 9 ds) in Hd'. apply Forall_app in Hd' as [Ha Hb].
    assert (La : length (firstn 9 ds) = 9%nat) by (rewrite firstn_length; lia).
    rewrite digits_value_digits by exact Ha. rewrite La.
    pose proof (horner_bound _ Ha) as Ba. rewrite La in Ba.
    replace (10 ^ (9 - Z.of_nat 9)) with 1 by reflexivity. rewrite Z.mul_1_r.
    split; [|exact Ba].
    pose proof (nanos_long (firstn 9 ds) (skipn 9 ds) La Hb) as E. rewrite firstn_skipn in E.
    symmetry. exact E.
Qed.

Lemma take_digits_app (ds rest : str) :
  Forall digit_char ds -> match rest with [] => True | c :: _ => is_digit c = false end ->
  take_digits (ds ++ rest) = (ds, rest).
Proof.
  intros Hd Hr. induction Hd as [|c ds Hc _ IH]; cbn [app take_digits].
  - destruct rest as [|c r]; [reflexivity|]. cbn [take_digits]. rewrite Hr. reflexivity.
  - rewrite (is_digit_true c Hc), IH. reflexivity.
Qed.

(* --- the part of time.parseRFC3339 after the seconds field (same text as in GoTime) --- *)
Definition parse_zone (base nsec : Z) (rest : str) : option gtime :=
  match rest with
  | [90] => Some {| tsec := base; tnsec := nsec; toff := 0 |}
  | [sg; h1; h2; col; m1; m2] =>
      match parse_field [h1; h2] 0 23, parse_field [m1; m2] 0 59 with
      | Some hr, Some mm =>
          if negb (((sg =? 45) || (sg =? 43)) && (col =? 58)) then None else
          let zo := (hr * 60 + mm) * 60 in
          let zo := if sg =? 45 then - zo else zo in
          Some {| tsec := base - zo; tnsec := nsec; toff := zo |}
      | _, _ => None
      end
  | _ => None
  end.

Definition parse_tail (base : Z) (rest : str) : option gtime :=
  let '(nsec, rest) :=
    match rest with
    | c0 :: c1 :: _ =>
        if (c0 =? 46) && is_digit c1 then
          let '(ds, r) := take_digits (skipn 1 rest) in (nanos_of_digits ds, r)
        else (0, rest)
    | _ => (0, rest)
    end in
  parse_zone base nsec rest.

Lemma parse_fast_shape y1 y2 y3 y4 m1 m2 d1 d2 h1 h2 i1 i2 s1 s2 tail y mo d hh mi ss :
  parse_field [y1; y2; y3; y4] 0 9999 = Some y -> parse_field [m1; m2] 1 12 = Some mo ->
  parse_field [d1; d2] 1 (days_in mo y) = Some d -> parse_field [h1; h2] 0 23 = Some hh ->
  parse_field [i1; i2] 0 59 = Some mi -> parse_field [s1; s2] 0 59 = Some ss ->
  parse_rfc3339_fast ([y1; y2; y3; y4; 45; m1; m2; 45; d1; d2; 84; h1; h2; 58; i1; i2; 58; s1; s2] ++ tail)
  = parse_tail (unix_of_civil y mo d hh mi ss) tail.
Proof.
  intros Hy Hmo Hd Hh Hi Hs. unfold parse_rfc3339_fast.
  cbn [length app Nat.ltb Nat.leb sub Nat.sub skipn firstn char_at nth].
  rewrite Hy, Hmo, Hd, Hh, Hi, Hs. reflexivity.
Qed.

(* --- zone designators --- *)
Inductive zspec := ZUtc | ZNum (neg : bool) (h m : Z).

Definition zone_text (zs : zspec) : str :=
  match zs with
  | ZUtc => [90]
  | ZNum neg h m => (if neg then 45 else 43) :: pad2 h ++ [58] ++ pad2 m
  end.

Definition zone_off (zs : zspec) : Z :=
  match zs with
  | ZUtc => 0
  | ZNum neg h m => if neg then - ((h * 60 + m) * 60) else (h * 60 + m) * 60
  end.

Definition zone_ok (zs : zspec) : Prop :=
  match zs with ZUtc => True | ZNum _ h m => 0 <= h <= 23 /\ 0 <= m <= 59 end.

(* the spelling Format chooses: "Z" for offset 0 (so "+00:00" and "-00:00" become "Z") *)
Definition zcanon (zs : zspec) : zspec := if zone_off zs =? 0 then ZUtc else zs.

(* the zone element Format produces for an offset *)
Definition zone_of_off (off : Z) : zspec :=
  if off =? 0 then ZUtc
  else let zone := Z.quot off 60 in
       if zone <? 0 then ZNum true ((- zone) / 60) ((- zone) mod 60) else ZNum false (zone / 60) (zone mod 60).

Definition off_ok (off : Z) : Prop := - 86400 < off < 86400 /\ off mod 60 = 0.

Lemma fmt_zone_text off : fmt_zone off = zone_text (zone_of_off off).
Proof.
  unfold fmt_zone, zone_of_off. destruct (off =? 0); [reflexivity|].
  destruct (Z.quot off 60 <? 0); reflexivity.
Qed.

Lemma zone_of_off_ok off : off_ok off -> zone_ok (zone_of_off off) /\ zone_off (zone_of_off off) = off.
Proof.
  intros [Hr Hm]. unfold zone_of_off.
  destruct (Z.eqb_spec off 0) as [->|Hne]; [split; [exact I | reflexivity]|].
  destruct (Z.ltb_spec (Z.quot off 60) 0); cbn [zone_ok zone_off]; lia.
Qed.

Lemma zone_off_ok zs : zone_ok zs -> off_ok (zone_off zs).
Proof. destruct zs as [|neg h m]; cbn [zone_ok zone_off]; unfold off_ok; [lia|]. destruct neg; lia. Qed.

Lemma zone_of_off_canon zs : zone_ok zs -> zone_of_off (zone_off zs) = zcanon zs.
Proof.
  intros Hz. unfold zcanon, zone_of_off. destruct (Z.eqb_spec (zone_off zs) 0) as [E|Hne]; [reflexivity|].
  destruct zs as [|neg h m]; [contradiction Hne; reflexivity|]. cbn [zone_ok zone_off] in *.
  destruct neg.
  - destruct (Z.ltb_spec (Z.quot (- ((h * 60 + m) * 60)) 60) 0); [|lia]. f_equal; lia.
  - destruct (Z.ltb_spec (Z.quot ((h * 60 + m) * 60) 60) 0); [lia|]. f_equal; lia.
Qed.

Lemma parse_zone_text base nsec zs :
  zone_ok zs ->
  parse_zone base nsec (zone_text zs) = Some {| tsec := base - zone_off zs; tnsec := nsec; toff := zone_off zs |}.
Proof.
  destruct zs as [|neg h m]; cbn [zone_ok zone_text zone_off]; intros Hz.
  - cbn [parse_zone]. rewrite Z.sub_0_r. reflexivity.
  - destruct Hz as [Hh Hm].
    pose proof (parse_field_pad2 h 0 23 ltac:(lia) ltac:(lia)) as Ph.
    pose proof (parse_field_pad2 m 0 59 ltac:(lia) ltac:(lia)) as Pm.
    unfold pad2 in *. destruct neg; cbn [app]; unfold parse_zone; unfold str, byte in *; rewrite Ph, Pm; reflexivity.
Qed.

Lemma zone_text_first zs : match zone_text zs with [] => True | c :: _ => is_digit c = false /\ (c =? 46) = false end.
Proof. destruct zs as [|[|] h m]; cbn; split; reflexivity. Qed.

Lemma parse_tail_zone base zs :
  zone_ok zs ->
  parse_tail base (zone_text zs) = Some {| tsec := base - zone_off zs; tnsec := 0; toff := zone_off zs |}.
Proof.
  intros Hz. rewrite <- (parse_zone_text base 0 zs Hz). unfold parse_tail.
  destruct zs as [|[|] h m]; reflexivity.
Qed.

Lemma parse_tail_frac base (frac : str) zs :
  frac <> [] -> Forall digit_char frac -> zone_ok zs ->
  parse_tail base (46 :: frac ++ zone_text zs)
  = Some {| tsec := base - zone_off zs; tnsec := nanos_of_digits frac; toff := zone_off zs |}.
Proof.
  intros Hne Hd Hz. destruct frac as [|c1 fr]; [contradiction Hne; reflexivity|].
  unfold parse_tail. cbn [app]. rewrite (is_digit_true c1 (Forall_inv Hd)).
  change (46 =? 46) with true. cbn [andb skipn].
  change (c1 :: fr ++ zone_text zs) with ((c1 :: fr) ++ zone_text zs).
  rewrite take_digits_app; [apply parse_zone_text; exact Hz | exact Hd |].
  pose proof (zone_text_first zs) as Hf. destruct (zone_text zs); [exact I | apply Hf].
Qed.

(* --- the text  YYYY-MM-DDThh:mm:ss[.fff](Z|+-hh:mm) --- *)
Definition frac_text (frac : str) : str := match frac with [] => [] | _ => 46 :: frac end.

Definition rfc3339_text (y mo d hh mi ss : Z) (frac : str) (zs : zspec) : str :=
  digits4 y ++ [45] ++ pad2 mo ++ [45] ++ pad2 d ++ [84] ++ pad2 hh ++ [58] ++ pad2 mi ++ [58] ++ pad2 ss
  ++ frac_text frac ++ zone_text zs.

Definition civil_ok (y mo d hh mi ss : Z) : Prop :=
  0 <= y <= 9999 /\ valid_date y mo d /\ 0 <= hh <= 23 /\ 0 <= mi <= 59 /\ 0 <= ss <= 59.

Lemma days_in_ge_28 m y : 28 <= days_in m y.
Proof.
  unfold days_in. destruct (m =? 2); [destruct (is_leap y); lia|].
  destruct ((m =? 4) || (m =? 6) || (m =? 9) || (m =? 11)); lia.
Qed.

Lemma parse_text_tail y mo d hh mi ss tail :
  civil_ok y mo d hh mi ss ->
  parse_rfc3339_fast (digits4 y ++ [45] ++ pad2 mo ++ [45] ++ pad2 d ++ [84] ++ pad2 hh ++ [58] ++ pad2 mi
                      ++ [58] ++ pad2 ss ++ tail)
  = parse_tail (unix_of_civil y mo d hh mi ss) tail.
Proof.
  intros [Hy [[Hmo Hd] [Hh [Hmi Hs]]]]. pose proof (days_in_le_31 mo y) as H31.
  pose proof (parse_field_digits4 y Hy) as Py.
  pose proof (parse_field_pad2 mo 1 12 ltac:(lia) ltac:(lia)) as Pmo.
  pose proof (parse_field_pad2 d 1 (days_in mo y) ltac:(lia) ltac:(lia)) as Pd.
  pose proof (parse_field_pad2 hh 0 23 ltac:(lia) ltac:(lia)) as Ph.
  pose proof (parse_field_pad2 mi 0 59 ltac:(lia) ltac:(lia)) as Pmi.
  pose proof (parse_field_pad2 ss 0 59 ltac:(lia) ltac:(lia)) as Ps.
  unfold digits4, pad2 in *. cbn [app].
  exact (parse_fast_shape _ _ _ _ _ _ _ _ _ _ _ _ _ _ tail y mo d hh mi ss Py Pmo Pd Ph Pmi Ps).
Qed.

(* format_parse: the strict parser reads a well-formed text as exactly the civil instant minus
   the offset, keeps the offset, and takes the FLOOR of the fraction in nanoseconds *)
Theorem format_parse y mo d hh mi ss (frac : str) zs :
  civil_ok y mo d hh mi ss -> Forall digit_char frac -> zone_ok zs ->
  parse_rfc3339_fast (rfc3339_text y mo d hh mi ss frac zs)
  = Some {| tsec := unix_of_civil y mo d hh mi ss - zone_off zs;
            tnsec := horner frac 0 * 10 ^ 9 / 10 ^ Z.of_nat (length frac);
            toff := zone_off zs |}.
Proof.
  intros Hc Hf Hz. unfold rfc3339_text. rewrite parse_text_tail by exact Hc.
  destruct frac as [|c fr].
  - cbn [frac_text app]. rewrite parse_tail_zone by exact Hz. reflexivity.
  - cbn [frac_text]. change ((46 :: c :: fr) ++ zone_text zs) with (46 :: (c :: fr) ++ zone_text zs).
    rewrite parse_tail_frac by (try discriminate; assumption).
    destruct (nanos_floor (c :: fr) Hf) as [E _]. rewrite E. reflexivity.
Qed.

Lemma frac_floor_range (frac : str) :
  Forall digit_char frac -> 0 <= horner frac 0 * 10 ^ 9 / 10 ^ Z.of_nat (length frac) < 10 ^ 9.
Proof. intros Hf. destruct (nanos_floor frac Hf) as [E B]. rewrite <- E. exact B. Qed.

(* ====================================================================== *)
(* 4. Format, and parse after format                                       *)
(* ====================================================================== *)

(* the instant (plus offset) is within the span Go's 64-bit absolute seconds represent without
   wrapping: true of every time.Time whose Unix seconds + offset fit comfortably in int64 *)
Definition no_wrap (t : gtime) : Prop :=
  - unix_to_absolute <= tsec t + toff t < 2 ^ 64 - unix_to_absolute.

(* the wall-clock year of t in its own zone is 0000..9999 *)
Definition year_ok (t : gtime) : Prop := 0 <= cy (civil_of t) <= 9999.

(* seconds of 0000-01-01T00:00:00 .. 9999-12-31T23:59:59 *)
Definition sec_range (a : Z) : Prop := -62167219200 <= a <= 253402300799.

Lemma abs_wrap_id a : - unix_to_absolute <= a < 2 ^ 64 - unix_to_absolute -> abs_wrap a = a.
Proof.
  unfold abs_wrap, unix_to_absolute. change (2 ^ 64) with 18446744073709551616. intros H.
  rewrite Z.mod_small by lia. lia.
Qed.

Lemma civil_of_fields t :
  no_wrap t ->
  let c := civil_of t in
  valid_date (cy c) (cmo c) (cd c) /\ 0 <= chh c <= 23 /\ 0 <= cmi c <= 59 /\ 0 <= css c <= 59
  /\ unix_of_civil (cy c) (cmo c) (cd c) (chh c) (cmi c) (css c) = tsec t + toff t.
Proof.
  intros Hw. unfold civil_of. rewrite abs_wrap_id by exact Hw.
  set (a := tsec t + toff t).
  pose proof (civil_from_days_valid (a / 86400)) as Hv.
  pose proof (days_from_civil_from_days (a / 86400)) as Hinv.
  destruct (civil_from_days (a / 86400)) as [[y m] d]. cbn [cy cmo cd chh cmi css].
  split; [exact Hv|]. unfold unix_of_civil. rewrite Hinv. lia.
Qed.

Lemma sec_range_year t : sec_range (tsec t + toff t) -> no_wrap t /\ year_ok t.
Proof.
  unfold sec_range. intros Hr.
  assert (Hw : no_wrap t).
  { unfold no_wrap, unix_to_absolute. change (2 ^ 64) with 18446744073709551616. lia. }
  split; [exact Hw|]. unfold year_ok, civil_of. rewrite abs_wrap_id by exact Hw.
  set (a := tsec t + toff t) in *.
  pose proof (civil_year_range (a / 86400) ltac:(lia)) as Hy.
  destruct (civil_from_days (a / 86400)) as [[y m] d]. exact Hy.
Qed.

(* a time whose wall clock is a given civil date-time *)
Lemma civil_of_unix t y mo d hh mi ss :
  civil_ok y mo d hh mi ss -> tsec t + toff t = unix_of_civil y mo d hh mi ss ->
  civil_of t = {| cy := y; cmo := mo; cd := d; chh := hh; cmi := mi; css := ss |} /\ sec_range (tsec t + toff t).
Proof.
  intros [Hy [[Hmo Hd] [Hh [Hmi Hs]]]] E. pose proof (days_in_le_31 mo y) as H31.
  pose proof (days_year_in y mo d Hmo ltac:(lia) Hy) as Hdays.
  assert (Hlt : days_from_civil y mo d <= 2932896).
  { destruct (Z_le_gt_dec (days_from_civil y mo d) 2932896) as [Hle|Hgt]; [exact Hle|exfalso].
    revert Hgt. unfold days_from_civil.
    destruct (mo <=? 2) eqn:E1; destruct (2 <? mo) eqn:E2; unfold days_in in Hd;
      destruct (mo =? 2) eqn:E3; destruct ((mo =? 4) || (mo =? 6) || (mo =? 9) || (mo =? 11)) eqn:E4;
      destruct (is_leap y) eqn:E5; unfold is_leap in E5; lia. }
  assert (Hsr : sec_range (tsec t + toff t)) by (rewrite E; unfold sec_range, unix_of_civil; lia).
  split; [|exact Hsr].
  destruct (sec_range_year t Hsr) as [Hw _].
  unfold civil_of. rewrite abs_wrap_id by exact Hw. rewrite E. unfold unix_of_civil.
  set (D := days_from_civil y mo d) in *.
  assert (Ed : (D * 86400 + hh * 3600 + mi * 60 + ss) / 86400 = D) by lia.
  rewrite Ed. subst D. rewrite (civil_from_days_from_civil y mo d (conj Hmo Hd)).
  f_equal; lia.
Qed.

(* Format(RFC3339): the text of the wall clock, no fraction, "Z" for offset 0 *)
Theorem fmt_rfc3339_text t :
  no_wrap t -> year_ok t -> off_ok (toff t) ->
  let c := civil_of t in
  civil_ok (cy c) (cmo c) (cd c) (chh c) (cmi c) (css c)
  /\ fmt_rfc3339 t = rfc3339_text (cy c) (cmo c) (cd c) (chh c) (cmi c) (css c) [] (zone_of_off (toff t)).
Proof.
  intros Hw Hy Ho c. destruct (civil_of_fields t Hw) as [Hv [Hh [Hmi [Hs _]]]]. fold c in Hv, Hh, Hmi, Hs.
  unfold year_ok in Hy. fold c in Hy.
  split; [unfold civil_ok; tauto|].
  unfold fmt_rfc3339, fmt_date_civil, rfc3339_text. fold c.
  rewrite append_int_4 by exact Hy. rewrite fmt_zone_text. cbn [frac_text].
  rewrite <- !app_assoc. reflexivity.
Qed.

(* parse_format_rfc3339: Parse(RFC3339, t.Format(RFC3339)) is t at one-second resolution, with
   t's own offset *)
Theorem parse_format_rfc3339 t :
  no_wrap t -> year_ok t -> off_ok (toff t) ->
  parse_rfc3339_fast (fmt_rfc3339 t) = Some {| tsec := tsec t; tnsec := 0; toff := toff t |}.
Proof.
  intros Hw Hy Ho. destruct (fmt_rfc3339_text t Hw Hy Ho) as [Hc E]. rewrite E.
  destruct (zone_of_off_ok (toff t) Ho) as [Hz Eoff].
  rewrite format_parse by (try assumption; constructor).
  destruct (civil_of_fields t Hw) as [_ [_ [_ [_ Eu]]]]. rewrite Eu, Eoff.
  f_equal. f_equal. lia.
Qed.

Corollary parse_format_rfc3339_range t :
  sec_range (tsec t + toff t) -> off_ok (toff t) ->
  parse_rfc3339_fast (fmt_rfc3339 t) = Some {| tsec := tsec t; tnsec := 0; toff := toff t |}.
Proof. intros Hr Ho. destruct (sec_range_year t Hr) as [Hw Hy]. exact (parse_format_rfc3339 t Hw Hy Ho). Qed.

(* the rendering of a time whose wall clock and offset come from a well-formed text is that
   text without its fraction and with the canonical zone spelling *)
Theorem fmt_of_parsed y mo d hh mi ss zs nsec :
  civil_ok y mo d hh mi ss -> zone_ok zs ->
  fmt_rfc3339 {| tsec := unix_of_civil y mo d hh mi ss - zone_off zs; tnsec := nsec; toff := zone_off zs |}
  = rfc3339_text y mo d hh mi ss [] (zcanon zs).
Proof.
  intros Hc Hz. set (t := {| tsec := _; tnsec := nsec; toff := zone_off zs |}).
  assert (E : tsec t + toff t = unix_of_civil y mo d hh mi ss) by (cbn [tsec toff t]; lia).
  destruct (civil_of_unix t y mo d hh mi ss Hc E) as [Ec Hr].
  destruct (sec_range_year t Hr) as [Hw Hy].
  destruct (fmt_rfc3339_text t Hw Hy (zone_off_ok zs Hz)) as [_ Ef].
  rewrite Ef, Ec. cbn [cy cmo cd chh cmi css toff t]. rewrite zone_of_off_canon by exact Hz. reflexivity.
Qed.

Lemma zcanon_ok zs : zone_ok zs -> zone_ok (zcanon zs) /\ zone_off (zcanon zs) = zone_off zs.
Proof.
  intros Hz. unfold zcanon. destruct (Z.eqb_spec (zone_off zs) 0) as [E|E]; [|tauto].
  split; [exact I | rewrite E; reflexivity].
Qed.

(* ====================================================================== *)
(* 5. a decimal integer is never taken for an RFC 3339 time by the strict parser *)
(* ====================================================================== *)

Lemma parse_fast_dash s t : parse_rfc3339_fast s = Some t -> char_at s 4 = 45.
Proof.
  unfold parse_rfc3339_fast. destruct (length s <? 19)%nat; [discriminate|].
  destruct (parse_field (sub s 0 4) 0 9999) as [y|]; [|discriminate].
  destruct (parse_field (sub s 5 7) 1 12) as [mo|]; [|discriminate].
  destruct (parse_field (sub s 8 10) 1 (days_in mo y)); [|discriminate].
  destruct (parse_field (sub s 11 13) 0 23); [|discriminate].
  destruct (parse_field (sub s 14 16) 0 59); [|discriminate].
  destruct (parse_field (sub s 17 19) 0 59); [|discriminate].
  destruct (Z.eqb_spec (char_at s 4) 45) as [E|E]; [intros _; exact E|].
  cbn [andb negb]. discriminate.
Qed.

Lemma nth_digit_not_dash (s : str) i : Forall digit_char s -> nth i s (-1) <> 45.
Proof.
  intros H. revert i. induction H as [|c s Hc _ IH]; intros i.
  - destruct i; cbn [nth]; lia.
  - destruct i as [|i]; cbn [nth]; [unfold digit_char in Hc; lia | apply IH].
Qed.

Lemma parse_fast_dec_none z : parse_rfc3339_fast (dec z) = None.
Proof.
  destruct (parse_rfc3339_fast (dec z)) as [t|] eqn:E; [exfalso|reflexivity].
  apply parse_fast_dash in E. unfold char_at, dec in E.
  destruct (Z.ltb_spec z 0).
  - destruct (dec_nat_spec (- z) ltac:(lia)) as [Hall _]. cbn [nth] in E.
    exact (nth_digit_not_dash _ 3 Hall E).
  - destruct (dec_nat_spec z ltac:(lia)) as [Hall _]. exact (nth_digit_not_dash _ 4 Hall E).
Qed.

(* ====================================================================== *)
(* 6. the hypotheses are satisfiable                                       *)
(* ====================================================================== *)

(* a leap day, a twelve-digit fraction (floor: 999999999 ns, not the next second), a +05:30 zone *)
Example format_parse_nonvacuous :
  civil_ok 2024 2 29 23 59 59 /\ zone_ok (ZNum false 5 30) /\ zone_off (ZNum true 3 30) = -12600
  /\ parse_rfc3339_fast (rfc3339_text 2024 2 29 23 59 59 [57;57;57;57;57;57;57;57;57;57;56;55] (ZNum false 5 30))
     = Some {| tsec := 1709231399; tnsec := 999999999; toff := 19800 |}.
Proof.
  split; [unfold civil_ok, valid_date; cbn; lia|]. split; [cbn; lia|]. split; reflexivity.
Qed.

Example parse_format_nonvacuous :
  let t := {| tsec := 253402300799 + 12600; tnsec := 123; toff := -12600 |} in
  no_wrap t /\ year_ok t /\ off_ok (toff t)
  /\ fmt_rfc3339 t = [57;57;57;57;45;49;50;45;51;49;84;50;51;58;53;57;58;53;57;45;48;51;58;51;48].
Proof.
  cbv zeta. split; [unfold no_wrap, unix_to_absolute; cbn; lia|].
  split; [unfold year_ok; vm_compute; split; discriminate|].
  split; [unfold off_ok; cbn [toff]; split; [lia | reflexivity]|]. vm_compute. reflexivity.
Qed.
