(* C17 — no public operation of the row model panics: every place where Go would panic is an
   explicit [Panic] outcome of the model (a cast that panics, a method call on a nil Value when
   a listed key is missing from the map, the type assertion in importFromBinary); this file
   proves that none is reachable from well-formed rows, for every key, index, path and value. *)
From Coq Require Import ZArith List Bool Lia.
From JL.std Require Import GoBase GoFloat GoStrconv GoTime GoVal GoBase64.
From JL.gen Require Import CastGen ConvGen.
From JL.model Require Import CastRun Row MapTo RowRun.
From JL.proofs Require Import CastTotal RowProofs.
Import ListNotations.
Open Scope Z_scope.

Definition np {A} (r : res A) : Prop := r <> Panic.

(* ---------- well-formed values: every row inside satisfies the invariant of C06 ---------- *)
Fixpoint wf_rv (v : rv) : Prop :=
  match v with
  | RS _ => True
  | RArr l => (fix go (l : list rv) : Prop := match l with [] => True | x :: t => wf_rv x /\ go t end) l
  | RMap m => (fix go (m : list (str * rv)) : Prop := match m with [] => True | (_, x) :: t => wf_rv x /\ go t end) m
  | RV c => wf_cell c
  end
with wf_cell (c : cell) : Prop :=
  match c with
  | CVal raw _ _ => wf_rv raw
  | CRow r => wf_crow r
  end
with wf_crow (r : crow) : Prop :=
  match r with
  | MkRow m l =>
      Inv (MkRow m l)
      /\ (fix go (m : list (str * cell)) : Prop := match m with [] => True | (_, c) :: t => wf_cell c /\ go t end) m
  end.

Definition wf_cells (m : list (str * cell)) : Prop := Forall (fun kc => wf_cell (snd kc)) m.
Definition wf_rvs (l : list rv) : Prop := Forall wf_rv l.
Definition wf_kvs (m : list (str * rv)) : Prop := Forall (fun kv => wf_rv (snd kv)) m.

Lemma wf_crow_eq r : wf_crow r <-> Inv r /\ wf_cells (row_m r).
Proof.
  destruct r as [m l]. cbn [wf_crow row_m]. apply and_iff_compat_l. unfold wf_cells.
  induction m as [|[k c] m IH]; [split; auto|]. rewrite Forall_cons_iff, <- IH. cbn. tauto.
Qed.
Lemma wf_arr_eq l : wf_rv (RArr l) <-> wf_rvs l.
Proof. cbn [wf_rv]. unfold wf_rvs. induction l as [|x l IH]; [split; auto|]. rewrite Forall_cons_iff, <- IH. tauto. Qed.
Lemma wf_map_eq m : wf_rv (RMap m) <-> wf_kvs m.
Proof. cbn [wf_rv]. unfold wf_kvs. induction m as [|[k x] m IH]; [split; auto|]. rewrite Forall_cons_iff, <- IH. cbn. tauto. Qed.

Lemma wf_new_row : wf_crow new_row.
Proof. apply wf_crow_eq. split; [apply Inv_new | constructor]. Qed.

Lemma wf_cells_lookup m k c : wf_cells m -> alookup k m = Some c -> wf_cell c.
Proof.
  induction m as [|[k' c'] m IH]; cbn; [discriminate|]. intros H. inversion H; subst.
  destruct (str_eqb k k'); [intros [= <-]; auto | auto].
Qed.

Lemma wf_cells_aset m k c : wf_cells m -> wf_cell c -> wf_cells (aset k c m).
Proof.
  induction m as [|[k' c'] m IH]; cbn; intros H Hc; [repeat constructor; auto|].
  inversion H; subst. destruct (str_eqb k k'); constructor; auto. now apply IH.
Qed.

Lemma wf_kvs_aset (m : list (str * rv)) k v : wf_kvs m -> wf_rv v -> wf_kvs (aset k v m).
Proof.
  induction m as [|[k' c'] m IH]; cbn; intros H Hc; [repeat constructor; auto|].
  inversion H; subst. destruct (str_eqb k k'); constructor; auto. now apply IH.
Qed.

Lemma wf_store k c r : wf_crow r -> wf_cell c -> wf_crow (store k c r).
Proof.
  rewrite !wf_crow_eq. intros [Hi Hc] Hw. split; [now apply Inv_store|].
  rewrite store_m. now apply wf_cells_aset.
Qed.

Lemma wf_get r k c : wf_crow r -> get_value k r = Some c -> wf_cell c.
Proof. rewrite wf_crow_eq. intros [_ H]. apply wf_cells_lookup, H. Qed.

Lemma wf_set_existing k c r : wf_crow r -> wf_cell c -> get_value k r <> None -> wf_crow (set_cell k c r).
Proof.
  intros Hr Hc Hg. rewrite set_cell_existing; [now apply wf_store|].
  unfold row_has, ahas. unfold get_value in Hg. destruct (alookup k (row_m r)); congruence.
Qed.

Lemma wf_stores r r' : stores r r' -> True. Proof. auto. Qed.

Section Safe.
  Context (O : oracles).

  (* ---------- casts and conversions never panic (C10) ---------- *)
  Lemma np_good w v r : good w v r -> np r.
  Proof. unfold good, np. destruct r; intros H; try discriminate; contradiction. Qed.

  Lemma np_To t v : np (To O t v). Proof. eapply np_good, To_good. Qed.
  Lemma np_ToString v : np (ToString O v). Proof. eapply np_good, ToString_good. Qed.
  Lemma np_ToNumber v : np (ToNumber O v). Proof. eapply np_good, ToNumber_good. Qed.
  Lemma np_ToBool v : np (ToBool O v). Proof. eapply np_good, ToBool_good. Qed.
  Lemma np_ToBinary v : np (ToBinary O v). Proof. eapply np_good, ToBinary_good. Qed.
  Lemma np_ToDate v : np (ToDate O v). Proof. eapply np_good, ToDate_good. Qed.
  Lemma np_ToTime v : np (ToTime O v). Proof. eapply np_good, ToTime_good. Qed.
  Lemma np_ToTimestamp v : np (ToTimestamp O v). Proof. eapply np_good, ToTimestamp_good. Qed.
  Lemma np_ToInt64 v : np (ToInt64 O v). Proof. eapply np_good, ToInt64_good. Qed.

  Lemma ToString_is_str v x : ToString O v = Ok x -> v <> VNil -> exists s, x = VStr s.
  Proof.
    intros E Hv. pose proof (ToString_good O v) as H. rewrite E in H. cbn in H. destruct H as [H1 H2].
    assert (Hx : x <> VNil) by (intros ->; apply Hv, H1; reflexivity).
    specialize (H2 Hx). destruct x; cbn in H2; try discriminate. eauto.
  Qed.

  Ltac kill F := let E := fresh "E" in destruct F eqn:E; try discriminate;
                 try (exfalso; first [ eapply np_To; eassumption | eapply np_ToString; eassumption
                                     | eapply np_ToNumber; eassumption | eapply np_ToBool; eassumption
                                     | eapply np_ToBinary; eassumption | eapply np_ToDate; eassumption
                                     | eapply np_ToTime; eassumption | eapply np_ToTimestamp; eassumption
                                     | eapply np_ToInt64; eassumption ]).

  Lemma np_lift r : np r -> np (lift r).
  Proof. unfold np. destruct r; cbn; congruence. Qed.

  Lemma ToBinary_is_bytes v x : ToBinary O v = Ok x -> v <> VNil -> exists b, x = VBytes b.
  Proof.
    intros E Hv. pose proof (ToBinary_good O v) as H. rewrite E in H. cbn in H. destruct H as [H1 H2].
    assert (Hx : x <> VNil) by (intros ->; apply Hv, H1; reflexivity).
    specialize (H2 Hx). destruct x; cbn in H2; try discriminate. eauto.
  Qed.

  (* Export() tests v.raw == nil first: the b.([]byte) assertion of exportToBinary is only safe because of it *)
  Lemma np_export_scalar f raw : to_gval raw <> VNil -> np (export_scalar O f raw).
  Proof.
    intros Hv. destruct f; cbn [export_scalar]; try discriminate; apply np_lift; unfold np;
      [ unfold exportToString, exportToString_5, exportToString_body
      | unfold exportToNumber, exportToNumber_5, exportToNumber_body
      | unfold exportToBool, exportToBool_5, exportToBool_body
      | unfold exportToBinary, exportToBinary_5, exportToBinary_body
      | unfold exportToDate, exportToDate_5, exportToDate_body
      | unfold exportToDateTime, exportToDateTime_5, exportToDateTime_body
      | unfold exportToTimestamp, exportToTimestamp_5, exportToTimestamp_body ];
      try (destruct (ToBinary O (to_gval raw)) as [x| | |] eqn:EB;
           [ destruct (ToBinary_is_bytes _ _ EB Hv) as [b ->]; cbn; discriminate | discriminate
           | exfalso; eapply np_ToBinary; eassumption | discriminate ]);
      repeat match goal with
             | |- context [match ?F with Ok _ => _ | Err _ => _ | Panic => _ | Fuel => _ end] => kill F
             end; try discriminate.
  Qed.

  Lemma np_cast_to t v : np (cast_to O t v).
  Proof. unfold cast_to, np. kill (To O t (to_gval v)). destruct v; try discriminate; destruct a; discriminate. Qed.

  Lemma np_import_scalar f t v : to_gval v <> VNil -> np (import_scalar O f t v).
  Proof.
    intros Hv. destruct f; cbn [import_scalar]; try discriminate.
    1-3, 5-7: apply np_lift; unfold np, importFromString, importFromNumeric, importFromBoolean,
      importFromDate, importFromDateTime, importFromTimestamp;
      destruct t;
      repeat match goal with
             | |- context [match ?F with Ok _ => _ | Err _ => _ | Panic => _ | Fuel => _ end] => kill F
             end; try discriminate.
    - (* binary: the str.(string) assertion cannot fail on a non-nil input *)
      apply np_lift; unfold np, importFromBinary.
      destruct (ToString O (to_gval v)) as [x| | |] eqn:E; try discriminate.
      + destruct (ToString_is_str _ _ E Hv) as [s ->]. cbn [as_string].
        destruct (option_map mkbytes (base64_decode s)); try discriminate.
        destruct t;
          repeat match goal with
                 | |- context [match ?F with Ok _ => _ | Err _ => _ | Panic => _ | Fuel => _ end] => kill F
                 end; try discriminate.
      + exfalso. eapply np_ToString; eassumption.
    - apply np_cast_to.
    - apply np_cast_to.
  Qed.

  Lemma wf_cast_to t v r : cast_to O t v = Ok r -> wf_rv v -> wf_rv r.
  Proof.
    unfold cast_to. destruct (To O t (to_gval v)) as [g| | |]; try discriminate.
    destruct v; try (intros [= <-]; cbn; auto; fail); destruct g; intros [= <-]; cbn; auto.
  Qed.

  Lemma new_value_ok v f t : exists c, new_value O v f t = Ok c /\ (wf_rv v -> wf_cell c)
                                       \/ new_value O v f t = Fuel.
  Proof.
    unfold new_value. destruct (cast_to O t v) as [r| | |] eqn:E.
    - eexists. left. split; [reflexivity|]. intros H. cbn. eapply wf_cast_to; eauto.
    - eexists. left. split; [reflexivity|]. auto.
    - exfalso. eapply np_cast_to; eauto.
    - exists (new_value_auto rnil). now right.
  Qed.

  Lemma np_new_value v f t : np (new_value O v f t).
  Proof. destruct (new_value_ok v f t) as [c [[-> _]| ->]]; discriminate. Qed.

  Lemma wf_new_value v f t c : new_value O v f t = Ok c -> wf_rv v -> wf_cell c.
  Proof. destruct (new_value_ok v f t) as [c' [[-> H]| ->]]; [intros [= <-]; auto | discriminate]. Qed.

  (* ---------- Raw(), Export() ---------- *)
  Lemma np_bind {A B} (x : res A) (f : A -> res B) : np x -> (forall a, x = Ok a -> np (f a)) -> np (bind x f).
  Proof. unfold np. destruct x; cbn; auto; congruence. Qed.

  Lemma cells_raw_np (rec : cell -> res rv) m l :
    (forall c, wf_cell c -> np (rec c) /\ forall v, rec c = Ok v -> wf_rv v) ->
    wf_cells m -> (forall k, In k l -> ahas k m = true) ->
    np (cells_raw rec m l) /\ forall t, cells_raw rec m l = Ok t -> wf_kvs t.
  Proof.
    intros Hrec Hm. induction l as [|k l IH]; intros Hl; cbn [cells_raw].
    - split; [discriminate|]. intros t [= <-]. constructor.
    - assert (Hk : ahas k m = true) by (apply Hl; now left). unfold ahas in Hk.
      destruct (alookup k m) as [c|] eqn:E; [|discriminate].
      destruct (Hrec c (wf_cells_lookup _ _ _ Hm E)) as [Hn Hw].
      destruct IH as [IHn IHw]; [intros k0 H0; apply Hl; now right|].
      destruct (rec c) as [v| | |]; cbn; try (split; [discriminate|discriminate]).
      + destruct (cells_raw rec m l) as [t| | |]; cbn; try (split; [discriminate|discriminate]).
        * split; [discriminate|]. intros t' [= <-]. apply wf_kvs_aset; auto.
        * contradiction IHn; reflexivity.
      + contradiction Hn; reflexivity.
  Qed.

  Lemma wf_crow_keys m l : wf_crow (MkRow m l) -> wf_cells m /\ forall k, In k l -> ahas k m = true.
  Proof. rewrite wf_crow_eq. intros [[_ Hin] Hc]. split; auto. intros k Hk. now apply Hin. Qed.

  Lemma cell_raw_np n c : wf_cell c -> np (cell_raw n c) /\ forall v, cell_raw n c = Ok v -> wf_rv v.
  Proof.
    revert c. induction n as [|n IH]; intros c Hc; cbn [cell_raw]; [split; discriminate|].
    destruct c as [raw f t|[m l]].
    - split; [discriminate|]. intros v [= <-]. exact Hc.
    - destruct (wf_crow_keys _ _ Hc) as [Hm Hl].
      destruct (cells_raw_np (cell_raw n) m l IH Hm Hl) as [Hn Hw].
      destruct (cells_raw (cell_raw n) m l) as [t| | |]; cbn; try (split; discriminate).
      + split; [discriminate|]. intros v [= <-]. apply wf_map_eq. now apply Hw.
      + contradiction Hn; reflexivity.
  Qed.

  Lemma to_gval_nonnil v : rv_is_nil v = false -> to_gval v <> VNil.
  Proof. destruct v as [g| | |]; cbn; try discriminate. destruct g; discriminate. Qed.

  Lemma wf_lift x r : lift x = Ok r -> wf_rv r.
  Proof. destruct x; cbn; try discriminate. intros [= <-]. exact I. Qed.

  Lemma wf_export_scalar f raw r : export_scalar O f raw = Ok r -> wf_rv raw -> wf_rv r.
  Proof. destruct f; cbn [export_scalar]; try (intros H _; eapply wf_lift; eauto; fail); try discriminate; intros [= <-]; auto. Qed.

  Lemma cell_export_np n c : wf_cell c -> np (cell_export O n c) /\ forall v, cell_export O n c = Ok v -> wf_rv v.
  Proof.
    revert c. induction n as [|n IH]; intros c Hc; cbn [cell_export]; [split; discriminate|].
    destruct c as [raw f t|[m l]].
    - destruct (rv_is_nil raw) eqn:En.
      + split; [discriminate|]. intros v [= <-]. exact I.
      + split; [apply np_export_scalar, to_gval_nonnil, En|]. intros v Hv. eapply wf_export_scalar; eauto.
    - destruct (wf_crow_keys _ _ Hc) as [Hm Hl].
      destruct (cells_raw_np (cell_export O n) m l IH Hm Hl) as [Hn Hw].
      destruct (cells_raw (cell_export O n) m l) as [t| | |]; cbn; try (split; discriminate).
      + split; [discriminate|]. intros v [= <-]. apply wf_map_eq. now apply Hw.
      + contradiction Hn; reflexivity.
  Qed.

  (* ---------- Import ---------- *)
  Lemma wf_import_scalar f t v r : import_scalar O f t v = Ok r -> wf_rv v -> wf_rv r.
  Proof.
    destruct f; cbn [import_scalar]; try (intros H _; eapply wf_lift; eauto; fail); try discriminate;
      intros H Hv; eapply wf_cast_to; eauto.
  Qed.

  Lemma value_import_scalar_case raw f t x :
    rv_is_nil x = false -> wf_rv raw -> wf_rv x ->
    let r := match import_scalar O f t x with
             | Ok r => (CVal r f t, Ok tt)
             | Err e => (CVal (match f with FBad => raw | _ => rnil end) f t, Err e)
             | Panic => (CVal raw f t, Panic)
             | Fuel => (CVal raw f t, Fuel)
             end in
    np (snd r) /\ wf_cell (fst r).
  Proof.
    intros En Hraw Hx. pose proof (np_import_scalar f t x (to_gval_nonnil _ En)) as Hn.
    destruct (import_scalar O f t x) as [r| | |] eqn:E; cbn.
    - split; [discriminate | eapply wf_import_scalar; eauto].
    - split; [discriminate | destruct f; first [exact I | exact Hraw]].
    - contradiction Hn; reflexivity.
    - split; [discriminate | exact Hraw].
  Qed.

  Lemma value_import_np n raw f t v :
    wf_rv raw -> wf_rv v ->
    np (snd (value_import O n raw f t v)) /\ wf_cell (fst (value_import O n raw f t v)).
  Proof.
    intros Hraw Hv. unfold value_import. destruct (rv_is_nil v) eqn:En; [split; [discriminate | exact I]|].
    destruct v as [g|l0|m0|c].
    1-3: apply value_import_scalar_case; auto.
    destruct c as [raw' f' typ'|sub].
    - cbn. split; [discriminate | exact Hv].
    - apply value_import_scalar_case; auto.
  Qed.

  Definition safe_pair {A} (wf : A -> Prop) (x : A * res unit) : Prop := np (snd x) /\ wf (fst x).

  Lemma import_np n :
    (forall c v, wf_cell c -> wf_rv v -> safe_pair wf_cell (cell_import O n c v))
    /\ (forall k v r, wf_crow r -> wf_rv v -> safe_pair wf_crow (import_at_key O n k v r))
    /\ (forall v r, wf_crow r -> wf_rv v -> safe_pair wf_crow (row_import O n v r)).
  Proof.
    unfold safe_pair. induction n as [|n [IHc [IHk IHr]]].
    - repeat split; intros; cbn; auto; discriminate.
    - assert (Hc : forall c v, wf_cell c -> wf_rv v ->
                 np (snd (cell_import O (S n) c v)) /\ wf_cell (fst (cell_import O (S n) c v))).
      { intros c v Hcw Hv. rewrite cell_import_S. destruct c as [raw f t|sub].
        - now apply value_import_np.
        - destruct (IHr v sub Hcw Hv) as [H1 H2]. destruct (row_import O n v sub) as [sub' e]. cbn in *. auto. }
      assert (Hk : forall k v r, wf_crow r -> wf_rv v ->
                 np (snd (import_at_key O (S n) k v r)) /\ wf_crow (fst (import_at_key O (S n) k v r))).
      { intros k v r Hr Hv. rewrite import_at_key_S. cbv zeta.
        destruct (alookup k (row_m r)) as [c0|] eqn:E.
        - destruct (IHc c0 v (wf_get r k c0 Hr E) Hv) as [H1 H2].
          destruct (cell_import O n c0 v) as [c' e]. cbn in *. split; auto.
          change (set_cell k c' (push_if_absent k r)) with (store k c' r). now apply wf_store.
        - destruct (as_value v) as [c|] eqn:Ea; cbn; (split; [discriminate|]).
          + change (set_cell k c (push_if_absent k r)) with (store k c r). apply wf_store; auto.
            destruct v; try discriminate. now injection Ea as <-.
          + change (set_cell k (new_value_auto v) (push_if_absent k r)) with (store k (new_value_auto v) r).
            apply wf_store; auto. }
      split; [exact Hc | split; [exact Hk|]].
      intros v r Hr Hv. rewrite row_import_S. destruct v as [g|vals|kvs|c]; try (cbn; split; [discriminate | exact Hr]).
      + apply wf_arr_eq in Hv. generalize 0. revert r Hr. induction Hv as [|x rest Hx _ IH]; intros r Hr i; cbn [import_arr].
        * cbn. split; [discriminate | exact Hr].
        * destruct (IHk (key_at (row_l r) i) x r Hr Hx) as [H1 H2].
          destruct (import_at_key O n (key_at (row_l r) i) x r) as [r' e]. cbn in *.
          destruct e; cbn; try (split; [auto; discriminate | exact H2]). apply IH, H2.
      + apply wf_map_eq in Hv. revert r Hr. induction Hv as [|[k x] rest Hx _ IH]; intros r Hr; cbn [import_map].
        * cbn. split; [discriminate | exact Hr].
        * destruct (IHk k x r Hr Hx) as [H1 H2].
          destruct (import_at_key O n k x r) as [r' e]. cbn in *.
          destruct e; cbn; try (split; [auto; discriminate | exact H2]). apply IH, H2.
  Qed.

  Lemma cell_import_np n c v : wf_cell c -> wf_rv v -> safe_pair wf_cell (cell_import O n c v).
  Proof. apply (proj1 (import_np n)). Qed.
  Lemma import_at_key_np n k v r : wf_crow r -> wf_rv v -> safe_pair wf_crow (import_at_key O n k v r).
  Proof. apply (proj1 (proj2 (import_np n))). Qed.
  Lemma row_import_np n v r : wf_crow r -> wf_rv v -> safe_pair wf_crow (row_import O n v r).
  Proof. apply (proj2 (proj2 (import_np n))). Qed.

  Lemma unmarshal_members_np n ms : forall r, wf_crow r -> wf_kvs ms -> safe_pair wf_crow (unmarshal_members O n ms r).
  Proof.
    unfold safe_pair. induction ms as [|[k v] rest IH]; intros r Hr Hms; cbn [unmarshal_members].
    - cbn. split; [discriminate | exact Hr].
    - inversion Hms as [|? ? Hv Hrest]; subst. cbn in Hv.
      destruct (alookup k (row_m r)) as [c0|] eqn:E.
      + destruct (cell_import_np n c0 v (wf_get r k c0 Hr E) Hv) as [H1 H2].
        destruct (cell_import O n c0 v) as [c' e]. cbn in *.
        assert (Hw : wf_crow (set_cell k c' r)).
        { apply wf_set_existing; auto. unfold get_value. congruence. }
        destruct e; cbn; try (split; [auto; discriminate | exact Hw]). apply IH; auto.
      + apply IH; auto. change (set_cell k (new_value_auto v) (push_if_absent k r)) with (store k (new_value_auto v) r).
        apply wf_store; auto.
  Qed.

  Lemma row_unmarshal_np n ms ok r : wf_crow r -> wf_kvs ms -> safe_pair wf_crow (row_unmarshal O n ms ok r).
  Proof.
    intros Hr Hms. unfold row_unmarshal. destruct (unmarshal_members_np n ms r Hr Hms) as [H1 H2].
    destruct (unmarshal_members O n ms r) as [r' e]. cbn in *. unfold safe_pair.
    destruct e; cbn; split; auto; destruct ok; discriminate.
  Qed.

  Lemma import_at_keys_np n keys v : forall r r' e, wf_crow r -> wf_rv v ->
    import_at_keys O n keys v r = Some (r', e) -> np e /\ wf_crow r'.
  Proof.
    induction keys as [|k rest IH]; intros r r' e Hr Hv; [discriminate|]. cbn [import_at_keys].
    destruct rest as [|k2 rest].
    - destruct (get_value k r) as [c0|] eqn:E; [|discriminate].
      destruct (cell_import_np n c0 v (wf_get r k c0 Hr E) Hv) as [H1 H2].
      destruct (cell_import O n c0 v) as [c' e']. intros [= <- <-]. cbn in *. split; auto.
      apply wf_set_existing; auto. congruence.
    - destruct (get_value k r) as [[raw f t|sub]|] eqn:E; [| |discriminate].
      + destruct raw as [g|l0|m0|[raw' f' t'|sub]]; try discriminate.
        destruct (import_at_keys O n (k2 :: rest) v sub) as [[sub' e']|] eqn:E2; [|discriminate].
        intros [= <- <-]. pose proof (wf_get r k _ Hr E) as Hc. cbn in Hc.
        destruct (IH sub sub' e' Hc Hv E2) as [H1 H2]. split; auto.
        apply wf_set_existing; auto. congruence.
      + destruct (import_at_keys O n (k2 :: rest) v sub) as [[sub' e']|] eqn:E2; [|discriminate].
        intros [= <- <-]. pose proof (wf_get r k _ Hr E) as Hc. cbn in Hc.
        destruct (IH sub sub' e' Hc Hv E2) as [H1 H2]. split; auto.
        apply wf_set_existing; auto. congruence.
  Qed.

  Lemma import_at_path_np n p v r : wf_crow r -> wf_rv v -> safe_pair wf_crow (import_at_path O n p v r).
  Proof.
    intros Hr Hv. unfold import_at_path, safe_pair.
    destruct (import_at_keys O n (split_dot p) v r) as [[r' e]|] eqn:E; cbn.
    - eapply import_at_keys_np; eauto.
    - split; [discriminate | exact Hr].
  Qed.

  (* ---------- Set, CloneRow ---------- *)
  Lemma row_set_np k v r : wf_crow r -> wf_rv v ->
    np (row_set O k v r) /\ forall r', row_set O k v r = Ok r' -> wf_crow r'.
  Proof.
    intros Hr Hv. unfold row_set. destruct (alookup k (row_m r)) as [c0|] eqn:E.
    - pose proof (np_cast_to (cell_rawtype c0) v) as Hn.
      destruct (cast_to O (cell_rawtype c0) v) as [x| | |]; try (split; [auto; discriminate | discriminate]).
      + pose proof (np_new_value v (cell_format c0) (cell_rawtype c0)) as Hn2.
        destruct (new_value O v (cell_format c0) (cell_rawtype c0)) as [c'| | |] eqn:E2; cbn;
          try (split; [auto; discriminate | discriminate]); try (exfalso; apply Hn2; reflexivity).
        split; [discriminate|]. intros r' [= <-].
        change (set_cell k c' (push_if_absent k r)) with (store k c' r). apply wf_store; auto.
        eapply wf_new_value; eauto.
      + pose proof (np_new_value rnil (cell_format c0) (cell_rawtype c0)) as Hn2.
        destruct (new_value O rnil (cell_format c0) (cell_rawtype c0)) as [c'| | |] eqn:E2; cbn;
          try (split; [auto; discriminate | discriminate]); try (exfalso; apply Hn2; reflexivity).
        split; [discriminate|]. intros r' [= <-].
        change (set_cell k c' (push_if_absent k r)) with (store k c' r). apply wf_store; auto.
        eapply wf_new_value; eauto. exact I.
      + contradiction Hn; reflexivity.
    - destruct (as_value v) as [c|] eqn:Ea; (split; [discriminate|]); intros r' [= <-].
      + change (set_cell k c (push_if_absent k r)) with (store k c r). apply wf_store; auto.
        destruct v; try discriminate. now injection Ea as <-.
      + change (set_cell k (new_value_auto v) (push_if_absent k r)) with (store k (new_value_auto v) r).
        apply wf_store; auto.
  Qed.

  Lemma clone_value_np n c : wf_cell c -> np (clone_value O n c) /\ forall c', clone_value O n c = Ok c' -> wf_cell c'.
  Proof.
    intros Hc. unfold clone_value. destruct (cell_raw_np n c Hc) as [Hn Hw].
    destruct (cell_raw n c) as [raw| | |]; cbn.
    - split; [apply np_new_value|]. intros c' H. eapply wf_new_value; eauto.
    - split; discriminate.
    - contradiction Hn; reflexivity.
    - split; discriminate.
  Qed.

  Lemma clone_cells_np n m l : wf_cells m -> (forall k, In k l -> ahas k m = true) ->
    forall acc, wf_crow acc -> np (clone_cells O n m l acc) /\ forall r', clone_cells O n m l acc = Ok r' -> wf_crow r'.
  Proof.
    intros Hm. induction l as [|k l IH]; intros Hl acc Hacc; cbn [clone_cells].
    - split; [discriminate|]. now intros r' [= <-].
    - assert (Hk : ahas k m = true) by (apply Hl; now left). unfold ahas in Hk.
      destruct (alookup k m) as [c|] eqn:E; [|discriminate].
      destruct (clone_value_np n c (wf_cells_lookup _ _ _ Hm E)) as [Hn Hw].
      destruct (clone_value O n c) as [c'| | |]; cbn.
      + apply IH; [intros k0 H0; apply Hl; now right|]. rewrite set_value_store. apply wf_store; auto.
      + split; discriminate.
      + contradiction Hn; reflexivity.
      + split; discriminate.
  Qed.

  Lemma clone_row_np n r : wf_crow r -> np (clone_row O n r) /\ forall r', clone_row O n r = Ok r' -> wf_crow r'.
  Proof.
    intros Hr. destruct r as [m l]. destruct (wf_crow_keys _ _ Hr) as [Hm Hl].
    unfold clone_row. cbn [row_m row_l]. apply clone_cells_np; auto. apply wf_new_row.
  Qed.

  (* ---------- every operation of a history ---------- *)
  Definition wf_ocell (c : option cell) : Prop := match c with Some c => wf_cell c | None => True end.
  Definition wf_op (o : rop) : Prop :=
    match o with
    | OSet _ v | OSetAtIndex _ v | OImportAtKey _ v | OImportAtIndex _ v | OImport v | OImportAtPath _ v => wf_rv v
    | OSetValue _ c | OSetValueAtIndex _ c => wf_ocell c
    | OUnmarshal ms _ => wf_kvs ms
    | OClone => True
    end.

  Lemma of_res_np r x : wf_crow r -> np x -> (forall r', x = Ok r' -> wf_crow r') -> safe_pair wf_crow (of_res r x).
  Proof. intros Hr Hn Hw. unfold safe_pair, of_res. destruct x; cbn; split; auto; try discriminate. contradiction Hn; reflexivity. Qed.

  Theorem step_safe r o : wf_crow r -> wf_op o -> safe_pair wf_crow (step O r o).
  Proof.
    intros Hr Ho. destruct o; cbn [step wf_op] in *.
    - destruct (row_set_np k v r Hr Ho). now apply of_res_np.
    - destruct (row_set_np (key_at (row_l r) i) v r Hr Ho). now apply of_res_np.
    - split; [discriminate|]. cbn [fst]. rewrite set_value_store. apply wf_store; auto. destruct c; [exact Ho | exact I].
    - split; [discriminate|]. cbn [fst]. unfold set_value_at_index. rewrite set_value_store. apply wf_store; auto.
      destruct c; [exact Ho | exact I].
    - now apply import_at_key_np.
    - now apply import_at_key_np.
    - now apply row_import_np.
    - now apply import_at_path_np.
    - now apply row_unmarshal_np.
    - destruct (clone_row_np FUEL r Hr). now apply of_res_np.
  Qed.

  (* ---------- readers ---------- *)
  Lemma iter_raw_np n m l : wf_cells m -> (forall k, In k l -> ahas k m = true) -> np (iter_raw n m l).
  Proof.
    intros Hm. induction l as [|k l IH]; intros Hl; cbn [iter_raw]; [discriminate|].
    assert (Hk : ahas k m = true) by (apply Hl; now left). unfold ahas in Hk.
    destruct (alookup k m) as [c|] eqn:E; [|discriminate].
    apply np_bind; [apply cell_raw_np; eapply wf_cells_lookup; eauto|].
    intros v _. apply np_bind; [apply IH; intros k0 H0; apply Hl; now right|]. intros; discriminate.
  Qed.

  Lemma wf_sub_row c sub : wf_cell c -> sub_row c = Some sub -> wf_crow sub.
  Proof.
    destruct c as [raw f t|r]; cbn.
    - destruct raw as [g|l0|m0|[raw' f' t'|r]]; try discriminate. intros H [= <-]. exact H.
    - intros H [= <-]. exact H.
  Qed.

  Lemma wf_get_value_at_keys keys : forall r c, wf_crow r -> get_value_at_keys keys r = Some c -> wf_cell c.
  Proof.
    induction keys as [|k rest IH]; intros r c Hr; cbn [get_value_at_keys].
    - intros [= <-]. exact Hr.
    - destruct rest as [|k2 rest]; [apply wf_get, Hr|].
      destruct (get_value k r) as [c0|] eqn:E; [|discriminate].
      destruct (sub_row c0) as [sub|] eqn:Es; [|discriminate].
      apply IH. eapply wf_sub_row; eauto. eapply wf_get; eauto.
  Qed.

  Lemma find_in_elems_np (rec : crow -> res (option (list cell))) elems :
    (forall er, wf_crow er -> np (rec er)) -> wf_rvs elems -> np (find_in_elems rec elems).
  Proof.
    intros Hrec Hc. induction Hc as [|x more Hx _ IHe]; cbn [find_in_elems]; [discriminate|].
    destruct x as [g|l0|m0|[raw' f' t'|er]]; try exact IHe.
    apply np_bind; [apply Hrec, Hx|]. intros found _. apply np_bind; [exact IHe|]. intros; discriminate.
  Qed.

  Lemma find_np n : forall keys r, wf_crow r -> np (find_values_at_keys n keys r).
  Proof.
    induction n as [|n IH]; intros keys r Hr; cbn [find_values_at_keys]; [discriminate|].
    destruct keys as [|k rest]; [discriminate|]. destruct rest as [|k2 rest]; [discriminate|].
    destruct (get_value k r) as [[raw f t|sub]|] eqn:E; try discriminate.
    - pose proof (wf_get r k _ Hr E) as Hc. cbn in Hc.
      destruct raw as [g|elems|m0|[raw' f' t'|sub]]; try discriminate.
      + apply wf_arr_eq in Hc. apply find_in_elems_np; auto.
      + apply IH, Hc.
    - apply IH. exact (wf_get r k _ Hr E).
  Qed.

  (* ---------- MapTo: the guards of mapToField keep every reflect setter on a field of its kind ---------- *)
  Lemma map_to_field_np fk v : np (map_to_field O fk v).
  Proof.
    unfold np. destruct v as [g| | |c]; try discriminate.
    destruct g as [ |b|k z|x|x|s|b|s|t|s|tag]; try discriminate.
    - cbn. destruct fk; discriminate.
    - destruct k; cbn; destruct fk as [fk| | | | | |]; cbn; try discriminate; destruct fk; cbn; discriminate.
    - cbn. destruct fk as [fk| | | | | |]; cbn; discriminate.
    - cbn. destruct fk as [fk| | | | | |]; cbn; discriminate.
    - cbn. destruct fk; discriminate.
    - cbn. destruct fk; discriminate.
  Qed.

  Lemma map_to_fields_np n r fs : (forall k, np (row_get n k r)) -> np (map_to_fields O n r fs).
  Proof.
    intros Hget. induction fs as [|f rest IH]; [discriminate|]. cbn [map_to_fields].
    destruct (negb (f_exported f)).
    - apply np_bind; [exact IH | intros; discriminate].
    - apply np_bind; [apply Hget|]. intros [value|] _.
      + apply np_bind; [apply map_to_field_np|]. intros o _. apply np_bind; [exact IH | intros; discriminate].
      + apply np_bind; [exact IH | intros; discriminate].
  Qed.

  Theorem query_safe r q : wf_crow r -> query O r q <> APanic.
  Proof.
    intros Hr. destruct r as [m l]. destruct (wf_crow_keys _ _ Hr) as [Hm Hl].
    assert (Hget : forall k, np (row_get FUEL k (MkRow m l))).
    { intros k. unfold row_get. destruct (get_value k (MkRow m l)) as [c|] eqn:E; [|discriminate].
      apply np_bind; [apply cell_raw_np; eapply wf_get; eauto | intros; discriminate]. }
    assert (Hout : forall A (f : A -> rout) (x : res A), np x -> (forall a, f a <> APanic) -> out_of f x <> APanic).
    { intros A f x Hn Hf. unfold out_of. destruct x; [apply Hf | discriminate | contradiction Hn; reflexivity | discriminate]. }
    destruct q; cbn [query]; try discriminate; try (apply Hout; [|intros; discriminate]).
    - apply Hget.
    - apply Hget.
    - now apply iter_raw_np.
    - unfold get_at_path. destruct (get_value_at_path p (MkRow m l)) as [c|] eqn:E; [|discriminate].
      apply np_bind; [apply cell_raw_np; eapply wf_get_value_at_keys; eauto | intros; discriminate].
    - now apply find_np.
    - unfold typed_get. apply np_bind.
      + unfold row_get_or_nil. apply np_bind; [apply Hget | intros; discriminate].
      + intros v _. pose proof (np_To sample (to_gval v)) as Hn. destruct (To O sample (to_gval v)); try discriminate.
        * destruct (same_kind a zero); discriminate.
        * contradiction Hn; reflexivity.
    - apply (cell_raw_np FUEL (CRow (MkRow m l))). exact Hr.
    - apply (cell_export_np FUEL (CRow (MkRow m l))). exact Hr.
    - apply np_bind; [|intros; discriminate]. destruct t; [|discriminate]. apply map_to_fields_np. exact Hget.
  Qed.

  (* ---------- histories ---------- *)
  Theorem history_safe ops : forall r, wf_crow r -> Forall wf_op ops ->
    wf_crow (run O ops r)
    /\ Forall (fun e => np e) (snd (fold_left (fun '(r, acc) o => let '(r', e) := step O r o in (r', acc ++ [e])) ops (r, []))).
  Proof.
    assert (G : forall ops r acc, wf_crow r -> Forall wf_op ops -> Forall (fun e : res unit => np e) acc ->
               wf_crow (run O ops r)
               /\ Forall (fun e => np e) (snd (fold_left (fun '(r, acc) o => let '(r', e) := step O r o in (r', acc ++ [e])) ops (r, acc)))).
    { induction ops0 as [|o ops0 IH]; intros r acc Hr Hops Hacc; [split; auto|].
      inversion Hops as [|? ? Ho Hrest]; subst. rewrite run_cons. cbn [fold_left].
      destruct (step_safe r o Hr Ho) as [H1 H2]. destruct (step O r o) as [r' e]. cbn in *.
      apply IH; auto. apply Forall_app. split; auto. }
    intros r Hr Hops. apply G; auto.
  Qed.
End Safe.
