(* C18 — dotted-path access agrees with key-by-key navigation; importing at a path changes
   exactly the addressed value; FindValuesAtPath is the fuel-free reference search. Model:
   JL.model.Row (get_value_at_path, import_at_path, find_values_at_path), proofs:
   JL.proofs.RowPaths, JL.proofs.RowFind. [navigate keys c]: the reference walk — at
   each segment look the key up in the row the current value gives access to (a row used as
   a value, as rows built through the API hold them, or a value holding a row, as the JSON
   reader builds them); anything else, or a missing key, is absence.
   [find_ref keys r] (RowFind.v): the reference for FindValuesAtPath, by structural recursion on
   the segments only, no fuel: missing key -> None; last segment -> Some [value]; the value is a
   row or holds a row -> search the rest in it; the value holds an array -> Some of the
   concatenation, in element order, of [elem_ref]: what is found in each element that is a row
   having the rest of the path (other elements contribute nothing); anything else -> None.
   The fuelled model spends one unit per segment, so [length keys] units (at least 1) suffice:
   [C18_find] / [C18_find_fuel_exact]; [Fuel] is unreachable ([C18_find_no_fuel]); below an array
   the result is in document order ([C18_find_document_order], [C18_find_order_app]); on a path
   that crosses no array FindValuesAtPath is GetValueAtPath ([C18_find_no_array],
   [C18_find_of_get], [C18_find_navigate]). *)
From Coq Require Import ZArith List Bool.
From JL.std Require Import GoBase GoVal.
From JL.model Require Import Row RowRun.
From JL.proofs Require Import RowProofs RowPaths RowFind.
Import ListNotations.
Open Scope Z_scope.

(* GetValueAtPath(join "." keys) = key-by-key navigation, for every row — built or parsed —
   and every non-empty list of segments without '.' (empty segments included) *)
Theorem C18_get_agrees : forall keys r,
  keys <> [] -> Forall no_dot keys ->
  get_value_at_path (join_dot keys) r = navigate keys (CRow r).
Proof. exact path_get_agrees. Qed.
Print Assumptions C18_get_agrees.

(* built and parsed representations are navigated alike: a nested object is reached through a
   row stored as a value and through an Auto value holding the row in the same way *)
Theorem C18_built_parsed : forall keys k sub f t r1 r2,
  get_value k r1 = Some (CRow sub) -> get_value k r2 = Some (CVal (RV (CRow sub)) f t) ->
  navigate (k :: keys) (CRow r1) = (match keys with [] => Some (CRow sub) | _ => navigate keys (CRow sub) end)
  /\ navigate (k :: keys) (CRow r2) = (match keys with [] => Some (CVal (RV (CRow sub)) f t) | _ => navigate keys (CRow sub) end).
Proof.
  intros keys k sub f t r1 r2 H1 H2. rewrite !nav_cons. cbn [sub_row]. rewrite H1, H2.
  destruct keys as [|k2 keys]; [split; reflexivity|]. rewrite !nav_cons. cbn [sub_row]. split; reflexivity.
Qed.
Print Assumptions C18_built_parsed.

(* ImportAtPath replaces the addressed value by the result of importing into it ... *)
Theorem C18_import_hit : forall (O : oracles) n keys v r r' e,
  import_at_keys O n keys v r = Some (r', e) ->
  exists c, get_value_at_keys keys r = Some c
            /\ get_value_at_keys keys r' = Some (fst (cell_import O n c v))
            /\ e = snd (cell_import O n c v).
Proof. exact import_at_keys_hit. Qed.
Print Assumptions C18_import_hit.

(* ... leaves every path that diverges from it untouched ... *)
Theorem C18_import_frame : forall (O : oracles) n keys v r r' e other,
  import_at_keys O n keys v r = Some (r', e) -> diverge keys other ->
  get_value_at_keys other r' = get_value_at_keys other r.
Proof. exact import_at_keys_frame. Qed.
Print Assumptions C18_import_frame.

(* ... and a missing path is reported without changing anything *)
Theorem C18_import_missing : forall (O : oracles) n p v r,
  get_value_at_path p r = None -> import_at_path O n p v r = (r, Err ErrPathNotFound).
Proof. exact import_at_path_missing. Qed.
Print Assumptions C18_import_missing.

(* ---------- FindValuesAtPath ---------- *)
(* with more fuel than segments the fuelled model of FindValuesAtPath IS the reference search *)
Theorem C18_find : forall n keys r,
  (n > length keys)%nat -> find_values_at_keys n keys r = Ok (find_ref keys r).
Proof. exact find_values_at_keys_ref_gt. Qed.
Print Assumptions C18_find.

(* the exact bound: one unit of fuel per segment (also when descending into the elements of an
   array), and at least one unit *)
Theorem C18_find_fuel_exact : forall keys n r,
  (1 <= n)%nat -> (length keys <= n)%nat -> find_values_at_keys n keys r = Ok (find_ref keys r).
Proof. exact find_values_at_keys_ref. Qed.
Print Assumptions C18_find_fuel_exact.

(* the out-of-fuel outcome (and any panic or error) is unreachable *)
Theorem C18_find_no_fuel : forall n keys r,
  (n > length keys)%nat ->
  find_values_at_keys n keys r <> Fuel /\ find_values_at_keys n keys r <> Panic
  /\ forall e, find_values_at_keys n keys r <> Err e.
Proof. exact find_values_no_fuel. Qed.
Print Assumptions C18_find_no_fuel.

(* on the path text: FindValuesAtPath(join "." keys) *)
Theorem C18_find_path : forall n keys r,
  keys <> [] -> Forall no_dot keys -> (n > length keys)%nat ->
  find_values_at_path n (join_dot keys) r = Ok (find_ref keys r).
Proof. exact find_values_at_joined_path. Qed.
Print Assumptions C18_find_path.

(* document order: below an array the result is found, and is the concatenation over the
   elements, in element order, of what each contributes: the values found in it when it is a
   row having the rest of the path, nothing when it is not a row or lacks the path *)
Theorem C18_find_document_order : forall k rest r elems f t,
  rest <> [] -> get_value k r = Some (CVal (RArr elems) f t) ->
  find_ref (k :: rest) r = Some (concat (map (elem_ref (find_ref rest)) elems))
  /\ (forall er, elem_ref (find_ref rest) (RV (CRow er)) = match find_ref rest er with Some vs => vs | None => [] end)
  /\ (forall e, (forall er, e <> RV (CRow er)) -> elem_ref (find_ref rest) e = []).
Proof.
  intros k rest r elems f t Hne Hg. split; [eapply find_ref_array; eassumption|].
  split; [intros er; apply elem_ref_row | intros e He; now apply elem_ref_not_row].
Qed.
Print Assumptions C18_find_document_order.

(* ... hence the values of earlier elements come before those of later ones *)
Theorem C18_find_order_app : forall k rest r a b f t ra rb fa ta fb tb,
  rest <> [] ->
  get_value k r = Some (CVal (RArr (a ++ b)) f t) ->
  get_value k ra = Some (CVal (RArr a) fa ta) ->
  get_value k rb = Some (CVal (RArr b) fb tb) ->
  exists va vb, find_ref (k :: rest) ra = Some va /\ find_ref (k :: rest) rb = Some vb
                /\ find_ref (k :: rest) r = Some (va ++ vb).
Proof. exact find_ref_array_app. Qed.
Print Assumptions C18_find_order_app.

(* a path that crosses no array ([crosses_no_array]: no value met before the last segment is a
   []interface{}): FindValuesAtPath is GetValueAtPath, found or not *)
Theorem C18_find_no_array : forall keys r,
  keys <> [] -> crosses_no_array keys r ->
  find_ref keys r = match get_value_at_keys keys r with Some c => Some [c] | None => None end.
Proof. exact find_ref_no_array. Qed.
Print Assumptions C18_find_no_array.

(* whatever GetValueAtPath finds (it never crosses an array), FindValuesAtPath finds alone *)
Theorem C18_find_of_get : forall keys r c,
  keys <> [] -> get_value_at_keys keys r = Some c -> find_ref keys r = Some [c].
Proof. exact find_ref_of_get. Qed.
Print Assumptions C18_find_of_get.

(* through C18_get_agrees: FindValuesAtPath against key-by-key navigation *)
Theorem C18_find_navigate : forall (n : nat) keys r,
  keys <> [] -> Forall no_dot keys -> (n > length keys)%nat -> crosses_no_array keys r ->
  find_values_at_path n (join_dot keys) r =
  Ok (match navigate keys (CRow r) with Some c => Some [c] | None => None end).
Proof. exact find_no_array_navigate. Qed.
Print Assumptions C18_find_navigate.

(* the one-segment case (the former C18_find_partial) *)
Theorem C18_find_one : forall n k r,
  (n > 0)%nat -> find_values_at_keys n [k] r = Ok (match get_value k r with Some c => Some [c] | None => None end).
Proof. intros n k r H. destruct n; [inversion H | reflexivity]. Qed.
Print Assumptions C18_find_one.

(* a.b over {"a":[{"b":1}, 7, {"c":0}, {"b":2}]}: the rows having b contribute, in order; the
   scalar and the row lacking b contribute nothing; a.b.x below the scalars finds the array but
   nothing in it; fuel 2 = number of segments is enough, fuel 1 is not *)
Example C18_find_example :
  let v i := CVal (RS (VInt KInt i)) FAuto VNil in
  let e1 := RV (CRow (MkRow [([98], v 1%Z)] [[98]])) in
  let e2 := RS (VInt KInt 7) in
  let e3 := RV (CRow (MkRow [([99], v 0%Z)] [[99]])) in
  let e4 := RV (CRow (MkRow [([98], v 2%Z)] [[98]])) in
  let r := MkRow [([97], CVal (RArr [e1; e2; e3; e4]) FAuto VNil)] [[97]] in
  find_ref [[97]; [98]] r = Some [v 1%Z; v 2%Z]
  /\ find_values_at_path 2 [97; 46; 98] r = Ok (Some [v 1%Z; v 2%Z])
  /\ find_values_at_path 1 [97; 46; 98] r = Fuel
  /\ find_ref [[97]; [98]; [120]] r = Some []
  /\ find_ref [[97]] r = Some [CVal (RArr [e1; e2; e3; e4]) FAuto VNil]
  /\ find_ref [[122]; [98]] r = None
  /\ ~ crosses_no_array [[97]; [98]] r.
Proof. repeat split. intros H. exact H. Qed.

Example C18_example :
  let inner := MkRow [([98], CVal (RS (VInt KInt 1)) FAuto VNil)] [[98]] in
  let parsed := MkRow [([97], CVal (RV (CRow inner)) FAuto VNil)] [[97]] in
  let built := MkRow [([97], CRow inner)] [[97]] in
  get_value_at_path [97; 46; 98] parsed = Some (CVal (RS (VInt KInt 1)) FAuto VNil)
  /\ get_value_at_path [97; 46; 98] built = Some (CVal (RS (VInt KInt 1)) FAuto VNil)
  /\ get_value_at_path [97; 46; 122] parsed = None
  /\ get_value_at_path [97; 46; 98; 46; 99] parsed = None.
Proof. repeat split. Qed.
