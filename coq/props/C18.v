(* C18 — dotted-path access agrees with key-by-key navigation; importing at a path changes
   exactly the addressed value. Model: JL.model.Row (get_value_at_path, import_at_path,
   find_values_at_path), proofs: JL.proofs.RowPaths. [navigate keys c]: the reference walk — at
   each segment look the key up in the row the current value gives access to (a row used as
   a value, as rows built through the API hold them, or a value holding a row, as the JSON
   reader builds them); anything else, or a missing key, is absence. *)
From Coq Require Import ZArith List Bool.
From JL.std Require Import GoBase GoVal.
From JL.model Require Import Row RowRun.
From JL.proofs Require Import RowProofs RowPaths.
Import ListNotations.
Open Scope Z_scope.

(* GetValueAtPath(join "." keys) = key-by-key navigation, for every row — built or parsed —
   and every non-empty list of segments without '.' (empty segments included) *)
Theorem C18_get_agrees : forall keys r,
  keys <> [] -> Forall no_dot keys ->
  get_value_at_path (join_dot keys) r = navigate keys (CRow r).
Proof. exact path_get_agrees. Qed.
Print Assumptions C18_get_agrees.

(* built and parsed representations are navigated alike: a nested object is reached through a
   row stored as a value and through an Auto value holding the row in the same way *)
Theorem C18_built_parsed : forall keys k sub f t r1 r2,
  get_value k r1 = Some (CRow sub) -> get_value k r2 = Some (CVal (RV (CRow sub)) f t) ->
  navigate (k :: keys) (CRow r1) = (match keys with [] => Some (CRow sub) | _ => navigate keys (CRow sub) end)
  /\ navigate (k :: keys) (CRow r2) = (match keys with [] => Some (CVal (RV (CRow sub)) f t) | _ => navigate keys (CRow sub) end).
Proof.
  intros keys k sub f t r1 r2 H1 H2. rewrite !nav_cons. cbn [sub_row]. rewrite H1, H2.
  destruct keys as [|k2 keys]; [split; reflexivity|]. rewrite !nav_cons. cbn [sub_row]. split; reflexivity.
Qed.
Print Assumptions C18_built_parsed.

(* ImportAtPath replaces the addressed value by the result of importing into it ... *)
Theorem C18_import_hit : forall (O : oracles) n keys v r r' e,
  import_at_keys O n keys v r = Some (r', e) ->
  exists c, get_value_at_keys keys r = Some c
            /\ get_value_at_keys keys r' = Some (fst (cell_import O n c v))
            /\ e = snd (cell_import O n c v).
Proof. exact import_at_keys_hit. Qed.
Print Assumptions C18_import_hit.

(* ... leaves every path that diverges from it untouched ... *)
Theorem C18_import_frame : forall (O : oracles) n keys v r r' e other,
  import_at_keys O n keys v r = Some (r', e) -> diverge keys other ->
  get_value_at_keys other r' = get_value_at_keys other r.
Proof. exact import_at_keys_frame. Qed.
Print Assumptions C18_import_frame.

(* ... and a missing path is reported without changing anything *)
Theorem C18_import_missing : forall (O : oracles) n p v r,
  get_value_at_path p r = None -> import_at_path O n p v r = (r, Err ErrPathNotFound).
Proof. exact import_at_path_missing. Qed.
Print Assumptions C18_import_missing.

(* FindValuesAtPath: stated and tied by the correspondence check and the document-order oracle of
   the harness; the theorem below is the PARTIAL part proved: on a path that crosses no array it
   is GetValueAtPath. Full statement (document order across arrays of objects): see DESIGN.md. *)
Theorem C18_find_partial : forall n k r,
  (n > 0)%nat -> find_values_at_keys n [k] r = Ok (match get_value k r with Some c => Some [c] | None => None end).
Proof. intros n k r H. destruct n; [inversion H | reflexivity]. Qed.
Print Assumptions C18_find_partial.

Example C18_example :
  let inner := MkRow [([98], CVal (RS (VInt KInt 1)) FAuto VNil)] [[98]] in
  let parsed := MkRow [([97], CVal (RV (CRow inner)) FAuto VNil)] [[97]] in
  let built := MkRow [([97], CRow inner)] [[97]] in
  get_value_at_path [97; 46; 98] parsed = Some (CVal (RS (VInt KInt 1)) FAuto VNil)
  /\ get_value_at_path [97; 46; 98] built = Some (CVal (RS (VInt KInt 1)) FAuto VNil)
  /\ get_value_at_path [97; 46; 122] parsed = None
  /\ get_value_at_path [97; 46; 98; 46; 99] parsed = None.
Proof. repeat split. Qed.
