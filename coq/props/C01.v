(* C01 (JSON core) — what row.MarshalJSON writes is one valid JSON object without raw LF. The
   exporter part (one Write of line + LF, nothing on error) is stated by the row/stream model. *)
From Coq Require Import ZArith List Bool Lia.
From JL.std Require Import GoBase GoStrconv GoJsonNum GoJson GoJsonStrict GoJsonMarshal.
From JL.std Require Import GoTime GoVal.
From JL.model Require Import Row Template TemplateJson.
From JL.proofs Require Import JsonStr JsonWrite JsonProofs MarshalValid MarshalTyping.
Import ListNotations.
Open Scope Z_scope.

Theorem C01_row_marshal :
  forall m out, jv_bytes_ok (JObj m) -> write_row m = Some out ->
    is_json_object out = true /\ Forall (fun b => 32 <= b < 256) out /\ ~ In 10 out.
Proof. exact write_row_valid. Qed.
Print Assumptions C01_row_marshal.

Theorem C01_key_encoder :
  forall s, bytes_ok s ->
    (forall t, jvalue (encode_string s ++ t) (JStr (sanitize s)) t)
    /\ is_json_value (encode_string s) = true
    /\ Forall (fun b => 32 <= b < 256) (encode_string s)
    /\ ~ In 10 (encode_string s)
    /\ decode_string (encode_string s) = Some (sanitize s)
    /\ (utf8_valid s = true -> decode_string (encode_string s) = Some s).
Proof. exact encode_string_valid. Qed.
Print Assumptions C01_key_encoder.

(* ---- rows holding typed Go values (JL.model.Template writers over GoJson.encode_string) ----
   Oracle hypotheses: the text encoding/json gives a finite float is a JSON number literal; the
   text it gives a value of a dynamic type outside the model is the compact text of a JSON value.
   Typing invariant (MarshalValid.mw_crow): []byte values are lists of bytes, time.Time values
   have a non-negative nanosecond field [row_typed]; and, for validity, every key, every string
   held by an auto / hidden column and every string exported by a string / binary / date column
   is a list of bytes [row_bytes]. *)

(* what row.MarshalJSON returns is the compact text of SOME JSON object tree *)
Theorem C01_marshal_row_writes :
  forall (O : oracles) (jfloat : bool -> Z -> option str) (jother : Z -> option str),
    (forall is32 x s, jfloat is32 x = Some s -> is_json_number s = true) ->
    (forall tag s, jother tag = Some s -> exists t, write_jv t = Some s) ->
    forall n r s, row_typed O r ->
      marshal_row O encode_string jfloat jother n r = Ok s -> exists m, write_jv (JObj m) = Some s.
Proof. exact marshal_row_writes. Qed.
Print Assumptions C01_marshal_row_writes.

(* likewise json.Marshal of any raw value and value.MarshalJSON of any cell *)
Theorem C01_marshal_value_writes :
  forall (O : oracles) (jfloat : bool -> Z -> option str) (jother : Z -> option str),
    (forall is32 x s, jfloat is32 x = Some s -> is_json_number s = true) ->
    (forall tag s, jother tag = Some s -> exists t, write_jv t = Some s) ->
    (forall n v s, rv_typed O v ->
       marshal_rv O encode_string jfloat jother n v = Ok s -> exists t, write_jv t = Some s)
    /\ (forall n c s, cell_typed O c ->
       marshal_cell O encode_string jfloat jother n c = Ok s -> exists t, write_jv t = Some s).
Proof.
  intros O jfloat jother Hf Ho. split.
  - exact (marshal_rv_writes O jfloat jother Hf Ho).
  - exact (marshal_cell_writes O jfloat jother Hf Ho).
Qed.
Print Assumptions C01_marshal_value_writes.

(* every successfully marshalled row is one valid JSON object without raw LF *)
Theorem C01_marshal_row_valid :
  forall (O : oracles) (jfloat : bool -> Z -> option str) (jother : Z -> option str),
    (forall is32 x s, jfloat is32 x = Some s -> is_json_number s = true) ->
    (forall tag s, jother tag = Some s -> exists t, write_jv t = Some s /\ jv_bytes_ok t) ->
    forall n r s, row_bytes O r ->
      marshal_row O encode_string jfloat jother n r = Ok s ->
      is_json_object s = true /\ Forall (fun b => 32 <= b < 256) s /\ ~ In 10 s.
Proof. exact marshal_row_valid. Qed.
Print Assumptions C01_marshal_row_valid.

(* exporter.Export: the single buffer handed to the single Write is one valid JSON object and LF
   (export_bytes is by definition the argument of the only Write; every other outcome of the
   model is reached before the Write) *)
Theorem C01_export_line :
  forall (O : oracles) (jfloat : bool -> Z -> option str) (jother : Z -> option str),
    (forall is32 x s, jfloat is32 x = Some s -> is_json_number s = true) ->
    (forall tag s, jother tag = Some s -> exists t, write_jv t = Some s /\ jv_bytes_ok t) ->
    forall n to input out,
      (forall row, create_row O parse_top_rv n to input = Ok row -> row_bytes O row) ->
      export_bytes O encode_string parse_top_rv jfloat jother n to input = Ok out ->
      exists line, out = line ++ [10] /\ is_json_object line = true /\ ~ In 10 line.
Proof. exact export_line. Qed.
Print Assumptions C01_export_line.

Theorem C01_pipeline_line :
  forall (O : oracles) (jfloat : bool -> Z -> option str) (jother : Z -> option str),
    (forall is32 x s, jfloat is32 x = Some s -> is_json_number s = true) ->
    (forall tag s, jother tag = Some s -> exists t, write_jv t = Some s /\ jv_bytes_ok t) ->
    forall n ti to line out,
      (forall r row, get_row O parse_top_rv n ti line = Ok r ->
                     create_row O parse_top_rv n to (RV (CRow r)) = Ok row -> row_bytes O row) ->
      pipeline O encode_string parse_top_rv jfloat jother n ti to line = Ok out ->
      exists l, out = l ++ [10] /\ is_json_object l = true /\ ~ In 10 l.
Proof. exact pipeline_line. Qed.
Print Assumptions C01_pipeline_line.

(* ---- the typing premise discharged (JL.proofs.MarshalTyping) ----
   [tw_rv] / [tw_cell] / [tw_crow]: every RAW value held (at any depth) has byte-string texts: strings,
   json.Numbers, []byte and [N]byte contents and map / row keys are lists of bytes, a uint8 is a
   byte, a time.Time has a non-negative nanosecond field. A template is typed when its prototype
   row is ([template_typed t := tw_crow t]); every template built by With / WithRow from byte-string
   column names is (MarshalTyping.build_template_typed).
   One more oracle hypothesis, on the record O standing for the Go standard library
   ([oracles_typed O], written out below): strconv.FormatFloat returns bytes; a time returned by the
   lenient path of time.Parse has a non-negative nanosecond field. *)

(* the invariant is preserved by importer.GetRow (for EVERY line: any list of integers) and by
   CreateRow (arrays, maps, rows, JSON text), and implies the invariant MarshalJSON needs *)
Theorem C01_typing_preserved :
  forall (O : oracles),
    (forall fmt prec bits x, bytes_ok (o_ffmt O fmt prec bits x))
    /\ (forall s t, o_time_parse_slow O s = Some t -> 0 <= tnsec t) ->
    (forall n ti line r, tw_crow ti -> get_row O parse_top_rv n ti line = Ok r -> tw_crow r)
    /\ (forall n t input row, tw_crow t -> tw_rv input ->
          create_row O parse_top_rv n t input = Ok row -> tw_crow row)
    /\ (forall r, tw_crow r -> row_bytes O r).
Proof.
  exact (fun O HO => conj (get_row_typed O HO) (conj (create_row_typed O HO) (row_typed_bytes O HO))).
Qed.
Print Assumptions C01_typing_preserved.

(* exporter.Export of a typed input through a typed template: no residual premise on the row *)
Theorem C01_export_line_typed :
  forall (O : oracles) (jfloat : bool -> Z -> option str) (jother : Z -> option str),
    (forall is32 x s, jfloat is32 x = Some s -> is_json_number s = true) ->
    (forall tag s, jother tag = Some s -> exists t, write_jv t = Some s /\ jv_bytes_ok t) ->
    (forall fmt prec bits x, bytes_ok (o_ffmt O fmt prec bits x))
    /\ (forall s t, o_time_parse_slow O s = Some t -> 0 <= tnsec t) ->
    forall n to input out,
      tw_crow to -> tw_rv input ->
      export_bytes O encode_string parse_top_rv jfloat jother n to input = Ok out ->
      exists line, out = line ++ [10] /\ is_json_object line = true /\ ~ In 10 line.
Proof. exact export_line_typed. Qed.
Print Assumptions C01_export_line_typed.

(* one line through importer and exporter: for every line and every pair of typed templates,
   whatever is handed to the single Write is one valid JSON object without raw LF, then LF *)
Theorem C01_pipeline_line_typed :
  forall (O : oracles) (jfloat : bool -> Z -> option str) (jother : Z -> option str),
    (forall is32 x s, jfloat is32 x = Some s -> is_json_number s = true) ->
    (forall tag s, jother tag = Some s -> exists t, write_jv t = Some s /\ jv_bytes_ok t) ->
    (forall fmt prec bits x, bytes_ok (o_ffmt O fmt prec bits x))
    /\ (forall s t, o_time_parse_slow O s = Some t -> 0 <= tnsec t) ->
    forall n ti to line out,
      tw_crow ti -> tw_crow to ->
      pipeline O encode_string parse_top_rv jfloat jother n ti to line = Ok out ->
      exists l, out = l ++ [10] /\ is_json_object l = true /\ ~ In 10 l.
Proof. exact pipeline_line_typed. Qed.
Print Assumptions C01_pipeline_line_typed.
