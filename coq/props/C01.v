(* C01 (JSON core) — what row.MarshalJSON writes is one valid JSON object without raw LF. The
   exporter part (one Write of line + LF, nothing on error) is stated by the row/stream model. *)
From Coq Require Import ZArith List Bool Lia.
From JL.std Require Import GoBase GoStrconv GoJsonNum GoJson GoJsonStrict GoJsonMarshal.
From JL.proofs Require Import JsonStr JsonWrite JsonProofs.
Import ListNotations.
Open Scope Z_scope.

Theorem C01_row_marshal :
  forall m out, jv_bytes_ok (JObj m) -> write_row m = Some out ->
    is_json_object out = true /\ Forall (fun b => 32 <= b < 256) out /\ ~ In 10 out.
Proof. exact write_row_valid. Qed.
Print Assumptions C01_row_marshal.

Theorem C01_key_encoder :
  forall s, bytes_ok s ->
    (forall t, jvalue (encode_string s ++ t) (JStr (sanitize s)) t)
    /\ is_json_value (encode_string s) = true
    /\ Forall (fun b => 32 <= b < 256) (encode_string s)
    /\ ~ In 10 (encode_string s)
    /\ decode_string (encode_string s) = Some (sanitize s)
    /\ (utf8_valid s = true -> decode_string (encode_string s) = Some s).
Proof. exact encode_string_valid. Qed.
Print Assumptions C01_key_encoder.
