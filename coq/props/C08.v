(* C08 — I/O failures and oversize lines are reported, never silently swallowed.
   Statements over JL.model.Stream / JL.std.GoScanner; proofs in JL.proofs.StreamProofs.
   Quantified over every row type and templates (R, get_row, export_row), every byte stream s,
   every reader fault offset k (None = no fault; 0 and line boundaries included), every buffer
   capacity C, every processor and every write-fault schedule.  Axiom-free. *)
From Coq Require Import ZArith List Bool Lia.
From JL.std Require Import GoBase GoScanner.
From JL.model Require Import Stream.
From JL.proofs Require Import StreamProofs.
Import ListNotations.
Open Scope Z_scope.

(* No silent loss.  If the reader fails at some offset x in [0, length s], or some raw line of s
   needs more than the buffer capacity, then Stream does not return nil, or a processor call
   carried the reader's error (io:read) or bufio.ErrTooLong (io:toolong). *)
Theorem C08_no_silent_loss :
  forall (R : Type) (get_row : str -> res R) (export_row : R -> res str)
         (wf : nat -> option Z) (proc : nat -> option eclass -> option eclass)
         (C : Z) (s : str) (k : option Z) (r : sres) (evs : list event),
  (exists x, k = Some x /\ 0 <= x <= lenZ s) \/ (exists l, In l (raw_lines s) /\ C <= lenZ l) ->
  Stream R get_row export_row wf proc C s k = (r, evs) ->
  r <> ROk \/ In (EvCall (Some EcRead)) evs \/ In (EvCall (Some EcTooLong)) evs.
Proof. exact no_silent_loss. Qed.
Print Assumptions C08_no_silent_loss.

(* Every Write call — before, at, or after a failing write, under any faults — was handed exactly
   one complete output line: the export of the row of one line of the input, followed by one LF. *)
Theorem C08_written_lines_complete :
  forall (R : Type) (get_row : str -> res R) (export_row : R -> res str)
         (wf : nat -> option Z) (proc : nat -> option eclass -> option eclass)
         (C : Z) (s : str) (k : option Z) (r : sres) (evs : list event) (p : str) (n : Z),
  Stream R get_row export_row wf proc C s k = (r, evs) -> In (EvWrite p n) evs ->
  exists t row b, In t (lines s) /\ get_row t = Ok row /\ export_row row = Ok b /\ p = b ++ [10].
Proof. exact written_lines_complete. Qed.
Print Assumptions C08_written_lines_complete.

(* The j-th Write was accepted in full unless the writer failed on it; when it failed, the very
   next event is the processor call that carries io:write. *)
Theorem C08_write_accounting :
  forall (R : Type) (get_row : str -> res R) (export_row : R -> res str)
         (wf : nat -> option Z) (proc : nat -> option eclass -> option eclass)
         (C : Z) (s : str) (k : option Z) (r : sres) (pre : list event) (p : str) (n : Z) (post : list event),
  Stream R get_row export_row wf proc C s k = (r, pre ++ EvWrite p n :: post) ->
  match wf (length (writes_of pre)) with
  | None => n = lenZ p
  | Some m => n = Z.max 0 (Z.min m (lenZ p)) /\ exists post', post = EvCall (Some EcWrite) :: post'
  end.
Proof. exact write_accounting. Qed.
Print Assumptions C08_write_accounting.

(* Fatal stops.  A processor call that returned an error (for a write error or anything else) is
   the LAST event of the run — no Write and no processor call follows — and its error is what
   Stream returns. *)
Theorem C08_fatal_stops :
  forall (R : Type) (get_row : str -> res R) (export_row : R -> res str)
         (wf : nat -> option Z) (proc : nat -> option eclass -> option eclass)
         (C : Z) (s : str) (k : option Z) (r : sres) (pre : list event) (e : option eclass) (post : list event) (x : eclass),
  Stream R get_row export_row wf proc C s k = (r, pre ++ EvCall e :: post) ->
  proc (length (calls_of pre)) e = Some x ->
  post = [] /\ r = RErr x.
Proof. exact fatal_stops. Qed.
Print Assumptions C08_fatal_stops.

(* Conversely Stream returns an error only if the last event is a processor call that returned it. *)
Theorem C08_error_is_last_call :
  forall (R : Type) (get_row : str -> res R) (export_row : R -> res str)
         (wf : nat -> option Z) (proc : nat -> option eclass -> option eclass)
         (C : Z) (s : str) (k : option Z) (x : eclass) (evs : list event),
  Stream R get_row export_row wf proc C s k = (RErr x, evs) ->
  exists pre e, evs = pre ++ [EvCall e] /\ proc (length (calls_of pre)) e = Some x.
Proof. exact error_is_last_call. Qed.
Print Assumptions C08_error_is_last_call.

(* Processed prefix.  Let the stream start with the LF-terminated lines L (each fitting the
   buffer) and let the reader fail, if at all, no earlier than after those lines.  Then the run
   starts with exactly the run of those lines alone on a reader that does not fail (their C07
   outcome, same processor and writer): it extends that trace when that run returned nil, and is
   identical to it when the processor stopped that run. *)
Theorem C08_processed_prefix :
  forall (R : Type) (get_row : str -> res R) (export_row : R -> res str)
         (wf : nat -> option Z) (proc : nat -> option eclass -> option eclass)
         (C : Z) (L : list str) (rest : str) (k : option Z),
  0 < C ->
  Forall (fun l => no_lf l /\ lenZ l < C) L ->
  match k with None => True | Some x => lenZ (join_lf L []) - 1 < x end ->
  let '(r1, ev1) := Stream R get_row export_row wf proc C (join_lf L []) None in
  match r1 with
  | ROk => exists r2 ev2, Stream R get_row export_row wf proc C (join_lf L rest) k = (r2, ev1 ++ ev2)
  | _ => Stream R get_row export_row wf proc C (join_lf L rest) k = (r1, ev1)
  end.
Proof. exact processed_prefix. Qed.
Print Assumptions C08_processed_prefix.

(* The same for jsonline's own importer and exporter of any two templates (row / template model with the text
   layer of JL.std.GoJson) instead of abstract per-line functions: whatever the templates and whatever
   the lines contain, a reader failure at any offset or an over-long line is reported, and every
   Write is one complete line — which C01_export_line shows to be one JSON object and one LF. *)
From JL.std Require Import GoVal.
From JL.model Require Import Row Template TemplateJson Jl.
From JL.proofs Require Import JlProofs.

Theorem C08_no_silent_loss_jsonline :
  forall (O : oracles) jfloat jother (ti to : template)
         (wf : nat -> option Z) (proc : nat -> option eclass -> option eclass)
         (C : Z) (s : str) (k : option Z) (r : sres) (evs : list event),
  (exists x, k = Some x /\ 0 <= x <= lenZ s) \/ (exists l, In l (raw_lines s) /\ C <= lenZ l) ->
  Stream crow (jl_import O ti) (jl_export O jfloat jother to) wf proc C s k = (r, evs) ->
  r <> ROk \/ In (EvCall (Some EcRead)) evs \/ In (EvCall (Some EcTooLong)) evs.
Proof. intros. eapply no_silent_loss; eauto. Qed.
Print Assumptions C08_no_silent_loss_jsonline.

