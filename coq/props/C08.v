(* C08 — I/O failures and oversize lines are reported, never silently swallowed.
   Statements over JL.model.Stream / JL.std.GoScanner; proofs in JL.proofs.StreamProofs.
   Quantified over every row type and templates (R, get_row, export_row), every byte stream s,
   every reader fault offset k (None = no fault; 0 and line boundaries included), every buffer
   capacity C, every processor and every write-fault schedule.  Axiom-free. *)
From Coq Require Import ZArith List Bool Lia.
From JL.std Require Import GoBase GoScanner.
From JL.model Require Import Stream.
From JL.proofs Require Import StreamProofs.
Import ListNotations.
Open Scope Z_scope.

(* No silent loss.  If the reader fails at some offset x in [0, length s], or some raw line of s
   needs more than the buffer capacity, then Stream does not return nil, or a processor call
   carried the reader's error (io:read) or bufio.ErrTooLong (io:toolong). *)
Theorem C08_no_silent_loss :
  forall (R : Type) (get_row : str -> res R) (export_row : R -> res str)
         (wf : nat -> option Z) (proc : nat -> option eclass -> option eclass)
         (C : Z) (s : str) (k : option Z) (r : sres) (evs : list event),
  (exists x, k = Some x /\ 0 <= x <= lenZ s) \/ (exists l, In l (raw_lines s) /\ C <= lenZ l) ->
  Stream R get_row export_row wf proc C s k = (r, evs) ->
  r <> ROk \/ In (EvCall (Some EcRead)) evs \/ In (EvCall (Some EcTooLong)) evs.
Proof. exact no_silent_loss. Qed.
Print Assumptions C08_no_silent_loss.

(* Every Write call — before, at, or after a failing write, under any faults — was handed exactly
   one complete output line: the export of the row of one line of the input, followed by one LF. *)
Theorem C08_written_lines_complete :
  forall (R : Type) (get_row : str -> res R) (export_row : R -> res str)
         (wf : nat -> option Z) (proc : nat -> option eclass -> option eclass)
         (C : Z) (s : str) (k : option Z) (r : sres) (evs : list event) (p : str) (n : Z),
  Stream R get_row export_row wf proc C s k = (r, evs) -> In (EvWrite p n) evs ->
  exists t row b, In t (lines s) /\ get_row t = Ok row /\ export_row row = Ok b /\ p = b ++ [10].
Proof. exact written_lines_complete. Qed.
Print Assumptions C08_written_lines_complete.

(* The j-th Write was accepted in full unless the writer failed on it; when it failed, the very
   next event is the processor call that carries io:write. *)
Theorem C08_write_accounting :
  forall (R : Type) (get_row : str -> res R) (export_row : R -> res str)
         (wf : nat -> option Z) (proc : nat -> option eclass -> option eclass)
         (C : Z) (s : str) (k : option Z) (r : sres) (pre : list event) (p : str) (n : Z) (post : list event),
  Stream R get_row export_row wf proc C s k = (r, pre ++ EvWrite p n :: post) ->
  match wf (length (writes_of pre)) with
  | None => n = lenZ p
  | Some m => n = Z.max 0 (Z.min m (lenZ p)) /\ exists post', post = EvCall (Some EcWrite) :: post'
  end.
Proof. exact write_accounting. Qed.
Print Assumptions C08_write_accounting.

(* Fatal stops.  A processor call that returned an error (for a write error or anything else) is
   the LAST event of the run — no Write and no processor call follows — and its error is what
   Stream returns. *)
Theorem C08_fatal_stops :
  forall (R : Type) (get_row : str -> res R) (export_row : R -> res str)
         (wf : nat -> option Z) (proc : nat -> option eclass -> option eclass)
         (C : Z) (s : str) (k : option Z) (r : sres) (pre : list event) (e : option eclass) (post : list event) (x : eclass),
  Stream R get_row export_row wf proc C s k = (r, pre ++ EvCall e :: post) ->
  proc (length (calls_of pre)) e = Some x ->
  post = [] /\ r = RErr x.
Proof. exact fatal_stops. Qed.
Print Assumptions C08_fatal_stops.

(* Conversely Stream returns an error only if the last event is a processor call that returned it. *)
Theorem C08_error_is_last_call :
  forall (R : Type) (get_row : str -> res R) (export_row : R -> res str)
         (wf : nat -> option Z) (proc : nat -> option eclass -> option eclass)
         (C : Z) (s : str) (k : option Z) (x : eclass) (evs : list event),
  Stream R get_row export_row wf proc C s k = (RErr x, evs) ->
  exists pre e, evs = pre ++ [EvCall e] /\ proc (length (calls_of pre)) e = Some x.
Proof. exact error_is_last_call. Qed.
Print Assumptions C08_error_is_last_call.

(* Processed prefix.  Let the stream start with the LF-terminated lines L (each fitting the
   buffer) and let the reader fail, if at all, no earlier than after those lines.  Then the run
   starts with exactly the run of those lines alone on a reader that does not fail (their C07
   outcome, same processor and writer): it extends that trace when that run returned nil, and is
   identical to it when the processor stopped that run. *)
Theorem C08_processed_prefix :
  forall (R : Type) (get_row : str -> res R) (export_row : R -> res str)
         (wf : nat -> option Z) (proc : nat -> option eclass -> option eclass)
         (C : Z) (L : list str) (rest : str) (k : option Z),
  0 < C ->
  Forall (fun l => no_lf l /\ lenZ l < C) L ->
  match k with None => True | Some x => lenZ (join_lf L []) - 1 < x end ->
  let '(r1, ev1) := Stream R get_row export_row wf proc C (join_lf L []) None in
  match r1 with
  | ROk => exists r2 ev2, Stream R get_row export_row wf proc C (join_lf L rest) k = (r2, ev1 ++ ev2)
  | _ => Stream R get_row export_row wf proc C (join_lf L rest) k = (r1, ev1)
  end.
Proof. exact processed_prefix. Qed.
Print Assumptions C08_processed_prefix.

(* The same for jsonline's own importer and exporter of any two templates (row / template model with the text
   layer of JL.std.GoJson) instead of abstract per-line functions: whatever the templates and whatever
   the lines contain, a reader failure at any offset or an over-long line is reported, and every
   Write is one complete line — which C01_export_line shows to be one JSON object and one LF. *)
From JL.std Require Import GoVal.
From JL.model Require Import Row Template TemplateJson Jl.
From JL.proofs Require Import JlProofs.

Theorem C08_no_silent_loss_jsonline :
  forall (O : oracles) jfloat jother (ti to : template)
         (wf : nat -> option Z) (proc : nat -> option eclass -> option eclass)
         (C : Z) (s : str) (k : option Z) (r : sres) (evs : list event),
  (exists x, k = Some x /\ 0 <= x <= lenZ s) \/ (exists l, In l (raw_lines s) /\ C <= lenZ l) ->
  Stream crow (jl_import O ti) (jl_export O jfloat jother to) wf proc C s k = (r, evs) ->
  r <> ROk \/ In (EvCall (Some EcRead)) evs \/ In (EvCall (Some EcTooLong)) evs.
Proof. intros. eapply no_silent_loss; eauto. Qed.
Print Assumptions C08_no_silent_loss_jsonline.


(* ---------------------------------------------------------------------------------------------
   After the end, nothing.  The caller still holds the importer and the streamer when Stream has
   returned, and may ask again.  JL.model.StreamPull.stream_loop_st is Stream.stream_loop returning
   also the importer the loop stopped in (C07_stream_loop_st_is_stream_loop); pull_loop is the
   hand-written ReadOne / Export loop (C07_pull_is_stream). *)
From JL.model Require Import StreamPull.
From JL.proofs Require Import StreamPullProofs.

(* Nothing after the end.  For every scanner whose Scan() / Err() settle on a set `good` of scanner
   states closed under Scan() — Err() is sticky, and a Scan() that returned false leaves the
   scanner dead when Err() is nil afterwards or was non-nil before (the one exception of
   bufio.Scanner, the Scan() that fails with ErrTooLong and leaves the over-long line's bytes to be
   handed out as one more token, is thereby allowed) —, every importer whose `failed` flag is set
   only if the scanner has an error (NewImporter; kept by Import and GetRow), every processor,
   write-fault schedule, observer state and fuel:
   if the loop of Stream RETURNED NIL — the input came to its end, or the scanner's failure was
   handed over and tolerated —, then for the importer i' it stopped in, for ever after:
     Import() is false and ReadOne() is (nil, nil), both leaving the importer exactly as it is
       (so after a scanner failure was handed over once, Import is false for ever);
     a further run of Stream's loop, with any processor and any writer, and a further run of the
       pull loop, return nil at once: no processor call, no Write, no counter and no state changes;
     GetRow() does not panic on its own account: it returns the scanner's error again if there is
       one, and otherwise whatever the EMPTY token gives under the input template (Scanner.Bytes()
       is empty after a Scan() that returned false) — for jsonline's own importer, an error. *)
Theorem C08_nothing_after_the_end :
  forall (R : Type) (get_row : str -> res R) (export_row : R -> res str)
         (Sc : Type) (s_scan : Sc -> option str * Sc) (s_err : Sc -> option serr) (good : Sc -> Prop)
         (wf : nat -> option Z) (proc : nat -> option eclass -> option eclass)
         (fuel : nat) (i : importer Sc) (o : ost) (i' : importer Sc) (o' : ost),
  (forall sc, good sc -> good (snd (s_scan sc))) ->
  (forall sc, good sc -> s_err sc <> None -> s_err (snd (s_scan sc)) <> None) ->
  (forall sc sc', good sc -> s_scan sc = (None, sc') ->
                  s_err sc' = None \/ s_err sc <> None -> s_scan sc' = (None, sc')) ->
  good (i_sc i) -> (i_failed i = true -> s_err (i_sc i) <> None) ->
  stream_loop_st R get_row export_row Sc s_scan s_err wf proc fuel i o = (ROk, i', o') ->
  Import Sc s_scan s_err i' = (false, i') /\
  ReadOne R get_row Sc s_scan s_err i' = (None, i') /\
  (forall wf2 proc2 f o2,
     stream_loop_st R get_row export_row Sc s_scan s_err wf2 proc2 (S f) i' o2 = (ROk, i', o2)) /\
  (forall wf2 proc2 f o2,
     stream_loop R get_row export_row Sc s_scan s_err wf2 proc2 (S f) i' o2 = (ROk, o2)) /\
  (forall wf2 f o2,
     pull_loop R get_row export_row Sc s_scan s_err wf2 (S f) i' o2 = (ROk, i', o2)) /\
  GetRow R get_row Sc s_err i' =
    (match s_err (i_sc i') with
     | Some e => GrErr (eclass_of_serr e)
     | None => match get_row [] with
               | Ok r => GrOk r
               | Err s => GrErr (EcImport s)
               | Panic => GrPanic
               | Fuel => GrFuel
               end
     end, i').
Proof. exact nothing_after_the_end. Qed.
Print Assumptions C08_nothing_after_the_end.

(* Both scanner models settle: the chunk-free specification on the states in which the reader's
   error leaves no buffered bytes (every state reached from a new scanner; fault_drained sc :=
   match sc with Stopped b SRead => b = [] | _ => True end), the operational scanner on the states
   that satisfy the invariant of the chunking theorem and whose abstraction is such a state. *)
Theorem C08_scanners_settle :
  forall C : Z,
  ((forall sc, fault_drained sc -> fault_drained (snd (scan C sc))) /\
   (forall sc, fault_drained sc -> sc_err sc <> None -> sc_err (snd (scan C sc)) <> None) /\
   (forall sc sc', fault_drained sc -> scan C sc = (None, sc') ->
                   sc_err sc' = None \/ sc_err sc <> None -> scan C sc' = (None, sc'))) /\
  ((forall c, cgood C c -> cgood C (snd (cscan C c))) /\
   (forall c, cgood C c -> c_public_err c <> None -> c_public_err (snd (cscan C c)) <> None) /\
   (forall c c', cgood C c -> cscan C c = (None, c') ->
                 c_public_err c' = None \/ c_public_err c <> None -> cscan C c' = (None, c'))).
Proof. exact (fun C => conj (scan_settles C) (cscan_settles C)). Qed.
Print Assumptions C08_scanners_settle.

(* Hence for whole runs.  Whenever Stream returns nil — any input, capacity, reader-fault offset,
   write-fault schedule, processor —, the run (StreamSt: the same run, handing back its final
   importer and observer state) stopped in a state after which nothing happens, in all the senses
   above. *)
Theorem C08_nothing_after_the_end_run :
  forall (R : Type) (get_row : str -> res R) (export_row : R -> res str)
         (wf : nat -> option Z) (proc : nat -> option eclass -> option eclass)
         (C : Z) (s : str) (k : option Z) (evs : list event),
  Stream R get_row export_row wf proc C s k = (ROk, evs) ->
  exists i' o',
    StreamSt R get_row export_row wf proc C s k = (ROk, i', o') /\ rev (o_trace o') = evs /\
    Import sstate (scan C) sc_err i' = (false, i') /\
    ReadOne R get_row sstate (scan C) sc_err i' = (None, i') /\
    (forall wf2 proc2 f o2,
       stream_loop_st R get_row export_row sstate (scan C) sc_err wf2 proc2 (S f) i' o2 = (ROk, i', o2)) /\
    (forall wf2 proc2 f o2,
       stream_loop R get_row export_row sstate (scan C) sc_err wf2 proc2 (S f) i' o2 = (ROk, o2)) /\
    (forall wf2 f o2,
       pull_loop R get_row export_row sstate (scan C) sc_err wf2 (S f) i' o2 = (ROk, i', o2)) /\
    GetRow R get_row sstate sc_err i' =
      (match sc_err (i_sc i') with
       | Some e => GrErr (eclass_of_serr e)
       | None => match get_row [] with
                 | Ok r => GrOk r
                 | Err s => GrErr (EcImport s)
                 | Panic => GrPanic
                 | Fuel => GrFuel
                 end
       end, i').
Proof. exact nothing_after_the_end_run. Qed.
Print Assumptions C08_nothing_after_the_end_run.

(* the same over the operational scanner, for every chunking of the reader *)
Theorem C08_nothing_after_the_end_run_chunked :
  forall (R : Type) (get_row : str -> res R) (export_row : R -> res str)
         (wf : nat -> option Z) (proc : nat -> option eclass -> option eclass)
         (C : Z) (s : str) (k : option Z) (chunks : list Z) (evs : list event),
  match k with Some x => 0 <= x | None => True end ->
  StreamChunked R get_row export_row wf proc C s k chunks = (ROk, evs) ->
  exists i' o',
    StreamChunkedSt R get_row export_row wf proc C s k chunks = (ROk, i', o') /\ rev (o_trace o') = evs /\
    Import cstate (cscan C) c_public_err i' = (false, i') /\
    ReadOne R get_row cstate (cscan C) c_public_err i' = (None, i') /\
    (forall wf2 proc2 f o2,
       stream_loop_st R get_row export_row cstate (cscan C) c_public_err wf2 proc2 (S f) i' o2 = (ROk, i', o2)) /\
    (forall wf2 proc2 f o2,
       stream_loop R get_row export_row cstate (cscan C) c_public_err wf2 proc2 (S f) i' o2 = (ROk, o2)) /\
    (forall wf2 f o2,
       pull_loop R get_row export_row cstate (cscan C) c_public_err wf2 (S f) i' o2 = (ROk, i', o2)) /\
    GetRow R get_row cstate c_public_err i' =
      (match c_public_err (i_sc i') with
       | Some e => GrErr (eclass_of_serr e)
       | None => match get_row [] with
                 | Ok r => GrOk r
                 | Err s => GrErr (EcImport s)
                 | Panic => GrPanic
                 | Fuel => GrFuel
                 end
       end, i').
Proof. exact nothing_after_the_end_run_chunked. Qed.
Print Assumptions C08_nothing_after_the_end_run_chunked.

(* Exactly when a further run does nothing.  A run the PROCESSOR stopped (Stream returned its
   error) stops where it is; in general input remains and a further run goes on with it
   (StreamPullProofs.PullExamples.ex_stopped_early_goes_on).  For every scanner, importer state,
   processor, writer and observer state: a run does nothing — returns nil without any event —
   if Import() says false, and if Import() says true it calls the processor at least once, unless
   the per-line functions panic or run out of model fuel before. *)
Theorem C08_a_run_does_nothing_iff_import_is_false :
  forall (R : Type) (get_row : str -> res R) (export_row : R -> res str)
         (Sc : Type) (s_scan : Sc -> option str * Sc) (s_err : Sc -> option serr)
         (wf : nat -> option Z) (proc : nat -> option eclass -> option eclass)
         (f : nat) (i : importer Sc) (o : ost),
  (fst (Import Sc s_scan s_err i) = false ->
   stream_loop_st R get_row export_row Sc s_scan s_err wf proc (S f) i o
   = (ROk, snd (Import Sc s_scan s_err i), o)) /\
  (fst (Import Sc s_scan s_err i) = true ->
   forall r i' o', stream_loop_st R get_row export_row Sc s_scan s_err wf proc (S f) i o = (r, i', o') ->
   r = RPanic \/ r = RFuel \/ (o_calls o < o_calls o')%nat).
Proof. exact run_does_nothing_iff. Qed.
Print Assumptions C08_a_run_does_nothing_iff_import_is_false.

(* One stopped run is at its end all the same: the processor stopped it ON THE READER'S FAILURE
   (the last event is the call that carried io:read, and Stream returned what the processor
   returned).  Then the next Import() is false, a further run returns nil without any event, and
   from there nothing happens for ever.  (After ErrTooLong this is NOT so: the next run delivers
   io:toolong once more, StreamPullProofs.PullExamples.ex_too_long_fatal_twice, and only the third
   run finds the end.) *)
Theorem C08_fatal_read_failure_is_the_end :
  forall (R : Type) (get_row : str -> res R) (export_row : R -> res str)
         (wf : nat -> option Z) (proc : nat -> option eclass -> option eclass)
         (C : Z) (s : str) (k : option Z) (x : eclass) (evs : list event),
  Stream R get_row export_row wf proc C s k = (RErr x, evs ++ [EvCall (Some EcRead)]) ->
  exists i' o' i'',
    StreamSt R get_row export_row wf proc C s k = (RErr x, i', o') /\
    rev (o_trace o') = evs ++ [EvCall (Some EcRead)] /\
    Import sstate (scan C) sc_err i' = (false, i'') /\
    (forall wf2 proc2 f o2,
       stream_loop_st R get_row export_row sstate (scan C) sc_err wf2 proc2 (S f) i' o2 = (ROk, i'', o2)) /\
    Import sstate (scan C) sc_err i'' = (false, i'') /\
    ReadOne R get_row sstate (scan C) sc_err i'' = (None, i'') /\
    (forall wf2 proc2 f o2,
       stream_loop_st R get_row export_row sstate (scan C) sc_err wf2 proc2 (S f) i'' o2 = (ROk, i'', o2)) /\
    (forall wf2 proc2 f o2,
       stream_loop R get_row export_row sstate (scan C) sc_err wf2 proc2 (S f) i'' o2 = (ROk, o2)) /\
    (forall wf2 f o2,
       pull_loop R get_row export_row sstate (scan C) sc_err wf2 (S f) i'' o2 = (ROk, i'', o2)) /\
    GetRow R get_row sstate sc_err i'' =
      (match sc_err (i_sc i'') with
       | Some e => GrErr (eclass_of_serr e)
       | None => match get_row [] with
                 | Ok r => GrOk r
                 | Err s => GrErr (EcImport s)
                 | Panic => GrPanic
                 | Fuel => GrFuel
                 end
       end, i'').
Proof. exact fatal_read_is_an_end_run. Qed.
Print Assumptions C08_fatal_read_failure_is_the_end.

(* A concrete stream, "{}\n1\r\n\nx\n{}" (toy templates: "1" rejected on input, "x" on output; a
   blank line is a line), the second Write failing after 0 bytes, the reader failing after 8 bytes
   (inside the fourth line), a tolerant processor: Stream returns nil after the trace shown; then
   Import is false, ReadOne gives (nil, nil), GetRow gives the reader's error again, and a second
   run — here with the default processor and a writer that would fail at once — does nothing. *)
Example C08_nothing_after_the_end_example :
  let wf := fun j : nat => if Nat.eqb j 1 then Some 0 else None in
  let ex_get := StreamProofs.Examples.ex_get in
  let ex_exp := StreamProofs.Examples.ex_exp in
  let '(r, i', o') := StreamSt str ex_get ex_exp wf NoFailureProcessor 8 StreamProofs.Examples.ex_s (Some 8) in
  r = ROk /\
  rev (o_trace o') = [EvCall None; EvWrite [123;125;10] 3;
                      EvCall (Some (EcImport ErrNoWrap));
                      EvCall None; EvWrite [10] 0; EvCall (Some EcWrite);
                      EvCall (Some EcRead)] /\
  i_failed i' = true /\
  Import sstate (scan 8) sc_err i' = (false, i') /\
  ReadOne str ex_get sstate (scan 8) sc_err i' = (None, i') /\
  GetRow str ex_get sstate sc_err i' = (GrErr EcRead, i') /\
  stream_loop_st str ex_get ex_exp sstate (scan 8) sc_err (fun _ => Some 0) DefaultProcessor 5 i' o' = (ROk, i', o') /\
  pull_loop str ex_get ex_exp sstate (scan 8) sc_err (fun _ => Some 0) 5 i' o' = (ROk, i', o').
Proof. vm_compute. repeat split. Qed.
