(* C14 — date-time handling preserves the instant and an explicit offset.

   Vocabulary (definitions in proofs/TimeCalendar.v and proofs/TimeProofs.v, all executable):
     valid_date y m d          1 <= m <= 12 /\ 1 <= d <= days_in m y        (proleptic Gregorian)
     civil_ok y mo d hh mi ss  0 <= y <= 9999, valid_date, 0<=hh<=23, 0<=mi<=59, 0<=ss<=59
     zspec / zone_ok           a zone designator: ZUtc ("Z") or ZNum neg h m ("+hh:mm" / "-hh:mm",
                               0<=h<=23, 0<=m<=59: every offset -23:59..+23:59, "+00:00" and "-00:00" included)
     zone_off zs               its offset in seconds east of UTC;  zcanon zs = ZUtc when that is 0, else zs
     rfc3339_text y..ss frac zs the bytes  YYYY-MM-DDThh:mm:ss[.frac](Z|+-hh:mm)   (frac: any digit string)
     unix_of_civil             days_from_civil * 86400 + hh*3600 + mi*60 + ss
     off_ok off                -86400 < off < 86400 /\ off mod 60 = 0
     sec_range a               a is within 0000-01-01T00:00:00 .. 9999-12-31T23:59:59
     zone_hyp O n  (H-zone)    off_ok (o_local_off O n) /\ sec_range (n + o_local_off O n)
     no_wrap t, year_ok t      tsec t + toff t is representable without wrapping; its year is 0..9999
   parse_rfc3339_fast is the model of Go's strict RFC 3339 parser (time.parseRFC3339); O is an
   arbitrary oracle record: its o_local_off is the process time zone, o_time_parse_slow the
   lenient general parser. H-zone and the year ranges are premises, never axioms.

   The first three theorems are pure (closed under the global context); the others are over the
   GENERATED model (CastGen / ConvGen) and inherit the four standard-library axioms Flocq uses. *)
From Coq Require Import ZArith List Bool.
From JL.std Require Import GoBase GoFloat GoStrconv GoTime GoVal GoHyps.
From JL.gen Require Import CastGen ConvGen.
From JL.proofs Require Import StrconvProofs TimeCalendar TimeProofs.
Import ListNotations.
Open Scope Z_scope.

(* ---- Layer 0: calendar and text (no oracle, no generated code) ---- *)

Theorem C14_calendar_inverse :
  (forall y m d, 1 <= m <= 12 -> 1 <= d <= days_in m y -> civil_from_days (days_from_civil y m d) = (y, m, d))
  /\ (forall z, let '(y, m, d) := civil_from_days z in
                days_from_civil y m d = z /\ 1 <= m <= 12 /\ 1 <= d <= days_in m y).
Proof.
  split.
  - intros y m d Hm Hd. exact (civil_from_days_from_civil y m d (conj Hm Hd)).
  - intros z. pose proof (days_from_civil_from_days z) as H1. pose proof (civil_from_days_valid z) as H2.
    destruct (civil_from_days z) as [[y m] d]. exact (conj H1 H2).
Qed.
Print Assumptions C14_calendar_inverse.

Theorem C14_format_parse : forall y mo d hh mi ss (frac : str) zs,
  civil_ok y mo d hh mi ss -> Forall digit_char frac -> zone_ok zs ->
  parse_rfc3339_fast (rfc3339_text y mo d hh mi ss frac zs)
  = Some {| tsec := unix_of_civil y mo d hh mi ss - zone_off zs;
            tnsec := horner frac 0 * 10 ^ 9 / 10 ^ Z.of_nat (length frac);     (* floor of 0.frac * 1e9 *)
            toff := zone_off zs |}.
Proof. exact format_parse. Qed.
Print Assumptions C14_format_parse.

Theorem C14_parse_format : forall t : gtime,
  no_wrap t -> year_ok t -> off_ok (toff t) ->
  parse_rfc3339_fast (fmt_rfc3339 t) = Some {| tsec := tsec t; tnsec := 0; toff := toff t |}.
Proof. exact parse_format_rfc3339. Qed.
Print Assumptions C14_parse_format.

(* ---- over the generated model ---- *)

(* a text with an explicit offset is read as exactly that instant with that offset, whatever the
   process zone, and written back as the same text without fraction ("Z" for a zero offset),
   which reads back as the same instant and offset *)
Theorem C14_explicit_offset : forall (O : oracles) y mo d hh mi ss (frac : str) zs,
  civil_ok y mo d hh mi ss -> Forall digit_char frac -> zone_ok zs ->
  let s := rfc3339_text y mo d hh mi ss frac zs in
  let instant := unix_of_civil y mo d hh mi ss - zone_off zs in
  exists t s',
    ToTime O (VStr s) = Ok (VTime t) /\ tsec t = instant /\ toff t = zone_off zs
    /\ ToString O (VTime t) = Ok (VStr s')
    /\ s' = rfc3339_text y mo d hh mi ss [] (zcanon zs)
    /\ parse_rfc3339_fast s' = Some {| tsec := instant; tnsec := 0; toff := zone_off zs |}
    /\ ToTime O (VStr s') = Ok (VTime {| tsec := instant; tnsec := 0; toff := zone_off zs |}).
Proof. exact c14_explicit_offset. Qed.
Print Assumptions C14_explicit_offset.

(* an integer is read as Unix seconds (in the local zone): int64, every other integer kind that
   fits int64, and canonical decimal text / json.Number that the lenient time parser rejects
   (the strict parser is PROVED to reject every decimal integer) *)
Theorem C14_unix_seconds : forall O : oracles,
  (forall n, ToTime O (VInt KInt64 n) = Ok (VTime {| tsec := n; tnsec := 0; toff := o_local_off O n |}))
  /\ (forall k z, in_range k z -> z <= 9223372036854775807 ->
        ToTime O (VInt k z) = Ok (VTime {| tsec := z; tnsec := 0; toff := o_local_off O z |}))
  /\ (forall z, in_range KInt64 z -> o_time_parse_slow O (dec z) = None ->
        ToTime O (VStr (dec z)) = Ok (VTime {| tsec := z; tnsec := 0; toff := o_local_off O z |})
        /\ ToTime O (VNum (dec z)) = Ok (VTime {| tsec := z; tnsec := 0; toff := o_local_off O z |})).
Proof. exact c14_unix_seconds. Qed.
Print Assumptions C14_unix_seconds.

(* timestamp column -> date-time column: the rendered text denotes instant n (for every reader O') *)
Theorem C14_dt_ts_instant : forall O : oracles,
  (forall n, zone_hyp O n -> in_range KInt64 n ->
     exists s,
       importFromTimestamp O (VInt KInt64 n) VNil = Ok (VInt KInt64 n)
       /\ importFromTimestamp O (VNum (dec n)) VNil = Ok (VInt KInt64 n)
       /\ exportToDateTime O (VInt KInt64 n) = Ok (VStr s)
       /\ parse_rfc3339_fast s = Some {| tsec := n; tnsec := 0; toff := o_local_off O n |}
       /\ (forall O', ToTimestamp O' (VStr s) = Ok (VInt KInt64 n)
                      /\ exportToTimestamp O' (VStr s) = Ok (VInt KInt64 n)
                      /\ ToTime O' (VStr s) = Ok (VTime {| tsec := n; tnsec := 0; toff := o_local_off O n |})))
  (* date-time column -> timestamp column (and -> date-time column): exactly the instant *)
  /\ (forall y mo d hh mi ss (frac : str) zs,
     civil_ok y mo d hh mi ss -> Forall digit_char frac -> zone_ok zs ->
     let s := rfc3339_text y mo d hh mi ss frac zs in
     let instant := unix_of_civil y mo d hh mi ss - zone_off zs in
     exists t,
       importFromDateTime O (VStr s) VNil = Ok (VTime t) /\ tsec t = instant /\ toff t = zone_off zs
       /\ exportToTimestamp O (VTime t) = Ok (VInt KInt64 instant)
       /\ ToTimestamp O (VStr s) = Ok (VInt KInt64 instant)
       /\ exportToTimestamp O (VStr s) = Ok (VInt KInt64 instant)
       /\ exportToDateTime O (VTime t) = Ok (VStr (rfc3339_text y mo d hh mi ss [] (zcanon zs))))
  (* timestamp column -> timestamp column *)
  /\ (forall n, exportToTimestamp O (VInt KInt64 n) = Ok (VInt KInt64 n)).
Proof.
  intros O. split; [exact (c14_ts_to_dt O)|]. split; [exact (c14_dt_to_ts O) | exact (exportToTimestamp_int64 O)].
Qed.
Print Assumptions C14_dt_ts_instant.

(* sub-second digits are dropped, never rounded up: the seconds are those of the text, the
   nanoseconds the floor of the fraction, the rendering has no fraction, the timestamp is the
   whole second; and no rendering or timestamp depends on the nanoseconds of a time value *)
Theorem C14_subsecond_floor : forall O : oracles,
  (forall y mo d hh mi ss (frac : str) zs,
     civil_ok y mo d hh mi ss -> Forall digit_char frac -> zone_ok zs ->
     let s := rfc3339_text y mo d hh mi ss frac zs in
     let instant := unix_of_civil y mo d hh mi ss - zone_off zs in
     exists t,
       ToTime O (VStr s) = Ok (VTime t) /\ tsec t = instant
       /\ tnsec t = horner frac 0 * 10 ^ 9 / 10 ^ Z.of_nat (length frac) /\ 0 <= tnsec t < 10 ^ 9
       /\ ToString O (VTime t) = Ok (VStr (rfc3339_text y mo d hh mi ss [] (zcanon zs)))
       /\ ToTimestamp O (VTime t) = Ok (VInt KInt64 instant)
       /\ ToTimestamp O (VStr s) = Ok (VInt KInt64 instant))
  /\ (forall a ns ns' off,
     ToString O (VTime {| tsec := a; tnsec := ns; toff := off |}) = ToString O (VTime {| tsec := a; tnsec := ns'; toff := off |})
     /\ ToTimestamp O (VTime {| tsec := a; tnsec := ns; toff := off |}) = Ok (VInt KInt64 a)
     /\ exportToTimestamp O (VTime {| tsec := a; tnsec := ns; toff := off |}) = Ok (VInt KInt64 a)).
Proof. intros O. split; [exact (c14_subsecond_floor O) | exact (c14_nanos_ignored O)]. Qed.
Print Assumptions C14_subsecond_floor.

(* reading timestamp n as a date-time denotes instant n in every process zone *)
Theorem C14_zone_independent : forall (O1 O2 : oracles) n,
  zone_hyp O1 n -> zone_hyp O2 n ->
  exists s1 s2,
    exportToDateTime O1 (VInt KInt64 n) = Ok (VStr s1) /\ exportToDateTime O2 (VInt KInt64 n) = Ok (VStr s2)
    /\ option_map tsec (parse_rfc3339_fast s1) = Some n /\ option_map tsec (parse_rfc3339_fast s2) = Some n
    /\ (forall O', ToTimestamp O' (VStr s1) = Ok (VInt KInt64 n) /\ ToTimestamp O' (VStr s2) = Ok (VInt KInt64 n)).
Proof. exact c14_zone_independent. Qed.
Print Assumptions C14_zone_independent.

(* H_zone of GoHyps (the form tested by the harness on every run) gives the offset half of zone_hyp *)
Theorem C14_H_zone : forall O : oracles, H_zone O -> forall n, sec_range (n + o_local_off O n) -> zone_hyp O n.
Proof. intros O H n Hr. exact (conj (H_zone_off_ok O H n) Hr). Qed.
Print Assumptions C14_H_zone.

(* the hypotheses are satisfiable: Europe/Paris around the 2024 spring-forward gap, +05:30,
   America/St_Johns (-03:30 / -02:30), the last timestamp of the property's range *)
Example C14_nonvacuous :
  zone_hyp (ex_oracles paris_2024) 1711846799 /\ zone_hyp (ex_oracles paris_2024) 1711846800
  /\ zone_hyp (ex_oracles (fun _ => 19800)) 0 /\ zone_hyp (ex_oracles st_johns_2024) 1710048600
  /\ zone_hyp (ex_oracles (fun _ => 0)) 253402214400
  /\ civil_ok 2024 2 29 23 59 59 /\ zone_ok (ZNum true 23 59) /\ zone_off (ZNum true 3 30) = -12600.
Proof.
  destruct zone_hyp_paris as [H1 [H2 _]]. destruct zone_hyp_half_hours as [H3 [H4 [H5 _]]].
  repeat split; try assumption; try (apply H1 || apply H2 || apply H3 || apply H4 || apply H5);
    try (vm_compute; congruence).
Qed.
