(* C09 — integer casts return the exact value or an error, never a wrapped one.
   Statements over the model regenerated from pkg/cast on every run (JL.gen.CastGen); proofs in
   JL.proofs.CastInt (Flocq bridge in FloatBridge, strconv lemmas in StrconvProofs).
   [To O (sample k) v] is cast.To(k(0), v); Go's float->integer conversion outside the target
   range is the arbitrary function [o_f2i O] about which nothing is assumed, so the float
   theorems hold only because the guards exclude every such input. *)
From Coq Require Import ZArith Reals List Bool.
From JL.std Require Import GoBase GoFloat GoStrconv GoTime GoVal.
From JL.gen Require Import CastGen.
From JL.proofs Require Import CastBinary CastInt.
Import ListNotations.
Open Scope Z_scope.

(* integer sources of every kind: exact when the value fits the target, error otherwise *)
Theorem C09_int_sources : forall (O : oracles) (k k' : ikind) (z : Z),
  in_range k' z ->
  (in_range k z -> To O (sample k) (VInt k' z) = Ok (VInt k z))
  /\ (~ in_range k z -> To O (sample k) (VInt k' z) = Err (sentinel_of k)).
Proof. exact ToInt_int_src. Qed.
Print Assumptions C09_int_sources.

Theorem C09_bool_sources : forall (O : oracles) (k : ikind) (b : bool),
  To O (sample k) (VBool b) = Ok (VInt k (if b then 1 else 0)).
Proof. exact ToInt_bool_src. Qed.
Print Assumptions C09_bool_sources.

(* float sources, all 2^64 / 2^32 bit patterns: a nil error implies the float is finite (not NaN,
   not infinite), the result is its value truncated toward zero, and that value fits the target *)
Theorem C09_float64_exact : forall (O : oracles) (k : ikind) (x : Z) (r : gval),
  To O (sample k) (VF64 x) = Ok r ->
  f64_class x = FFin /\ r = VInt k (f64_trunc x) /\ in_range k (f64_trunc x).
Proof. exact ToInt_f64_sound. Qed.
Print Assumptions C09_float64_exact.

Theorem C09_float32_exact : forall (O : oracles) (k : ikind) (x : Z) (r : gval),
  To O (sample k) (VF32 x) = Ok r ->
  f32_class x = FFin /\ r = VInt k (f32_trunc x) /\ in_range k (f32_trunc x).
Proof. exact ToInt_f32_sound. Qed.
Print Assumptions C09_float32_exact.

(* every integral float value that fits the target succeeds *)
Theorem C09_float64_complete : forall (O : oracles) (k : ikind) (x z : Z),
  f64_class x = FFin -> f64_R x = IZR z -> in_range k z ->
  To O (sample k) (VF64 x) = Ok (VInt k z).
Proof. exact ToInt_f64_complete. Qed.
Print Assumptions C09_float64_complete.

Theorem C09_float32_complete : forall (O : oracles) (k : ikind) (x z : Z),
  f32_class x = FFin -> f32_R x = IZR z -> in_range k z ->
  To O (sample k) (VF32 x) = Ok (VInt k z).
Proof. exact ToInt_f32_complete. Qed.
Print Assumptions C09_float32_complete.

(* text (string and json.Number), for EVERY string: the outcome is Go's ParseInt/ParseUint of the
   text at the target's bit size; an accepted value always fits the target (never wrapped) *)
Theorem C09_text_never_wraps : forall (O : oracles) (k : ikind) (s : str),
  To O (sample k) (VStr s) = match parse_for k s with Some z => Ok (VInt k z) | None => Err (sentinel_of k) end
  /\ To O (sample k) (VNum s) = To O (sample k) (VStr s)
  /\ (forall z, parse_for k s = Some z -> in_range k z).
Proof.
  intros O k s. split; [exact (ToInt_text_src O k s)|]. split; [exact (ToInt_num_src O k s)|].
  intros z. exact (parse_for_range k s z).
Qed.
Print Assumptions C09_text_never_wraps.

(* canonical decimal text of any integer z: accepted exactly when z fits, with value z *)
Theorem C09_decimal_text : forall (O : oracles) (k : ikind) (z : Z),
  To O (sample k) (VStr (dec z)) = if in_rangeb k z then Ok (VInt k z) else Err (sentinel_of k).
Proof.
  intros O k z. rewrite (ToInt_text_src O k (dec z)), (parse_for_dec k z).
  destruct (in_rangeb k z); reflexivity.
Qed.
Print Assumptions C09_decimal_text.

(* the verdict and the result do not depend on which Go type or decimal text carried the value z *)
Theorem C09_carrier_independent : forall (O : oracles) (k k' : ikind) (z x64 x32 : Z),
  in_range k' z ->
  f64_class x64 = FFin -> f64_R x64 = IZR z ->
  f32_class x32 = FFin -> f32_R x32 = IZR z ->
  (in_range k z ->
     To O (sample k) (VInt k' z) = Ok (VInt k z) /\ To O (sample k) (VF64 x64) = Ok (VInt k z)
     /\ To O (sample k) (VF32 x32) = Ok (VInt k z) /\ To O (sample k) (VStr (dec z)) = Ok (VInt k z)
     /\ To O (sample k) (VNum (dec z)) = Ok (VInt k z))
  /\ (~ in_range k z ->
     (exists e, To O (sample k) (VInt k' z) = Err e) /\ (forall r, To O (sample k) (VF64 x64) <> Ok r)
     /\ (forall r, To O (sample k) (VF32 x32) <> Ok r) /\ (exists e, To O (sample k) (VStr (dec z)) = Err e)
     /\ (exists e, To O (sample k) (VNum (dec z)) = Err e)).
Proof.
  intros O k k' z x64 x32 Hk' Hc64 Hr64 Hc32 Hr32. split; intros Hin.
  - split; [exact (proj1 (ToInt_int_src O k k' z Hk') Hin)|].
    split; [exact (ToInt_f64_complete O k x64 z Hc64 Hr64 Hin)|].
    split; [exact (ToInt_f32_complete O k x32 z Hc32 Hr32 Hin)|].
    assert (E : To O (sample k) (VStr (dec z)) = Ok (VInt k z)).
    { rewrite (ToInt_text_src O k (dec z)), (parse_for_dec k z).
      apply in_rangeb_spec in Hin. rewrite Hin. reflexivity. }
    split; [exact E | rewrite (ToInt_num_src O k (dec z)); exact E].
  - assert (Hb : in_rangeb k z = false).
    { destruct (in_rangeb k z) eqn:E; [apply in_rangeb_spec in E; contradiction | reflexivity]. }
    split; [eexists; exact (proj2 (ToInt_int_src O k k' z Hk') Hin)|].
    split.
    { intros r Hr. destruct (ToInt_f64_sound O k x64 r Hr) as [_ [_ Hrange]].
      apply Hin. unfold f64_trunc in Hrange. unfold f64_R in Hr64.
      rewrite (FloatBridge.Btrunc_Ztrunc 53 1024 eq_refl), Hr64, Raux.Ztrunc_IZR in Hrange. exact Hrange. }
    split.
    { intros r Hr. destruct (ToInt_f32_sound O k x32 r Hr) as [_ [_ Hrange]].
      apply Hin. unfold f32_trunc in Hrange. unfold f32_R in Hr32.
      rewrite (FloatBridge.Btrunc_Ztrunc 24 128 eq_refl), Hr32, Raux.Ztrunc_IZR in Hrange. exact Hrange. }
    assert (E : To O (sample k) (VStr (dec z)) = Err (sentinel_of k)).
    { rewrite (ToInt_text_src O k (dec z)), (parse_for_dec k z), Hb. reflexivity. }
    split; [eexists; exact E | eexists; rewrite (ToInt_num_src O k (dec z)); exact E].
Qed.
Print Assumptions C09_carrier_independent.

(* non-vacuity: 2^63 as a float64 (bits 0x43E0000000000000) is finite, denotes 2^63, and is
   rejected by the int64 cast; 127.0 is accepted by the int8 cast *)
Example C09_nonvacuous : forall O,
  f64_class 4890909195324358656 = FFin
  /\ (forall r, To O (sample KInt64) (VF64 4890909195324358656) <> Ok r)
  /\ f64_class 4638637247447433216 = FFin.
Proof.
  intros O. split; [vm_compute; reflexivity|]. split; [|vm_compute; reflexivity].
  intros r Hr. destruct (ToInt_f64_sound O KInt64 _ r Hr) as [_ [_ Hrange]].
  vm_compute in Hrange. destruct Hrange as [_ H]. apply H. reflexivity.
Qed.
