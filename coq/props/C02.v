(* C02 — untemplated read-then-write is lossless and order preserving at all depths.

   Two levels:
   (a) JSON core (C02_roundtrip): reading a valid object and writing it back yields a text that
       spells the same ordered tree, and that text is a fixed point. The JSON layer keeps
       duplicate member names in order.
   (b) the row / template model (theorems C02_untemplated_...): what jsonline does with a line when no
       template is given — importer.GetRow on an empty template (CreateRowEmpty, then
       row.UnmarshalJSON: nested objects become rows of Auto values), then exporter.Export under an
       empty template (CreateRow: every key is undeclared, each cell becomes NewValueAuto(Raw());
       row.MarshalJSON; one LF) — emits exactly write_jv of the tree the line spells, plus LF.
       Uniqueness of member names at every depth ([uniq_jv]) is needed here: a duplicate name
       updates the first occurrence in a row.
   Fuel: the model's writers recurse by fuel; 4 units per nesting level suffice
   (premise 4 * jdepth (JObj m) <= n) and the out-of-fuel outcome is then unreachable.
   The template model does not represent the nesting limit of encoding/json's compact() (10000,
   modelled by GoJsonMarshal.write_row); C02_untemplated_write_row states the link under that
   limit. *)
From Coq Require Import ZArith List Bool Lia.
From JL.std Require Import GoBase GoVal GoStrconv GoJsonNum GoJson GoJsonStrict GoJsonMarshal.
From JL.model Require Import Row Template TemplateJson.
From JL.proofs Require Import JsonProofs UntemplatedBridge.
Import ListNotations.
Open Scope Z_scope.

Theorem C02_roundtrip :
  forall b m, spells b (JObj m) -> Forall (fun kv => jdepth (snd kv) <= max_nesting) m ->
    exists out, write_row (fst (parse_top b)) = Some out /\ spells out (JObj m)
                /\ parse_top out = (m, true) /\ write_row (fst (parse_top out)) = Some out.
Proof. exact roundtrip_row. Qed.
Print Assumptions C02_roundtrip.

(* json.Marshal of the value the reader builds for a tree (handledelim: rows of Auto values for
   objects, slices for arrays, json.Number, string, bool, nil) writes what write_jv writes *)
Theorem C02_marshal_rv_of_jv :
  forall (O : oracles) (jfloat : bool -> Z -> option str) (jother : Z -> option str) d n,
    uniq_jv d -> 4 * jdepth d < Z.of_nat n ->
    marshal_rv O encode_string jfloat jother n (rv_of_jv d)
    = match write_jv d with Some s => Ok s | None => Err ErrNoWrap end.
Proof. exact marshal_rv_of_jv. Qed.
Print Assumptions C02_marshal_rv_of_jv.

(* importer.GetRow with an empty template *)
Theorem C02_untemplated_get_row :
  forall (O : oracles) n line m,
    parse_top line = (m, true) -> NoDup (map fst m) ->
    jl_get_row O n new_template line
    = Ok (obj_row (map (fun kv => (fst kv, rv_of_jv (snd kv))) m)).
Proof. exact untemplated_get_row. Qed.
Print Assumptions C02_untemplated_get_row.

(* exporter.Export with an empty template, on the row GetRow built *)
Theorem C02_untemplated_export :
  forall (O : oracles) (jfloat : bool -> Z -> option str) (jother : Z -> option str) n m,
    uniq_jv (JObj m) -> 4 * jdepth (JObj m) <= Z.of_nat n ->
    jl_export_bytes O jfloat jother n new_template
      (RV (CRow (obj_row (map (fun kv => (fst kv, rv_of_jv (snd kv))) m))))
    = match write_jv (JObj m) with Some s => Ok (s ++ [10]) | None => Err ErrNoWrap end.
Proof. exact untemplated_export. Qed.
Print Assumptions C02_untemplated_export.

(* THE THEOREM: for every line b that spells an object whose objects have unique member names,
   the untemplated pipeline hands the writer out ++ LF where out = write_jv of the tree; out
   spells the same tree (same members, same order at every depth, strings / booleans / nulls
   equal, number literals verbatim), contains no LF, and is a fixed point of the pipeline *)
Theorem C02_untemplated_pipeline :
  forall (O : oracles) (jfloat : bool -> Z -> option str) (jother : Z -> option str) n b m,
    spells b (JObj m) -> uniq_jv (JObj m) -> 4 * jdepth (JObj m) <= Z.of_nat n ->
    exists out,
      write_jv (JObj m) = Some out
      /\ jl_pipeline O jfloat jother n new_template new_template b = Ok (out ++ [10])
      /\ spells out (JObj m)
      /\ ~ In 10 out
      /\ jl_pipeline O jfloat jother n new_template new_template out = Ok (out ++ [10]).
Proof. exact untemplated_pipeline. Qed.
Print Assumptions C02_untemplated_pipeline.

(* the same for any line the reader accepts (U+FFFD repairs included): the pipeline writes the
   tree the reader found, or fails exactly where write_jv fails *)
Theorem C02_untemplated_pipeline_parsed :
  forall (O : oracles) (jfloat : bool -> Z -> option str) (jother : Z -> option str) n line m,
    parse_top line = (m, true) -> uniq_jv (JObj m) -> 4 * jdepth (JObj m) <= Z.of_nat n ->
    jl_pipeline O jfloat jother n new_template new_template line
    = match write_jv (JObj m) with Some s => Ok (s ++ [10]) | None => Err ErrNoWrap end.
Proof. exact untemplated_pipeline_parsed. Qed.
Print Assumptions C02_untemplated_pipeline_parsed.

(* link with (a): under compact()'s nesting limit the pipeline emits write_row of what was read *)
Theorem C02_untemplated_write_row :
  forall (O : oracles) (jfloat : bool -> Z -> option str) (jother : Z -> option str) n b m,
    spells b (JObj m) -> uniq_jv (JObj m) -> 4 * jdepth (JObj m) <= Z.of_nat n ->
    Forall (fun kv => jdepth (snd kv) <= max_nesting) m ->
    exists out,
      write_row (fst (parse_top b)) = Some out
      /\ jl_pipeline O jfloat jother n new_template new_template b = Ok (out ++ [10]).
Proof. exact untemplated_pipeline_write_row. Qed.
Print Assumptions C02_untemplated_write_row.

(* the hypotheses are satisfiable by a nested document, and the model computes the claimed line:
     {"a" : {"b":[1E+2, {"c":null, "d":[]}], "e":"x"},<TAB>"f":true, "g":-0.10}
   -> {"a":{"b":[1E+2,{"c":null,"d":[]}],"e":"x"},"f":true,"g":-0.10} LF *)
Example C02_untemplated_example :
  let b := [123;34;97;34;32;58;32;123;34;98;34;58;91;49;69;43;50;44;32;123;34;99;34;58;110;117;108;108;44;32;34;100;34;58;91;93;125;93;44;32;34;101;34;58;34;120;34;125;44;9;34;102;34;58;116;114;117;101;44;32;34;103;34;58;45;48;46;49;48;125] in
  let m := [([97], JObj [([98], JArr [JNum [49;69;43;50]; JObj [([99], JNull); ([100], JArr [])]]);
                         ([101], JStr [120])]);
            ([102], JBool true);
            ([103], JNum [45;48;46;49;48])] in
  let out := [123;34;97;34;58;123;34;98;34;58;91;49;69;43;50;44;123;34;99;34;58;110;117;108;108;44;34;100;34;58;91;93;125;93;44;34;101;34;58;34;120;34;125;44;34;102;34;58;116;114;117;101;44;34;103;34;58;45;48;46;49;48;125] in
  spells b (JObj m) /\ uniq_jv (JObj m) /\ 4 * jdepth (JObj m) <= Z.of_nat 20
  /\ write_jv (JObj m) = Some out
  /\ forall O jfloat jother,
       jl_pipeline O jfloat jother 20 new_template new_template b = Ok (out ++ [10])
       /\ jl_pipeline O jfloat jother 20 new_template new_template out = Ok (out ++ [10]).
Proof.
  cbv zeta. split; [apply parse_sound_strict; vm_compute; reflexivity|].
  split; [apply uniq_jvb_sound; vm_compute; reflexivity|].
  split; [vm_compute; discriminate|].
  split; [vm_compute; reflexivity|].
  intros O jfloat jother. split; vm_compute; reflexivity.
Qed.

(* without unique names the row-level statement is false: {"a":1,"a":2} comes out as {"a":2} *)
Example C02_duplicate_names_collapse :
  forall O jfloat jother,
    jl_pipeline O jfloat jother 20 new_template new_template
      [123;34;97;34;58;49;44;34;97;34;58;50;125]
    = Ok [123;34;97;34;58;50;125;10].
Proof. intros O jfloat jother. vm_compute. reflexivity. Qed.
