(* C02 (JSON core) — reading a valid object and writing it back yields a text that spells the
   same ordered tree, and that text is a fixed point. Uniqueness of member names is needed only
   by the row model (a duplicate name updates the first occurrence); the JSON layer keeps
   duplicates in order. *)
From Coq Require Import ZArith List Bool Lia.
From JL.std Require Import GoBase GoStrconv GoJsonNum GoJson GoJsonStrict GoJsonMarshal.
From JL.proofs Require Import JsonProofs.
Import ListNotations.
Open Scope Z_scope.

Theorem C02_roundtrip :
  forall b m, spells b (JObj m) -> Forall (fun kv => jdepth (snd kv) <= max_nesting) m ->
    exists out, write_row (fst (parse_top b)) = Some out /\ spells out (JObj m)
                /\ parse_top out = (m, true) /\ write_row (fst (parse_top out)) = Some out.
Proof. exact roundtrip_row. Qed.
Print Assumptions C02_roundtrip.
