(* C05 — emitted lines are fixed points of their output template.
   C05_column is the generic one-column theorem (same four facts as C13_column): the line written
   for a value, sent through importer and exporter of the column's own template, comes out byte
   for byte, newline included. Instances: the ten integer types under numeric, string, auto;
   bool under boolean. PARTIAL: multi-column rows, sub-rows, hidden columns, undeclared keys, the
   other lossless pairings and the five process time zones are decided by the fixed-point
   oracle of the template stream on the real package (every emitted line whose output template
   is lossless is re-read and re-emitted under the run's TZ); known finding F7 (year outside
   0..9999) is reported there. *)
From Coq Require Import ZArith List Bool.
From JL.std Require Import GoBase GoVal GoJson.
From JL.gen Require Import CastGen ConvGen.
From JL.model Require Import Row RowRun Template TemplateJson.
From JL.proofs Require Import CastBinary JsonWrite JsonNumber CastText TemplateLossless.
Import ListNotations.
Open Scope Z_scope.

Theorem C05_column : forall (O : oracles) jfloat jother n c f T v e leaf txt,
  ustr c -> v <> VNil -> format_eqb f FHidden = false ->
  To O T v = Ok v ->
  export_scalar O f (RS v) = Ok (RS e) ->
  marshal_gval encode_string jfloat jother e = Ok txt ->
  write_jv leaf = Some txt -> jv_wf leaf ->
  rv_is_nil (rv_of_jv leaf) = false ->
  import_scalar O f T (rv_of_jv leaf) = Ok (RS v) ->
  exists line,
    bind (create_row O parse_top_rv (S (S (S n))) (tpl1 c f T) (RMap [(c, RS v)]))
         (marshal_row O encode_string jfloat jother (S (S (S n)))) = Ok line
    /\ pipeline O encode_string parse_top_rv jfloat jother (S (S (S n))) (tpl1 c f T) (tpl1 c f T) line = Ok (line ++ [10]).
Proof. exact fixed_point_column. Qed.
Print Assumptions C05_column.

Theorem C05_proved_pairings : forall (O : oracles) jfloat jother n c f T v e leaf txt,
  ustr c -> proved_pairing f T v e leaf txt ->
  exists line,
    bind (create_row O parse_top_rv (S (S (S n))) (tpl1 c f T) (RMap [(c, RS v)]))
         (marshal_row O encode_string jfloat jother (S (S (S n)))) = Ok line
    /\ pipeline O encode_string parse_top_rv jfloat jother (S (S (S n))) (tpl1 c f T) (tpl1 c f T) line = Ok (line ++ [10]).
Proof. exact fixed_point_proved. Qed.
Print Assumptions C05_proved_pairings.

Example C05_example : forall O jf jo,
  pipeline O encode_string parse_top_rv jf jo 4 (tpl1 [99] FNumeric (VInt KInt16 0)) (tpl1 [99] FNumeric (VInt KInt16 0))
    [123; 34; 99; 34; 58; 45; 51; 50; 55; 54; 56; 125]
  = Ok [123; 34; 99; 34; 58; 45; 51; 50; 55; 54; 56; 125; 10].
Proof. intros. vm_compute. reflexivity. Qed.
