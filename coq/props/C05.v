(* C05 — emitted lines are fixed points of their output template.
   C05_column is the generic one-column theorem (same four facts as C13_column): the line written
   for a value, sent through importer and exporter of the column's own template, comes out byte
   for byte, newline included (C05_column_upto: the value read back may differ from the value written
   provided it exports to the same thing). Instances: every one of the 86 typed pairings of the
   lossless table, on the domains and under the hypotheses listed in the header of props/C13.v
   (constructors of proved_pairing / proved_pairing_upto in proofs/TemplateLossless.v): the ten integer
   kinds under string, numeric, auto, binary, timestamp (values that fit int64); bool under boolean,
   string, auto, binary, and under numeric / timestamp with H_parse_bool_digits; float64 / float32 under
   binary (every bit pattern), under numeric / string for finite values with H_float_rt, H_float_syn
   (H_f32_embed), under auto with the premises on json.Marshal's text (H_jfloat_rt); string, json.Number,
   []byte; time.Time under datetime, string, numeric, timestamp, binary (any nanoseconds: the re-read value
   is the same second and re-exports to the same text) and under auto (nanoseconds kept).
   Whole rows — any number of declared columns, nil columns, hidden columns, undeclared keys — are
   C05_row_upto / C05_row_proved_pairings at the end of this file (proofs/TemplateLosslessRow.v).
   PARTIAL: sub-rows, the "none" column, NaN / Inf
   under string and the five process time zones are decided by the
   fixed-point oracle of the template stream on the real package (every emitted line whose output
   template is lossless is re-read and re-emitted under the run's TZ); known finding F7 (year outside
   0..9999) is reported there. *)
From Coq Require Import ZArith List Bool.
From JL.std Require Import GoBase GoVal GoJson.
From JL.gen Require Import CastGen ConvGen.
From JL.model Require Import Row RowRun Template TemplateJson.
From JL.proofs Require Import CastBinary JsonWrite JsonNumber CastText TemplateLossless.
Import ListNotations.
Open Scope Z_scope.

Theorem C05_column : forall (O : oracles) jfloat jother n c f T v e leaf txt,
  ustr c -> v <> VNil -> format_eqb f FHidden = false ->
  To O T v = Ok v ->
  export_scalar O f (RS v) = Ok (RS e) ->
  marshal_gval encode_string jfloat jother e = Ok txt ->
  write_jv leaf = Some txt -> jv_wf leaf ->
  rv_is_nil (rv_of_jv leaf) = false ->
  import_scalar O f T (rv_of_jv leaf) = Ok (RS v) ->
  exists line,
    bind (create_row O parse_top_rv (S (S (S n))) (tpl1 c f T) (RMap [(c, RS v)]))
         (marshal_row O encode_string jfloat jother (S (S (S n)))) = Ok line
    /\ pipeline O encode_string parse_top_rv jfloat jother (S (S (S n))) (tpl1 c f T) (tpl1 c f T) line = Ok (line ++ [10]).
Proof. exact fixed_point_column. Qed.
Print Assumptions C05_column.

Theorem C05_proved_pairings : forall (O : oracles) jfloat jother n c f T v e leaf txt,
  ustr c -> proved_pairing O jfloat f T v e leaf txt ->
  exists line,
    bind (create_row O parse_top_rv (S (S (S n))) (tpl1 c f T) (RMap [(c, RS v)]))
         (marshal_row O encode_string jfloat jother (S (S (S n)))) = Ok line
    /\ pipeline O encode_string parse_top_rv jfloat jother (S (S (S n))) (tpl1 c f T) (tpl1 c f T) line = Ok (line ++ [10]).
Proof. exact fixed_point_proved. Qed.
Print Assumptions C05_proved_pairings.

Theorem C05_column_upto : forall (O : oracles) jfloat jother n c f T v v' e leaf txt,
  ustr c -> v <> VNil -> v' <> VNil -> format_eqb f FHidden = false ->
  To O T v = Ok v -> To O T v' = Ok v' ->
  export_scalar O f (RS v) = Ok (RS e) -> export_scalar O f (RS v') = Ok (RS e) ->
  marshal_gval encode_string jfloat jother e = Ok txt ->
  write_jv leaf = Some txt -> jv_wf leaf ->
  rv_is_nil (rv_of_jv leaf) = false ->
  import_scalar O f T (rv_of_jv leaf) = Ok (RS v') ->
  exists line,
    bind (create_row O parse_top_rv (S (S (S n))) (tpl1 c f T) (RMap [(c, RS v)]))
         (marshal_row O encode_string jfloat jother (S (S (S n)))) = Ok line
    /\ pipeline O encode_string parse_top_rv jfloat jother (S (S (S n))) (tpl1 c f T) (tpl1 c f T) line = Ok (line ++ [10]).
Proof. exact fixed_point_column_upto. Qed.
Print Assumptions C05_column_upto.

Theorem C05_proved_pairings_upto : forall (O : oracles) jfloat jother n c f T v v' e leaf txt,
  ustr c -> proved_pairing_upto O jfloat f T v v' e leaf txt ->
  exists line,
    bind (create_row O parse_top_rv (S (S (S n))) (tpl1 c f T) (RMap [(c, RS v)]))
         (marshal_row O encode_string jfloat jother (S (S (S n)))) = Ok line
    /\ pipeline O encode_string parse_top_rv jfloat jother (S (S (S n))) (tpl1 c f T) (tpl1 c f T) line = Ok (line ++ [10]).
Proof. exact fixed_point_proved_upto. Qed.
Print Assumptions C05_proved_pairings_upto.

Example C05_example : forall O jf jo,
  pipeline O encode_string parse_top_rv jf jo 4 (tpl1 [99] FNumeric (VInt KInt16 0)) (tpl1 [99] FNumeric (VInt KInt16 0))
    [123; 34; 99; 34; 58; 45; 51; 50; 55; 54; 56; 125]
  = Ok [123; 34; 99; 34; 58; 45; 51; 50; 55; 54; 56; 125; 10].
Proof. intros. vm_compute. reflexivity. Qed.

(* ---------------------------------------------------------------------------------------------
   WHOLE ROWS (proofs/TemplateLosslessRow.v; the vocabulary — spec, slot, row_map, row_members, extras —
   is described in props/C13.v). The line written for a row with any number of declared columns (typed
   values of lossless pairings, nil columns written null, hidden columns not written) followed by
   undeclared keys, sent through importer and exporter of the same template, comes out byte for byte,
   newline included. slot_ok_fp = slot_ok and, for a nil or hidden column, cast.To(T, nil) = nil: the
   exporter re-creates the row it was given and casts the nil such a column came back with (true of
   every raw type cast.To knows; with an unknown dynamic type as raw type the real exporter refuses
   {"c":null}: Example nil_unknown_rawtype_refused in the proofs file).
   Sub-rows (WithRow) are not covered (finding F6). *)
From Coq Require Import Permutation.
From JL.proofs Require Import UntemplatedBridge TemplateLosslessRow.

Theorem C05_row_upto : forall (O : oracles) jfloat jother n (spec : list (cdecl * slot)) (extras : list (str * jv)),
  NoDup (map sname spec) -> Forall (slot_ok_fp O jfloat jother) spec -> extras_ok n (map sname spec) extras ->
  exists line,
    let t := tpl_of (map fst spec) in
    write_jv (JObj (row_members spec ++ extras)) = Some line
    /\ bind (create_row O parse_top_rv (S (S (S n))) t (RMap (row_map spec ++ rv_members extras)))
            (marshal_row O encode_string jfloat jother (S (S (S n)))) = Ok line
    /\ pipeline O encode_string parse_top_rv jfloat jother (S (S (S n))) t t line = Ok (line ++ [10]).
Proof. exact fixed_point_row_upto. Qed.
Print Assumptions C05_row_upto.

Theorem C05_row_upto_any_order : forall (O : oracles) jfloat jother n (spec : list (cdecl * slot)) (extras : list (str * jv)) kvs,
  NoDup (map sname spec) -> Forall (slot_ok_fp O jfloat jother) spec -> extras_ok n (map sname spec) extras ->
  Permutation kvs (row_map spec) ->
  exists line,
    let t := tpl_of (map fst spec) in
    write_jv (JObj (row_members spec ++ extras)) = Some line
    /\ bind (create_row O parse_top_rv (S (S (S n))) t (RMap (kvs ++ rv_members extras)))
            (marshal_row O encode_string jfloat jother (S (S (S n)))) = Ok line
    /\ pipeline O encode_string parse_top_rv jfloat jother (S (S (S n))) t t line = Ok (line ++ [10]).
Proof. exact fixed_point_row_upto_any_order. Qed.
Print Assumptions C05_row_upto_any_order.

Theorem C05_row_proved_pairings : forall (O : oracles) jfloat jother n (spec : list (cdecl * slot)) (extras : list (str * jv)),
  NoDup (map sname spec) -> Forall (slot_proved O jfloat) spec -> extras_ok n (map sname spec) extras ->
  exists line,
    let t := tpl_of (map fst spec) in
    write_jv (JObj (row_members spec ++ extras)) = Some line
    /\ bind (create_row O parse_top_rv (S (S (S n))) t (RMap (row_map spec ++ rv_members extras)))
            (marshal_row O encode_string jfloat jother (S (S (S n)))) = Ok line
    /\ pipeline O encode_string parse_top_rv jfloat jother (S (S (S n))) t t line = Ok (line ++ [10]).
Proof. exact fixed_point_row_proved_upto. Qed.
Print Assumptions C05_row_proved_pairings.

(* non-vacuity: the row of C13_row_example (eight declared columns — numeric int64, hidden, string with
   non-ASCII text, nil, boolean, binary []byte, nil, datetime time.Time with nanoseconds — and two undeclared
   keys) meets every premise, and its line ex_line is a fixed point *)
Example C05_row_example : forall O jf jo,
  NoDup (map sname ex_spec) /\ Forall (slot_proved O jf) ex_spec /\ extras_ok 5 (map sname ex_spec) ex_extras
  /\ bind (create_row O parse_top_rv 8 (tpl_of (map fst ex_spec)) (RMap (row_map ex_spec ++ rv_members ex_extras)))
          (marshal_row O encode_string jf jo 8) = Ok ex_line
  /\ pipeline O encode_string parse_top_rv jf jo 8 (tpl_of (map fst ex_spec)) (tpl_of (map fst ex_spec)) ex_line
     = Ok (ex_line ++ [10]).
Proof.
  intros. destruct (ex_row_ok O jf) as (Hnd & Hp & Hex).
  destruct (C05_row_proved_pairings O jf jo 5 ex_spec ex_extras Hnd Hp Hex) as (line & _ & Hc & Hg).
  cbv zeta in *. rewrite (ex_row_line O jf jo) in Hc. injection Hc as <-. auto.
Qed.

(* the same by evaluation of the model *)
Example C05_row_example_computed : forall O jf jo,
  pipeline O encode_string parse_top_rv jf jo 8 (tpl_of (map fst ex_spec)) (tpl_of (map fst ex_spec)) ex_line
  = Ok (ex_line ++ [10]).
Proof. intros. vm_compute. reflexivity. Qed.
