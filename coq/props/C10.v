(* C10 — casts are total and return exactly the requested type.
   Statements over the model regenerated from pkg/cast on every run; proofs in
   JL.proofs.CastTotal. [good want v r] (defined there) says: r is not a panic and not fuel
   exhaustion; if r = Ok x then x is nil exactly when v is nil and otherwise of kind [want];
   if r = Err e then e wraps the root sentinel according to the table read from errors.go. *)
From Coq Require Import ZArith List Bool.
From JL.std Require Import GoBase GoFloat GoStrconv GoTime GoVal.
From JL.gen Require Import CastGen.
From JL.proofs Require Import CastTotal.
Import ListNotations.
Open Scope Z_scope.

(* cast.To(sample, v) for every sample and every dynamic value v: VOther stands for every
   dynamic type outside the nineteen supported ones at once, VByteArr for [N]byte, any N *)
Theorem C10_total_typed : forall (O : oracles) (tgt v : gval),
  good (result_kind tgt) v (To O tgt v).
Proof. exact To_good. Qed.
Print Assumptions C10_total_typed.

(* spelled out *)
Theorem C10_total_typed_explicit : forall (O : oracles) (tgt v : gval),
  match To O tgt v with
  | Ok r => (r = VNil <-> v = VNil)
            /\ (r <> VNil -> match tgt with VNil => True | _ => kind_of r = kind_of tgt end)
  | Err e => cast_sentinel_wraps_root e = true
  | Panic => False
  | Fuel => False
  end.
Proof.
  intros O tgt v. pose proof (To_good O tgt v) as H. unfold good, result_kind in H.
  destruct (To O tgt v); try exact H. destruct tgt; exact H.
Qed.
Print Assumptions C10_total_typed_explicit.

(* a sample of any other dynamic type is refused with the root sentinel *)
Theorem C10_unknown_target : forall (O : oracles) (v : gval),
  (forall tag, To O (VOther tag) v = Err ErrUnableToCast)
  /\ (forall s, To O (VByteArr s) v = Err ErrUnableToCast)
  /\ cast_sentinel_wraps_root ErrUnableToCast = true.
Proof. intros O v. split; [|split]; reflexivity. Qed.
Print Assumptions C10_unknown_target.

(* the three conversions that are not reachable through cast.To *)
Theorem C10_date : forall (O : oracles) (v : gval), good (Some KStr) v (ToDate O v).
Proof. exact ToDate_good. Qed.
Print Assumptions C10_date.

Theorem C10_timestamp : forall (O : oracles) (v : gval), good (Some (KI KInt64)) v (ToTimestamp O v).
Proof. exact ToTimestamp_good. Qed.
Print Assumptions C10_timestamp.

Theorem C10_number : forall (O : oracles) (v : gval), good (Some KNum) v (ToNumber O v).
Proof. exact ToNumber_good. Qed.
Print Assumptions C10_number.

(* non-vacuity: both outcomes occur *)
Example C10_nonvacuous : forall O,
  To O (VInt KInt8 0) (VInt KInt 5) = Ok (VInt KInt8 5)
  /\ To O (VInt KInt8 0) (VInt KInt 500) = Err ErrUnableToCastToInt8
  /\ To O (VInt KInt8 0) (VOther 3) = Err ErrUnableToCastToInt8.
Proof. intros O. repeat split. Qed.
