(* C13 — typed columns survive write-then-read through JSON with value and type intact.
   Route: Template.CreateRow(map{c: v}) -> row.MarshalJSON -> CreateRowEmpty -> UnmarshalJSON of the
   written line (importer.GetRow), over the composed model (regenerated casts and conversions,
   hand model of rows / templates / writer, text layer of JL.std.GoJson with its proved round trip).
   [tpl1 c f T]: the template with the single column c of format f and raw type T.
   C13_column is the GENERIC theorem: it reduces the round trip of a column to four facts about
   its conversions (C13_column_upto: the same with the value read back, v', left free).
   The instances (proofs/TemplateLossless.v: one lemma ok_<format>_<type> and one constructor of
   [proved_pairing] / [proved_pairing_upto] per pairing) discharge them for EVERY ONE of the 86 typed
   pairings of the lossless table (DESIGN.md section 8), on the domains and under the hypotheses below.
   "ints" = the ten integer kinds (byte = uint8, rune = int32: 12 names in the table), any value in range.
     string   (18)  ints; bool; string (valid UTF-8); json.Number (valid UTF-8); float64 / float32 FINITE,
                    under H_float_rt, H_float_syn (+ H_f32_embed for float32) of GoHyps.v;
                    time.Time (years 0..9999, whole-minute offset): exactly for a whole second, otherwise
                    read back at one second with the same offset (C13_proved_pairings_upto).
                    NOT proved: NaN / +Inf / -Inf under string (they need ParseFloat on "NaN", "+Inf").
     numeric  (17)  ints; json.Number (a JSON number literal, kept character for character);
                    float64 / float32 finite, same hypotheses; bool under H_parse_bool_digits (GoHypsJson.v:
                    ParseFloat reads "0" / "1" as 0.0 / 1.0 — ToBool goes through ToFloat64);
                    time.Time with tsec in int64: read back as the same instant, zero nanoseconds, in the
                    reader's zone (upto).
     boolean   (1)  bool.
     binary   (19)  ints; bool; float64 / float32 (every bit pattern); string, json.Number, non-nil []byte
                    (any bytes) — by base64_decode_encode (proofs/Base64Proofs.v, no axioms);
                    time.Time with |tsec| < 2^55 (upto: same instant, reader's zone), under the premise that
                    Go's lenient layout parser (oracle o_time_parse_slow) rejects the 8 payload bytes.
     datetime  (1)  time.Time (as under string).
     timestamp (12) the eight integer kinds that fit int64 (stated for all ten with the premise
                    in_range KInt64 z, so uint / uint64 values up to MaxInt64 are covered too); bool under
                    H_parse_bool_digits; time.Time (upto, as under numeric).
     auto     (18)  ints; bool; string (valid UTF-8); json.Number (a JSON number literal); time.Time with its
                    nanoseconds, 0 <= tnsec < 10^9 (Time.MarshalJSON writes them without trailing zeros, the
                    strict RFC 3339 parser reads every digit back: pp_auto_time, pp_auto_time_nanos);
                    float64 / float32: for a value x whose json.Marshal text t (oracle jfloat) is a JSON
                    number that ParseFloat reads back as x (premises of pp_auto_f64 / pp_auto_f32; the named
                    hypothesis H_jfloat_rt of GoHypsJson.v gives them for every finite float:
                    auto_f64_pairing, auto_f32_pairing in TemplateLossless.v).
   Hypotheses are premises of constructors, never axioms. The "none" column of the table (8 cells) is not
   instantiated. All 86 typed pairings (and the none column) are also decided on the real package by the
   typed round-trip oracle of the template stream (boundary and random values, both routes). *)
From Coq Require Import ZArith List Bool.
From JL.std Require Import GoBase GoTime GoVal GoJson.
From JL.gen Require Import CastGen ConvGen.
From JL.model Require Import Row RowRun Template TemplateJson.
From JL.proofs Require Import CastBinary JsonWrite TemplateLossless.
Import ListNotations.
Open Scope Z_scope.

Theorem C13_column : forall (O : oracles) jfloat jother n c f T v e leaf txt,
  ustr c -> v <> VNil -> format_eqb f FHidden = false ->
  To O T v = Ok v ->
  export_scalar O f (RS v) = Ok (RS e) ->
  marshal_gval encode_string jfloat jother e = Ok txt ->
  write_jv leaf = Some txt -> jv_wf leaf ->
  rv_is_nil (rv_of_jv leaf) = false ->
  import_scalar O f T (rv_of_jv leaf) = Ok (RS v) ->
  exists line,
    bind (create_row O parse_top_rv (S (S (S n))) (tpl1 c f T) (RMap [(c, RS v)]))
         (marshal_row O encode_string jfloat jother (S (S (S n)))) = Ok line
    /\ get_row O parse_top_rv (S (S (S n))) (tpl1 c f T) line = Ok (MkRow [(c, CVal (RS v) f T)] [c]).
Proof. exact lossless_column. Qed.
Print Assumptions C13_column.

(* the value read back may differ from the value written: v' is what the column holds after the read *)
Theorem C13_column_upto : forall (O : oracles) jfloat jother n c f T v v' e leaf txt,
  ustr c -> v <> VNil -> format_eqb f FHidden = false ->
  To O T v = Ok v ->
  export_scalar O f (RS v) = Ok (RS e) ->
  marshal_gval encode_string jfloat jother e = Ok txt ->
  write_jv leaf = Some txt -> jv_wf leaf ->
  rv_is_nil (rv_of_jv leaf) = false ->
  import_scalar O f T (rv_of_jv leaf) = Ok (RS v') ->
  exists line,
    bind (create_row O parse_top_rv (S (S (S n))) (tpl1 c f T) (RMap [(c, RS v)]))
         (marshal_row O encode_string jfloat jother (S (S (S n)))) = Ok line
    /\ get_row O parse_top_rv (S (S (S n))) (tpl1 c f T) line = Ok (MkRow [(c, CVal (RS v') f T)] [c]).
Proof. exact lossless_column_upto. Qed.
Print Assumptions C13_column_upto.

(* the pairings proved (see the header; the constructors of proved_pairing in
   proofs/TemplateLossless.v carry the domain and the hypotheses of each) — with the exported value,
   the JSON value and its text as witnesses *)
Theorem C13_proved_pairings : forall (O : oracles) jfloat jother n c f T v e leaf txt,
  ustr c -> proved_pairing O jfloat f T v e leaf txt ->
  exists line,
    bind (create_row O parse_top_rv (S (S (S n))) (tpl1 c f T) (RMap [(c, RS v)]))
         (marshal_row O encode_string jfloat jother (S (S (S n)))) = Ok line
    /\ get_row O parse_top_rv (S (S (S n))) (tpl1 c f T) line = Ok (MkRow [(c, CVal (RS v) f T)] [c]).
Proof. exact lossless_proved. Qed.
Print Assumptions C13_proved_pairings.

(* time.Time with any nanoseconds (and every pairing above, with v' = v): the value read back is the
   same instant at one-second resolution — [same_second]: v' = v, or both are times with the same
   tsec, tnsec = 0, and the same offset under datetime / string *)
Theorem C13_proved_pairings_upto : forall (O : oracles) jfloat jother n c f T v v' e leaf txt,
  ustr c -> proved_pairing_upto O jfloat f T v v' e leaf txt ->
  same_second f v v'
  /\ exists line,
    bind (create_row O parse_top_rv (S (S (S n))) (tpl1 c f T) (RMap [(c, RS v)]))
         (marshal_row O encode_string jfloat jother (S (S (S n)))) = Ok line
    /\ get_row O parse_top_rv (S (S (S n))) (tpl1 c f T) line = Ok (MkRow [(c, CVal (RS v') f T)] [c]).
Proof. exact lossless_proved_upto_same_second. Qed.
Print Assumptions C13_proved_pairings_upto.

(* non-vacuity: int16 -32768 under numeric(int16) is written {"c":-32768} and read back *)
Example C13_example : forall O jf jo,
  bind (create_row O parse_top_rv 4 (tpl1 [99] FNumeric (VInt KInt16 0)) (RMap [([99], RS (VInt KInt16 (-32768)))]))
       (marshal_row O encode_string jf jo 4) = Ok [123; 34; 99; 34; 58; 45; 51; 50; 55; 54; 56; 125].
Proof. intros. vm_compute. reflexivity. Qed.

(* int16 -2 under binary(int16): the two little-endian bytes FE FF are written as base64 "/v8=" *)
Example C13_example_binary : forall O jf jo,
  bind (create_row O parse_top_rv 4 (tpl1 [99] FBinary (VInt KInt16 0)) (RMap [([99], RS (VInt KInt16 (-2)))]))
       (marshal_row O encode_string jf jo 4) = Ok [123; 34; 99; 34; 58; 34; 47; 118; 56; 61; 34; 125].
Proof. intros. vm_compute. reflexivity. Qed.

(* the premises of the time pairings are satisfiable: 2023-11-14T23:13:20.000000005+01:00 under datetime
   is read back as the same second with the same offset *)
Example C13_example_time : forall O jf t0,
  exists e leaf txt,
    proved_pairing_upto O jf FDateTime (VTime t0) (VTime {| tsec := 1700000000; tnsec := 5; toff := 3600 |})
                        (VTime {| tsec := 1700000000; tnsec := 0; toff := 3600 |}) e leaf txt.
Proof.
  intros. do 3 eexists.
  apply (ppu_datetime_time O jf t0 {| tsec := 1700000000; tnsec := 5; toff := 3600 |}); vm_compute; repeat split; congruence.
Qed.

