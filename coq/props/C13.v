(* C13 — typed columns survive write-then-read through JSON with value and type intact.
   Route: Template.CreateRow(map{c: v}) -> row.MarshalJSON -> CreateRowEmpty -> UnmarshalJSON of the
   written line (importer.GetRow), over the composed model (regenerated casts and conversions,
   hand model of rows / templates / writer, text layer of JL.std.GoJson with its proved round trip).
   [tpl1 c f T]: the template with the single column c of format f and raw type T.
   C13_column is the GENERIC theorem: it reduces the round trip of a column to four facts about
   its conversions. The instances below discharge them for: the ten integer types under numeric,
   string and auto (30 pairings), bool under boolean. PARTIAL: the remaining pairings of the
   lossless table (floats — which need the strconv hypotheses of C12 —, binary, timestamp,
   date-time, json.Number, string) are decided by the typed round-trip oracle of the template
   stream on the real package (all 86 typed pairings, boundary and random values, both routes)
   and by the cast-level theorems C11 / C12 / C14 they would be instantiated from. *)
From Coq Require Import ZArith List Bool.
From JL.std Require Import GoBase GoVal GoJson.
From JL.gen Require Import CastGen ConvGen.
From JL.model Require Import Row RowRun Template TemplateJson.
From JL.proofs Require Import CastBinary JsonWrite TemplateLossless.
Import ListNotations.
Open Scope Z_scope.

Theorem C13_column : forall (O : oracles) jfloat jother n c f T v e leaf txt,
  ustr c -> v <> VNil -> format_eqb f FHidden = false ->
  To O T v = Ok v ->
  export_scalar O f (RS v) = Ok (RS e) ->
  marshal_gval encode_string jfloat jother e = Ok txt ->
  write_jv leaf = Some txt -> jv_wf leaf ->
  rv_is_nil (rv_of_jv leaf) = false ->
  import_scalar O f T (rv_of_jv leaf) = Ok (RS v) ->
  exists line,
    bind (create_row O parse_top_rv (S (S (S n))) (tpl1 c f T) (RMap [(c, RS v)]))
         (marshal_row O encode_string jfloat jother (S (S (S n)))) = Ok line
    /\ get_row O parse_top_rv (S (S (S n))) (tpl1 c f T) line = Ok (MkRow [(c, CVal (RS v) f T)] [c]).
Proof. exact lossless_column. Qed.
Print Assumptions C13_column.

(* the pairings proved: the ten integer types (any k, any value in range) under numeric, string and
   auto; bool under boolean — with the exported value, the JSON value and its text as witnesses *)
Theorem C13_proved_pairings : forall (O : oracles) jfloat jother n c f T v e leaf txt,
  ustr c -> proved_pairing f T v e leaf txt ->
  exists line,
    bind (create_row O parse_top_rv (S (S (S n))) (tpl1 c f T) (RMap [(c, RS v)]))
         (marshal_row O encode_string jfloat jother (S (S (S n)))) = Ok line
    /\ get_row O parse_top_rv (S (S (S n))) (tpl1 c f T) line = Ok (MkRow [(c, CVal (RS v) f T)] [c]).
Proof. exact lossless_proved. Qed.
Print Assumptions C13_proved_pairings.

(* non-vacuity: int16 -32768 under numeric(int16) is written {"c":-32768} and read back *)
Example C13_example : forall O jf jo,
  bind (create_row O parse_top_rv 4 (tpl1 [99] FNumeric (VInt KInt16 0)) (RMap [([99], RS (VInt KInt16 (-32768)))]))
       (marshal_row O encode_string jf jo 4) = Ok [123; 34; 99; 34; 58; 45; 51; 50; 55; 54; 56; 125].
Proof. intros. vm_compute. reflexivity. Qed.
