(* C13 — typed columns survive write-then-read through JSON with value and type intact.
   Route: Template.CreateRow(map{c: v}) -> row.MarshalJSON -> CreateRowEmpty -> UnmarshalJSON of the
   written line (importer.GetRow), over the composed model (regenerated casts and conversions,
   hand model of rows / templates / writer, text layer of JL.std.GoJson with its proved round trip).
   [tpl1 c f T]: the template with the single column c of format f and raw type T.
   C13_column is the GENERIC theorem: it reduces the round trip of a column to four facts about
   its conversions (C13_column_upto: the same with the value read back, v', left free).
   The instances (proofs/TemplateLossless.v: one lemma ok_<format>_<type> and one constructor of
   [proved_pairing] / [proved_pairing_upto] per pairing) discharge them for EVERY ONE of the 86 typed
   pairings of the lossless table (DESIGN.md section 8), on the domains and under the hypotheses below.
   "ints" = the ten integer kinds (byte = uint8, rune = int32: 12 names in the table), any value in range.
     string   (18)  ints; bool; string (valid UTF-8); json.Number (valid UTF-8); float64 / float32 FINITE,
                    under H_float_rt, H_float_syn (+ H_f32_embed for float32) of GoHyps.v;
                    time.Time (years 0..9999, whole-minute offset): exactly for a whole second, otherwise
                    read back at one second with the same offset (C13_proved_pairings_upto).
                    NOT proved: NaN / +Inf / -Inf under string (they need ParseFloat on "NaN", "+Inf").
     numeric  (17)  ints; json.Number (a JSON number literal, kept character for character);
                    float64 / float32 finite, same hypotheses; bool under H_parse_bool_digits (GoHypsJson.v:
                    ParseFloat reads "0" / "1" as 0.0 / 1.0 — ToBool goes through ToFloat64);
                    time.Time with tsec in int64: read back as the same instant, zero nanoseconds, in the
                    reader's zone (upto).
     boolean   (1)  bool.
     binary   (19)  ints; bool; float64 / float32 (every bit pattern); string, json.Number, non-nil []byte
                    (any bytes) — by base64_decode_encode (proofs/Base64Proofs.v, no axioms);
                    time.Time with |tsec| < 2^55 (upto: same instant, reader's zone), under the premise that
                    Go's lenient layout parser (oracle o_time_parse_slow) rejects the 8 payload bytes.
     datetime  (1)  time.Time (as under string).
     timestamp (12) the eight integer kinds that fit int64 (stated for all ten with the premise
                    in_range KInt64 z, so uint / uint64 values up to MaxInt64 are covered too); bool under
                    H_parse_bool_digits; time.Time (upto, as under numeric).
     auto     (18)  ints; bool; string (valid UTF-8); json.Number (a JSON number literal); time.Time with its
                    nanoseconds, 0 <= tnsec < 10^9 (Time.MarshalJSON writes them without trailing zeros, the
                    strict RFC 3339 parser reads every digit back: pp_auto_time, pp_auto_time_nanos);
                    float64 / float32: for a value x whose json.Marshal text t (oracle jfloat) is a JSON
                    number that ParseFloat reads back as x (premises of pp_auto_f64 / pp_auto_f32; the named
                    hypothesis H_jfloat_rt of GoHypsJson.v gives them for every finite float:
                    auto_f64_pairing, auto_f32_pairing in TemplateLossless.v).
   Hypotheses are premises of constructors, never axioms. The "none" column of the table (8 cells) is not
   instantiated. All 86 typed pairings (and the none column) are also decided on the real package by the
   typed round-trip oracle of the template stream (boundary and random values, both routes). *)
From Coq Require Import ZArith List Bool.
From JL.std Require Import GoBase GoTime GoVal GoJson.
From JL.gen Require Import CastGen ConvGen.
From JL.model Require Import Row RowRun Template TemplateJson.
From JL.proofs Require Import CastBinary JsonWrite TemplateLossless.
Import ListNotations.
Open Scope Z_scope.

Theorem C13_column : forall (O : oracles) jfloat jother n c f T v e leaf txt,
  ustr c -> v <> VNil -> format_eqb f FHidden = false ->
  To O T v = Ok v ->
  export_scalar O f (RS v) = Ok (RS e) ->
  marshal_gval encode_string jfloat jother e = Ok txt ->
  write_jv leaf = Some txt -> jv_wf leaf ->
  rv_is_nil (rv_of_jv leaf) = false ->
  import_scalar O f T (rv_of_jv leaf) = Ok (RS v) ->
  exists line,
    bind (create_row O parse_top_rv (S (S (S n))) (tpl1 c f T) (RMap [(c, RS v)]))
         (marshal_row O encode_string jfloat jother (S (S (S n)))) = Ok line
    /\ get_row O parse_top_rv (S (S (S n))) (tpl1 c f T) line = Ok (MkRow [(c, CVal (RS v) f T)] [c]).
Proof. exact lossless_column. Qed.
Print Assumptions C13_column.

(* the value read back may differ from the value written: v' is what the column holds after the read *)
Theorem C13_column_upto : forall (O : oracles) jfloat jother n c f T v v' e leaf txt,
  ustr c -> v <> VNil -> format_eqb f FHidden = false ->
  To O T v = Ok v ->
  export_scalar O f (RS v) = Ok (RS e) ->
  marshal_gval encode_string jfloat jother e = Ok txt ->
  write_jv leaf = Some txt -> jv_wf leaf ->
  rv_is_nil (rv_of_jv leaf) = false ->
  import_scalar O f T (rv_of_jv leaf) = Ok (RS v') ->
  exists line,
    bind (create_row O parse_top_rv (S (S (S n))) (tpl1 c f T) (RMap [(c, RS v)]))
         (marshal_row O encode_string jfloat jother (S (S (S n)))) = Ok line
    /\ get_row O parse_top_rv (S (S (S n))) (tpl1 c f T) line = Ok (MkRow [(c, CVal (RS v') f T)] [c]).
Proof. exact lossless_column_upto. Qed.
Print Assumptions C13_column_upto.

(* the pairings proved (see the header; the constructors of proved_pairing in
   proofs/TemplateLossless.v carry the domain and the hypotheses of each) — with the exported value,
   the JSON value and its text as witnesses *)
Theorem C13_proved_pairings : forall (O : oracles) jfloat jother n c f T v e leaf txt,
  ustr c -> proved_pairing O jfloat f T v e leaf txt ->
  exists line,
    bind (create_row O parse_top_rv (S (S (S n))) (tpl1 c f T) (RMap [(c, RS v)]))
         (marshal_row O encode_string jfloat jother (S (S (S n)))) = Ok line
    /\ get_row O parse_top_rv (S (S (S n))) (tpl1 c f T) line = Ok (MkRow [(c, CVal (RS v) f T)] [c]).
Proof. exact lossless_proved. Qed.
Print Assumptions C13_proved_pairings.

(* time.Time with any nanoseconds (and every pairing above, with v' = v): the value read back is the
   same instant at one-second resolution — [same_second]: v' = v, or both are times with the same
   tsec, tnsec = 0, and the same offset under datetime / string *)
Theorem C13_proved_pairings_upto : forall (O : oracles) jfloat jother n c f T v v' e leaf txt,
  ustr c -> proved_pairing_upto O jfloat f T v v' e leaf txt ->
  same_second f v v'
  /\ exists line,
    bind (create_row O parse_top_rv (S (S (S n))) (tpl1 c f T) (RMap [(c, RS v)]))
         (marshal_row O encode_string jfloat jother (S (S (S n)))) = Ok line
    /\ get_row O parse_top_rv (S (S (S n))) (tpl1 c f T) line = Ok (MkRow [(c, CVal (RS v') f T)] [c]).
Proof. exact lossless_proved_upto_same_second. Qed.
Print Assumptions C13_proved_pairings_upto.

(* non-vacuity: int16 -32768 under numeric(int16) is written {"c":-32768} and read back *)
Example C13_example : forall O jf jo,
  bind (create_row O parse_top_rv 4 (tpl1 [99] FNumeric (VInt KInt16 0)) (RMap [([99], RS (VInt KInt16 (-32768)))]))
       (marshal_row O encode_string jf jo 4) = Ok [123; 34; 99; 34; 58; 45; 51; 50; 55; 54; 56; 125].
Proof. intros. vm_compute. reflexivity. Qed.

(* int16 -2 under binary(int16): the two little-endian bytes FE FF are written as base64 "/v8=" *)
Example C13_example_binary : forall O jf jo,
  bind (create_row O parse_top_rv 4 (tpl1 [99] FBinary (VInt KInt16 0)) (RMap [([99], RS (VInt KInt16 (-2)))]))
       (marshal_row O encode_string jf jo 4) = Ok [123; 34; 99; 34; 58; 34; 47; 118; 56; 61; 34; 125].
Proof. intros. vm_compute. reflexivity. Qed.

(* the premises of the time pairings are satisfiable: 2023-11-14T23:13:20.000000005+01:00 under datetime
   is read back as the same second with the same offset *)
Example C13_example_time : forall O jf t0,
  exists e leaf txt,
    proved_pairing_upto O jf FDateTime (VTime t0) (VTime {| tsec := 1700000000; tnsec := 5; toff := 3600 |})
                        (VTime {| tsec := 1700000000; tnsec := 0; toff := 3600 |}) e leaf txt.
Proof.
  intros. do 3 eexists.
  apply (ppu_datetime_time O jf t0 {| tsec := 1700000000; tnsec := 5; toff := 3600 |}); vm_compute; repeat split; congruence.
Qed.


(* ---------------------------------------------------------------------------------------------
   WHOLE ROWS (proofs/TemplateLosslessRow.v). A template with any number of declared columns,
   pairwise distinct names; [spec : list (cdecl * slot)] lists them in declaration order, each with
   what it holds:
     cdecl = (name, format, raw type);  tpl_of cols = With(c1,f1,T1).With(c2,f2,T2)... from an empty template
     slot  = SlVal v v' e leaf txt   a typed value v with the facts of C13_column_upto (v' is read back)
           | SlNil inmap             nil: the key is absent from the map (false) or maps to nil (true)
           | SlHid x x'              a hidden column (format Hidden) holding x, kept as x' = cast.To(T, x)
     slot_ok: column_ok_upto for SlVal; for SlNil a well-formed UTF-8 name when the column is visible and
              cast.To(T, nil) = nil when the nil is in the map; for SlHid the format is Hidden and
              cast.To(T, x) = x'
     row_map spec        the map handed to CreateRow, entries in declaration order (C13_row_upto_any_order:
                         in any order)
     extras              undeclared keys, after the declared ones, holding parsed JSON values
                         (rv_members extras = their values as the reader builds them); extras_ok: distinct
                         names, none declared, well-formed UTF-8 names, well-formed trees with unique member
                         names at every depth, nested at most (n+1)/4 deep (jfuel d <= S n)
     row_members spec    the members written: visible columns in declaration order, leaf_i for a value,
                         null for a nil column, nothing for a hidden column
     row_read spec extras  the row read back: column i holds v'_i (same format and raw type), nil columns
                         nil, hidden columns nil (they are not written), then the undeclared keys as Auto
                         values in the order written.
   The line is the JSON text write_jv of the object (row_members spec ++ extras).
   Sub-rows (WithRow) are not covered (finding F6: declared sub-rows are flattened by CloneValue). *)
From Coq Require Import Permutation.
From JL.proofs Require Import UntemplatedBridge TemplateLosslessRow.

Theorem C13_row_upto : forall (O : oracles) jfloat jother n (spec : list (cdecl * slot)) (extras : list (str * jv)),
  NoDup (map sname spec) -> Forall (slot_ok O jfloat jother) spec -> extras_ok n (map sname spec) extras ->
  exists line,
    let t := tpl_of (map fst spec) in
    write_jv (JObj (row_members spec ++ extras)) = Some line
    /\ bind (create_row O parse_top_rv (S (S (S n))) t (RMap (row_map spec ++ rv_members extras)))
            (marshal_row O encode_string jfloat jother (S (S (S n)))) = Ok line
    /\ get_row O parse_top_rv (S (S (S n))) t line = Ok (row_read spec extras).
Proof. exact lossless_row_upto. Qed.
Print Assumptions C13_row_upto.

(* the declared entries of the map in any order (a Go map has no order) *)
Theorem C13_row_upto_any_order : forall (O : oracles) jfloat jother n (spec : list (cdecl * slot)) (extras : list (str * jv)) kvs,
  NoDup (map sname spec) -> Forall (slot_ok O jfloat jother) spec -> extras_ok n (map sname spec) extras ->
  Permutation kvs (row_map spec) ->
  exists line,
    let t := tpl_of (map fst spec) in
    write_jv (JObj (row_members spec ++ extras)) = Some line
    /\ bind (create_row O parse_top_rv (S (S (S n))) t (RMap (kvs ++ rv_members extras)))
            (marshal_row O encode_string jfloat jother (S (S (S n)))) = Ok line
    /\ get_row O parse_top_rv (S (S (S n))) t line = Ok (row_read spec extras).
Proof. exact lossless_row_upto_any_order. Qed.
Print Assumptions C13_row_upto_any_order.

(* every column a proved pairing (slot_proved: SlVal with a well-formed UTF-8 name and
   proved_pairing_upto f T v v' e leaf txt; SlNil / SlHid in a column whose raw type is one cast.To knows,
   known_rawtype T) — no residual premise per typed column beyond those of the pairing constructors;
   slot_same_second: same_second f v v' for every typed value *)
Theorem C13_row_proved_pairings : forall (O : oracles) jfloat jother n (spec : list (cdecl * slot)) (extras : list (str * jv)),
  NoDup (map sname spec) -> Forall (slot_proved O jfloat) spec -> extras_ok n (map sname spec) extras ->
  Forall slot_same_second spec
  /\ exists line,
    let t := tpl_of (map fst spec) in
    write_jv (JObj (row_members spec ++ extras)) = Some line
    /\ bind (create_row O parse_top_rv (S (S (S n))) t (RMap (row_map spec ++ rv_members extras)))
            (marshal_row O encode_string jfloat jother (S (S (S n)))) = Ok line
    /\ get_row O parse_top_rv (S (S (S n))) t line = Ok (row_read spec extras).
Proof. exact lossless_row_proved_upto. Qed.
Print Assumptions C13_row_proved_pairings.

(* non-vacuity: the row ex_spec / ex_extras of proofs/TemplateLosslessRow.v — numeric(int64)
   -1234567890123, a hidden column holding int 7, string "é€!" in a column named "é", a nil numeric column
   absent from the map, boolean true, binary 00 FF 10, a nil string(time.Time) column present in the map,
   datetime 2023-11-14T23:13:20.000000005+01:00, and the undeclared keys "u":[1,{"k":"v"}], "x":null —
   meets every premise; it is written as ex_line =
   {"n":-1234567890123,"é":"é€!","z":null,"b":true,"y":"AP8Q","w":null,"t":"2023-11-14T23:13:20+01:00","u":[1,{"k":"v"}],"x":null}
   and read back with the time at one second, the hidden column nil *)
Example C13_row_example : forall O jf jo,
  NoDup (map sname ex_spec) /\ Forall (slot_proved O jf) ex_spec /\ extras_ok 5 (map sname ex_spec) ex_extras
  /\ bind (create_row O parse_top_rv 8 (tpl_of (map fst ex_spec)) (RMap (row_map ex_spec ++ rv_members ex_extras)))
          (marshal_row O encode_string jf jo 8) = Ok ex_line
  /\ get_row O parse_top_rv 8 (tpl_of (map fst ex_spec)) ex_line = Ok (row_read ex_spec ex_extras).
Proof.
  intros. destruct (ex_row_ok O jf) as (Hnd & Hp & Hex).
  destruct (C13_row_proved_pairings O jf jo 5 ex_spec ex_extras Hnd Hp Hex) as (_ & line & _ & Hc & Hg).
  cbv zeta in *. rewrite (ex_row_line O jf jo) in Hc. injection Hc as <-. auto.
Qed.

Example C13_row_example_read :
  alookup [116] (row_m (row_read ex_spec ex_extras))
    = Some (CVal (RS (VTime {| tsec := 1700000000; tnsec := 0; toff := 3600 |})) FDateTime (VTime zero_time))
  /\ alookup [104] (row_m (row_read ex_spec ex_extras)) = Some (CVal rnil FHidden (VStr []))
  /\ alookup [110] (row_m (row_read ex_spec ex_extras)) = Some (CVal (RS (VInt KInt64 (-1234567890123))) FNumeric (VInt KInt64 0))
  /\ row_l (row_read ex_spec ex_extras) = [[110]; [104]; [195; 169]; [122]; [98]; [121]; [119]; [116]; [117]; [120]].
Proof. vm_compute. repeat split; reflexivity. Qed.
