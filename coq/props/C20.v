(* C20 — a finished template can be shared by concurrent goroutines.
   What a Coq theorem can say: over the store model of C15 (JL.model.Heap), schedules of
   OPERATIONS. A goroutine's operations on shared, finished templates are CreateRowEmpty, CreateRow
   of any input, and reading a line with the importer of one template and writing it with the
   exporter of another ([top]); [top_result W o] is what the operation returns, computed from the
   templates as they are in world W; [top_step] its effect (rows allocated for what it creates).
   A schedule is any interleaving [list (goroutine, operation)].
   PARTIAL: memory-level data races cannot be exhibited by an executable Gallina model. Their
   absence is evidenced, not proved: the conc stream runs 2-16 goroutines sharing one pair of
   templates (every format, []byte raw types, a sub-row) under Go's race detector, compares every
   goroutine's results with a sequential run, and hands the concurrent results to the template
   model. What IS proved: no operation other than a builder call writes a template, and results
   are schedule-independent at operation granularity. *)
From Coq Require Import ZArith List Bool PeanoNat.
From JL.std Require Import GoBase GoVal.
From JL.model Require Import Row Template Heap.
From JL.proofs Require Import HeapProofs ConcProofs.
Import ListNotations.

(* every schedule: each operation returns what it returns on the initial world *)
Theorem C20_schedule_independent : forall (O : oracles) parse_top enc jfloat jother W0 s,
  owned W0 ->
  (forall g o, In (g, o) s ->
     match o with
     | TCreateEmpty t | TCreate t _ => (t < length (rows W0))%nat
     | TLine ti to _ => (ti < length (rows W0))%nat /\ (to < length (rows W0))%nat
     end) ->
  run_schedule O parse_top enc jfloat jother W0 s
  = map (fun go => (fst go, top_result O parse_top enc jfloat jother W0 (snd go))) s.
Proof. intros. now apply schedule_independent. Qed.
Print Assumptions C20_schedule_independent.

(* every goroutine obtains exactly the results it obtains when running alone *)
Theorem C20_alone_or_interleaved : forall (O : oracles) parse_top enc jfloat jother W0 s g,
  owned W0 ->
  (forall g o, In (g, o) s ->
     match o with
     | TCreateEmpty t | TCreate t _ => (t < length (rows W0))%nat
     | TLine ti to _ => (ti < length (rows W0))%nat /\ (to < length (rows W0))%nat
     end) ->
  filter (fun r => Nat.eqb (fst r) g) (run_schedule O parse_top enc jfloat jother W0 s)
  = run_schedule O parse_top enc jfloat jother W0 (filter (fun go => Nat.eqb (fst go) g) s).
Proof. intros. now apply alone_or_interleaved. Qed.
Print Assumptions C20_alone_or_interleaved.

(* no operation of any schedule writes a template: the prototypes are what they were *)
Theorem C20_templates_untouched : forall (O : oracles) parse_top (s : list (nat * top)) W0 x,
  owned W0 -> (x < length (rows W0))%nat ->
  view (fold_left (top_step O parse_top) (map snd s) W0) x = view W0 x.
Proof. intros. now apply templates_untouched. Qed.
Print Assumptions C20_templates_untouched.

Example C20_example : forall O p e jf jo,
  let W0 := hrun O p [HNewTemplate; HWith 0%nat [97%Z] FNumeric VNil] empty_world in
  owned W0
  /\ run_schedule O p e jf jo W0 [(0%nat, TCreateEmpty 0%nat); (1%nat, TCreate 0%nat (RArr [RS (VInt KInt 5%Z)])); (0%nat, TCreateEmpty 0%nat)]
     = [(0%nat, top_result O p e jf jo W0 (TCreateEmpty 0%nat)); (1%nat, top_result O p e jf jo W0 (TCreate 0%nat (RArr [RS (VInt KInt 5%Z)])));
        (0%nat, top_result O p e jf jo W0 (TCreateEmpty 0%nat))].
Proof.
  intros O p e jf jo W0.
  assert (Ho : owned W0) by (apply hrun_owned; [apply owned_empty | repeat constructor]).
  split; [exact Ho|].
  rewrite (schedule_independent O p e jf jo W0 _ Ho); [reflexivity|].
  intros g o [H|[H|[H|[]]]]; injection H as <- <-; vm_compute; auto.
Qed.
