(* C12 — numbers rendered as text or JSON numbers read back exactly.
   Integers and booleans: fully proved over the regenerated model. Floats: PARTIAL — the digits
   are strconv's (shortest formatting and correctly rounded parsing are oracles); what is proved
   is that the regenerated code uses verb 'f', precision -1 and the value's own bit size on both
   sides, so that the named hypotheses H_float_rt / H_float_syn / H_float_nonfinite about strconv
   (tested on every run) give the round trip. *)
From Coq Require Import ZArith List Bool.
From JL.std Require Import GoBase GoFloat GoStrconv GoTime GoVal GoJsonNum GoHyps.
From JL.gen Require Import CastGen.
From JL.proofs Require Import CastBinary CastInt CastText.
Import ListNotations.
Open Scope Z_scope.

Theorem C12_int_text : forall (O : oracles) (k : ikind) (z : Z),
  in_range k z ->
  ToString O (VInt k z) = Ok (VStr (dec z)) /\ ToNumber O (VInt k z) = Ok (VNum (dec z))
  /\ is_json_number (dec z) = true /\ marshal_number (dec z) = Some (dec z)
  /\ To O (sample k) (VStr (dec z)) = Ok (VInt k z) /\ To O (sample k) (VNum (dec z)) = Ok (VInt k z).
Proof.
  intros O k z H.
  split; [exact (ToString_int O k z H)|]. split; [exact (ToNumber_int O k z H)|].
  split; [exact (json_number_dec z)|].
  split.
  - unfold marshal_number. rewrite (json_number_dec z). destruct (dec z) eqn:E; [|reflexivity].
    pose proof (json_number_dec z) as J. rewrite E in J. discriminate J.
  - exact (int_text_roundtrip O k z H).
Qed.
Print Assumptions C12_int_text.

Theorem C12_bool : forall (O : oracles) (b : bool),
  ToString O (VBool b) = Ok (VStr (FormatBool b))
  /\ ToNumber O (VBool b) = Ok (VNum (if b then [49] else [48]))
  /\ To O (VBool true) (VStr (FormatBool b)) = Ok (VBool b).
Proof. exact bool_text. Qed.
Print Assumptions C12_bool.

(* floats, partial (see header) *)
Theorem C12_float64_text_partial : forall (O : oracles), H_float_rt O -> H_float_syn O ->
  forall x, 0 <= x < 2 ^ 64 -> f64_class x = FFin ->
  exists t, ToString O (VF64 x) = Ok (VStr t) /\ ToNumber O (VF64 x) = Ok (VNum t)
    /\ plain_decimal t = true /\ marshal_number t = Some t
    /\ To O (VF64 0) (VStr t) = Ok (VF64 x) /\ To O (VF64 0) (VNum t) = Ok (VF64 x).
Proof.
  intros O [Hrt _] [Hsyn _] x Hx Hc. exists (FormatFloat O x 102 (-1) 64).
  destruct (f64_text O x) as [H1 H2]. split; [exact H1|]. split; [exact H2|].
  pose proof (Hsyn x Hc) as Hp. split; [exact Hp|].
  assert (Hj : is_json_number (FormatFloat O x 102 (-1) 64) = true)
    by (unfold plain_decimal in Hp; apply andb_true_iff in Hp; tauto).
  split.
  - unfold marshal_number. rewrite Hj. destruct (FormatFloat O x 102 (-1) 64) eqn:E; [discriminate Hj | reflexivity].
  - destruct (f64_read O (FormatFloat O x 102 (-1) 64)) as [R1 R2].
    rewrite R2, R1, (Hrt x Hx Hc). split; reflexivity.
Qed.
Print Assumptions C12_float64_text_partial.

Theorem C12_float32_text_partial : forall (O : oracles), H_float_rt O -> H_float_syn O -> H_f32_embed ->
  forall x, 0 <= x < 2 ^ 32 -> f32_class x = FFin ->
  exists t, ToString O (VF32 x) = Ok (VStr t) /\ ToNumber O (VF32 x) = Ok (VNum t)
    /\ plain_decimal t = true /\ marshal_number t = Some t
    /\ To O (VF32 0) (VStr t) = Ok (VF32 x) /\ To O (VF32 0) (VNum t) = Ok (VF32 x).
Proof.
  intros O [_ Hrt] [_ Hsyn] Hemb x Hx Hc. exists (FormatFloat O (f64_of_f32 x) 102 (-1) 32).
  destruct (f32_text O x) as [H1 H2]. split; [exact H1|]. split; [exact H2|].
  pose proof (Hsyn x Hc) as Hp. split; [exact Hp|].
  assert (Hj : is_json_number (FormatFloat O (f64_of_f32 x) 102 (-1) 32) = true)
    by (unfold plain_decimal in Hp; apply andb_true_iff in Hp; tauto).
  split.
  - unfold marshal_number. rewrite Hj.
    destruct (FormatFloat O (f64_of_f32 x) 102 (-1) 32) eqn:E; [discriminate Hj | reflexivity].
  - destruct (f32_read O (FormatFloat O (f64_of_f32 x) 102 (-1) 32)) as [R1 R2].
    rewrite R2, R1, (Hrt x Hx Hc), (Hemb x Hx Hc). split; reflexivity.
Qed.
Print Assumptions C12_float32_text_partial.

(* non-finite floats never produce a number that marshals *)
Theorem C12_nonfinite_partial : forall (O : oracles), H_float_nonfinite O ->
  (forall x, f64_class x <> FFin ->
     exists t, ToNumber O (VF64 x) = Ok (VNum t) /\ marshal_number t = None)
  /\ (forall x, f32_class x <> FFin ->
     exists t, ToNumber O (VF32 x) = Ok (VNum t) /\ marshal_number t = None).
Proof.
  intros O [H64 H32]. split; intros x Hc.
  - exists (FormatFloat O x 102 (-1) 64). split; [reflexivity|].
    destruct (H64 x Hc) as [E|[E|E]]; rewrite E; reflexivity.
  - exists (FormatFloat O (f64_of_f32 x) 102 (-1) 32). split; [reflexivity|].
    destruct (H32 x Hc) as [E|[E|E]]; rewrite E; reflexivity.
Qed.
Print Assumptions C12_nonfinite_partial.

Example C12_nonvacuous : in_range KInt16 (-32768) /\ dec (-32768) = [45; 51; 50; 55; 54; 56].
Proof. split; [cbv; split; discriminate | reflexivity]. Qed.
