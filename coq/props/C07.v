(* C07 — streaming gives one in-order outcome per line, independent of neighbours.
   Statements over the hand model JL.model.Stream (importer with the `failed` flag, exporter,
   streamer) on top of the bufio.Scanner specification JL.std.GoScanner; proofs in
   JL.proofs.StreamProofs.  R, get_row, export_row are universally quantified: the theorems hold
   for every row type and every pair of templates.  Axiom-free. *)
From Coq Require Import ZArith List Bool Lia.
From JL.std Require Import GoBase GoScanner.
From JL.model Require Import Stream.
From JL.proofs Require Import StreamProofs.
Import ListNotations.
Open Scope Z_scope.

(* JL.proofs.StreamProofs.line_events R get_row export_row t — the events of one line, a function
   of the line (and the templates) only:
     match get_row t with
     | Err s => [EvCall (Some (EcImport s))]                    rejected on input: one error call
     | Ok r  => EvCall None ::                                  processor(row, nil), then
                match export_row r with
                | Ok b  => [EvWrite (b ++ [10]) (lenZ (b ++ [10]))]   ONE Write: the line and one LF, whole
                | Err s => [EvCall (Some (EcExport s))]               rejected on output: one error call
                | _ => [] end
     | _ => [] end *)

(* Accounting.  For every stream s whose raw lines (CR included) are all shorter than the buffer
   capacity C = max(initial, max) — "below the limit" —, a reader that does not fail, a writer
   that does not fail and a processor that never returns an error: Stream returns nil and its
   trace is the concatenation, in input order, of the events of each line of s (LF or CRLF
   terminated, a final unterminated line included, blank lines included).  Hence exactly one
   outcome per line, none dropped, duplicated, merged or reordered. *)
Theorem C07_accounting :
  forall (R : Type) (get_row : str -> res R) (export_row : R -> res str)
         (wf : nat -> option Z) (proc : nat -> option eclass -> option eclass) (C : Z) (s : str),
  0 < C ->
  Forall (fun l => lenZ l < C) (raw_lines s) ->
  (forall i e, proc i e = None) -> (forall j, wf j = None) ->
  Forall (tok_total R get_row export_row) (lines s) ->
  Stream R get_row export_row wf proc C s None
  = (ROk, flat_map (line_events R get_row export_row) (lines s)).
Proof. exact accounting. Qed.
Print Assumptions C07_accounting.

(* Independence.  The segment of the trace that belongs to a line t is line_events t whatever
   precedes and follows it: two streams that both contain the line t produce the same events for
   it (together with C07_accounting, where line_events is a function of t alone). *)
Theorem C07_independence :
  forall (R : Type) (get_row : str -> res R) (export_row : R -> res str) (pre post pre' post' : list str) (t : str),
  let T := flat_map (line_events R get_row export_row) in
  T (pre ++ t :: post) = T pre ++ line_events R get_row export_row t ++ T post /\
  T (pre' ++ t :: post') = T pre' ++ line_events R get_row export_row t ++ T post'.
Proof. exact independence. Qed.
Print Assumptions C07_independence.

(* The model's loop always terminates within its fuel: Stream is the fold of the loop body over
   the sequence of loop iterations computed from the scanner specification. *)
Theorem C07_stream_is_fold :
  forall (R : Type) (get_row : str -> res R) (export_row : R -> res str)
         (wf : nat -> option Z) (proc : nat -> option eclass -> option eclass) (C : Z) (s : str) (k : option Z),
  Stream R get_row export_row wf proc C s k
  = run_items R get_row export_row wf proc (spec_items (S (length s)) C s k) O O.
Proof. exact Stream_eq. Qed.
Print Assumptions C07_stream_is_fold.

(* Chunking independence.  Whatever sizes the reader returns per Read call (any list of chunk
   sizes, for every stream, fault offset, capacity, processor and write-fault schedule), the run
   of Stream over the OPERATIONAL scanner model (buffer, Read calls; GoScanner.cscan) is the run
   over the chunk-free specification that all other theorems are about. *)
Theorem C07_chunking :
  forall (R : Type) (get_row : str -> res R) (export_row : R -> res str)
         (wf : nat -> option Z) (proc : nat -> option eclass -> option eclass)
         (C : Z) (s : str) (k : option Z) (chunks : list Z),
  match k with Some x => 0 <= x | None => True end ->
  StreamChunked R get_row export_row wf proc C s k chunks = Stream R get_row export_row wf proc C s k.
Proof. exact chunking. Qed.
Print Assumptions C07_chunking.

(* The same accounting for jsonline's own per-line functions: the importer of an input template and the
   exporter of an output template of the row / template model (JL.model.Template with the text layer of
   JL.std.GoJson), instead of abstract get_row / export_row. [tok_total] then says that reading and writing
   the line neither panics (excluded for well-formed templates by C17/C16) nor runs out of model fuel. *)
From JL.std Require Import GoVal.
From JL.model Require Import Row Template TemplateJson Jl.
From JL.proofs Require Import JlProofs.

Theorem C07_accounting_jsonline :
  forall (O : oracles) jfloat jother (ti to : template)
         (wf : nat -> option Z) (proc : nat -> option eclass -> option eclass) (C : Z) (s : str),
  0 < C ->
  Forall (fun l => lenZ l < C) (raw_lines s) ->
  (forall i e, proc i e = None) -> (forall j, wf j = None) ->
  Forall (tok_total crow (jl_import O ti) (jl_export O jfloat jother to)) (lines s) ->
  Stream crow (jl_import O ti) (jl_export O jfloat jother to) wf proc C s None
  = (ROk, flat_map (line_events crow (jl_import O ti) (jl_export O jfloat jother to)) (lines s)).
Proof. intros. now apply accounting. Qed.
Print Assumptions C07_accounting_jsonline.


(* ---------------------------------------------------------------------------------------------
   Pull mode.  The importer has a second entry point, ReadOne (importer.go), for callers who pull
   the rows themselves instead of running Streamer.Stream.  JL.model.StreamPull.pull_loop is the
   loop such a caller writes:

       for { row, err := imp.ReadOne(); if row == nil && err == nil { break }
             if err != nil { note(err); continue }
             note(nil); if err := exp.Export(row); err != nil { note(err) } }

   where note records a call event (EvCall) in the same trace as Stream's processor calls and Write
   calls.  JL.model.StreamPull.stream_loop_st is Stream.stream_loop returning, besides the result
   and the observer state (call counter, Write counter, trace), the importer the loop stopped in. *)
From JL.model Require Import StreamPull.
From JL.proofs Require Import StreamPullProofs.

(* stream_loop_st IS the model's Stream loop (the final importer apart). *)
Theorem C07_stream_loop_st_is_stream_loop :
  forall (R : Type) (get_row : str -> res R) (export_row : R -> res str)
         (Sc : Type) (s_scan : Sc -> option str * Sc) (s_err : Sc -> option serr)
         (wf : nat -> option Z) (proc : nat -> option eclass -> option eclass)
         (fuel : nat) (i : importer Sc) (o : ost),
  stream_loop R get_row export_row Sc s_scan s_err wf proc fuel i o
  = (let '(r, _, o') := stream_loop_st R get_row export_row Sc s_scan s_err wf proc fuel i o in (r, o')).
Proof. exact stream_loop_st_forget. Qed.
Print Assumptions C07_stream_loop_st_is_stream_loop.

(* Pull mode = Stream with a tolerant processor.  For every scanner, every importer state (scanner
   state, current token, `failed` flag), every observer state (numbers of processor calls and Write
   calls made so far — the processor of Stream is called with its call index —, trace so far),
   every write-fault schedule and every fuel: the pull loop and Stream's loop under
   NoFailureProcessor return the same result, stop with the same importer, the same counters and
   the same trace: the same calls with the same classes and the same Writes with the same buffers
   and accepted byte counts, in the same order.  A line's outcome does not depend on the entry
   point that pulls it. *)
Theorem C07_pull_is_stream :
  forall (R : Type) (get_row : str -> res R) (export_row : R -> res str)
         (Sc : Type) (s_scan : Sc -> option str * Sc) (s_err : Sc -> option serr)
         (wf : nat -> option Z) (fuel : nat) (i : importer Sc) (o : ost),
  pull_loop R get_row export_row Sc s_scan s_err wf fuel i o
  = stream_loop_st R get_row export_row Sc s_scan s_err wf NoFailureProcessor fuel i o.
Proof. exact pull_is_stream_loop. Qed.
Print Assumptions C07_pull_is_stream.

(* The same against the original loop of JL.model.Stream. *)
Theorem C07_pull_is_stream_observed :
  forall (R : Type) (get_row : str -> res R) (export_row : R -> res str)
         (Sc : Type) (s_scan : Sc -> option str * Sc) (s_err : Sc -> option serr)
         (wf : nat -> option Z) (fuel : nat) (i : importer Sc) (o : ost),
  stream_loop R get_row export_row Sc s_scan s_err wf NoFailureProcessor fuel i o
  = (let '(r, _, o') := pull_loop R get_row export_row Sc s_scan s_err wf fuel i o in (r, o')).
Proof. exact pull_is_stream_loop_obs. Qed.
Print Assumptions C07_pull_is_stream_observed.

(* Whole runs.  Pull / PullChunked are the pull loop started as Stream / StreamChunked are (new
   importer, nothing observed yet, same fuel).  For every input, capacity, reader-fault offset and
   writer-fault schedule the pulled run is Stream's run under NoFailureProcessor; over the
   operational scanner, for every chunking as well — and that is again the run over the chunk-free
   specification (C07_chunking). *)
Theorem C07_pull_is_stream_run :
  forall (R : Type) (get_row : str -> res R) (export_row : R -> res str)
         (wf : nat -> option Z) (C : Z) (s : str) (k : option Z),
  Pull R get_row export_row wf C s k = Stream R get_row export_row wf NoFailureProcessor C s k.
Proof. exact Pull_is_Stream. Qed.
Print Assumptions C07_pull_is_stream_run.

Theorem C07_pull_is_stream_run_chunked :
  forall (R : Type) (get_row : str -> res R) (export_row : R -> res str)
         (wf : nat -> option Z) (C : Z) (s : str) (k : option Z) (chunks : list Z),
  PullChunked R get_row export_row wf C s k chunks
  = StreamChunked R get_row export_row wf NoFailureProcessor C s k chunks.
Proof. exact PullChunked_is_StreamChunked. Qed.
Print Assumptions C07_pull_is_stream_run_chunked.

Theorem C07_pull_any_chunking :
  forall (R : Type) (get_row : str -> res R) (export_row : R -> res str)
         (wf : nat -> option Z) (C : Z) (s : str) (k : option Z) (chunks : list Z),
  match k with Some x => 0 <= x | None => True end ->
  PullChunked R get_row export_row wf C s k chunks
  = Stream R get_row export_row wf NoFailureProcessor C s k.
Proof. exact PullChunked_is_Stream. Qed.
Print Assumptions C07_pull_any_chunking.

(* A concrete stream, "{}\n1\r\n\nx\n{}" (the toy templates of StreamProofs.Examples: "1" is
   rejected on input, "x" on output; a blank line is a line), the second Write failing after 0
   bytes: the pulled run, 1-byte reads included, is this trace, and it is Stream's. *)
Example C07_pull_example :
  let wf := fun j : nat => if Nat.eqb j 1 then Some 0 else None in
  Pull str StreamProofs.Examples.ex_get StreamProofs.Examples.ex_exp wf 8 StreamProofs.Examples.ex_s None =
    (ROk, [EvCall None; EvWrite [123;125;10] 3;
           EvCall (Some (EcImport ErrNoWrap));
           EvCall None; EvWrite [10] 0; EvCall (Some EcWrite);
           EvCall None; EvCall (Some (EcExport ErrUnsupportedFormat));
           EvCall None; EvWrite [123;125;10] 3]) /\
  Stream str StreamProofs.Examples.ex_get StreamProofs.Examples.ex_exp wf NoFailureProcessor 8 StreamProofs.Examples.ex_s None =
  Pull str StreamProofs.Examples.ex_get StreamProofs.Examples.ex_exp wf 8 StreamProofs.Examples.ex_s None /\
  PullChunked str StreamProofs.Examples.ex_get StreamProofs.Examples.ex_exp wf 8 StreamProofs.Examples.ex_s None [1;1;1;1;1;1;1;1;1;1;1;1] =
  Pull str StreamProofs.Examples.ex_get StreamProofs.Examples.ex_exp wf 8 StreamProofs.Examples.ex_s None /\
  (* a reader fault inside the fourth line: what was read before has its outcome, then io:read *)
  Pull str StreamProofs.Examples.ex_get StreamProofs.Examples.ex_exp wf 8 StreamProofs.Examples.ex_s (Some 8) =
    (ROk, [EvCall None; EvWrite [123;125;10] 3;
           EvCall (Some (EcImport ErrNoWrap));
           EvCall None; EvWrite [10] 0; EvCall (Some EcWrite);
           EvCall (Some EcRead)]).
Proof. vm_compute. repeat split. Qed.
