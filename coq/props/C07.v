(* C07 — streaming gives one in-order outcome per line, independent of neighbours.
   Statements over the hand model JL.model.Stream (importer with the `failed` flag, exporter,
   streamer) on top of the bufio.Scanner specification JL.std.GoScanner; proofs in
   JL.proofs.StreamProofs.  R, get_row, export_row are universally quantified: the theorems hold
   for every row type and every pair of templates.  Axiom-free. *)
From Coq Require Import ZArith List Bool Lia.
From JL.std Require Import GoBase GoScanner.
From JL.model Require Import Stream.
From JL.proofs Require Import StreamProofs.
Import ListNotations.
Open Scope Z_scope.

(* JL.proofs.StreamProofs.line_events R get_row export_row t — the events of one line, a function
   of the line (and the templates) only:
     match get_row t with
     | Err s => [EvCall (Some (EcImport s))]                    rejected on input: one error call
     | Ok r  => EvCall None ::                                  processor(row, nil), then
                match export_row r with
                | Ok b  => [EvWrite (b ++ [10]) (lenZ (b ++ [10]))]   ONE Write: the line and one LF, whole
                | Err s => [EvCall (Some (EcExport s))]               rejected on output: one error call
                | _ => [] end
     | _ => [] end *)

(* Accounting.  For every stream s whose raw lines (CR included) are all shorter than the buffer
   capacity C = max(initial, max) — "below the limit" —, a reader that does not fail, a writer
   that does not fail and a processor that never returns an error: Stream returns nil and its
   trace is the concatenation, in input order, of the events of each line of s (LF or CRLF
   terminated, a final unterminated line included, blank lines included).  Hence exactly one
   outcome per line, none dropped, duplicated, merged or reordered. *)
Theorem C07_accounting :
  forall (R : Type) (get_row : str -> res R) (export_row : R -> res str)
         (wf : nat -> option Z) (proc : nat -> option eclass -> option eclass) (C : Z) (s : str),
  0 < C ->
  Forall (fun l => lenZ l < C) (raw_lines s) ->
  (forall i e, proc i e = None) -> (forall j, wf j = None) ->
  Forall (tok_total R get_row export_row) (lines s) ->
  Stream R get_row export_row wf proc C s None
  = (ROk, flat_map (line_events R get_row export_row) (lines s)).
Proof. exact accounting. Qed.
Print Assumptions C07_accounting.

(* Independence.  The segment of the trace that belongs to a line t is line_events t whatever
   precedes and follows it: two streams that both contain the line t produce the same events for
   it (together with C07_accounting, where line_events is a function of t alone). *)
Theorem C07_independence :
  forall (R : Type) (get_row : str -> res R) (export_row : R -> res str) (pre post pre' post' : list str) (t : str),
  let T := flat_map (line_events R get_row export_row) in
  T (pre ++ t :: post) = T pre ++ line_events R get_row export_row t ++ T post /\
  T (pre' ++ t :: post') = T pre' ++ line_events R get_row export_row t ++ T post'.
Proof. exact independence. Qed.
Print Assumptions C07_independence.

(* The model's loop always terminates within its fuel: Stream is the fold of the loop body over
   the sequence of loop iterations computed from the scanner specification. *)
Theorem C07_stream_is_fold :
  forall (R : Type) (get_row : str -> res R) (export_row : R -> res str)
         (wf : nat -> option Z) (proc : nat -> option eclass -> option eclass) (C : Z) (s : str) (k : option Z),
  Stream R get_row export_row wf proc C s k
  = run_items R get_row export_row wf proc (spec_items (S (length s)) C s k) O O.
Proof. exact Stream_eq. Qed.
Print Assumptions C07_stream_is_fold.

(* Chunking independence.  Whatever sizes the reader returns per Read call (any list of chunk
   sizes, for every stream, fault offset, capacity, processor and write-fault schedule), the run
   of Stream over the OPERATIONAL scanner model (buffer, Read calls; GoScanner.cscan) is the run
   over the chunk-free specification that all other theorems are about. *)
Theorem C07_chunking :
  forall (R : Type) (get_row : str -> res R) (export_row : R -> res str)
         (wf : nat -> option Z) (proc : nat -> option eclass -> option eclass)
         (C : Z) (s : str) (k : option Z) (chunks : list Z),
  match k with Some x => 0 <= x | None => True end ->
  StreamChunked R get_row export_row wf proc C s k chunks = Stream R get_row export_row wf proc C s k.
Proof. exact chunking. Qed.
Print Assumptions C07_chunking.

(* The same accounting for jsonline's own per-line functions: the importer of an input template and the
   exporter of an output template of the row / template model (JL.model.Template with the text layer of
   JL.std.GoJson), instead of abstract get_row / export_row. [tok_total] then says that reading and writing
   the line neither panics (excluded for well-formed templates by C17/C16) nor runs out of model fuel. *)
From JL.std Require Import GoVal.
From JL.model Require Import Row Template TemplateJson Jl.
From JL.proofs Require Import JlProofs.

Theorem C07_accounting_jsonline :
  forall (O : oracles) jfloat jother (ti to : template)
         (wf : nat -> option Z) (proc : nat -> option eclass -> option eclass) (C : Z) (s : str),
  0 < C ->
  Forall (fun l => lenZ l < C) (raw_lines s) ->
  (forall i e, proc i e = None) -> (forall j, wf j = None) ->
  Forall (tok_total crow (jl_import O ti) (jl_export O jfloat jother to)) (lines s) ->
  Stream crow (jl_import O ti) (jl_export O jfloat jother to) wf proc C s None
  = (ROk, flat_map (line_events crow (jl_import O ti) (jl_export O jfloat jother to)) (lines s)).
Proof. intros. now apply accounting. Qed.
Print Assumptions C07_accounting_jsonline.

