(* JSON layer — the closed statements the row/template properties C01, C02, C16 are built on.
   Every theorem is restated in full and closed with `exact`; Print Assumptions must report
   "Closed under the global context" (the JSON layer uses no axiom, not even the Reals'). *)
From Coq Require Import ZArith List Bool Lia.
From JL.std Require Import GoBase GoStrconv GoJsonNum GoJson GoJsonStrict GoJsonMarshal.
From JL.proofs Require Import JsonStr JsonWrite JsonRec JsonParseS JsonProofs.
Import ListNotations.
Open Scope Z_scope.

(* the reference recogniser decides the reference grammar *)
Theorem Json_recogniser_correct :
  forall b, is_json_object b = true <-> exists m, spells b (JObj m).
Proof. exact is_json_object_iff. Qed.
Print Assumptions Json_recogniser_correct.

Theorem Json_value_recogniser_correct :
  forall b, is_json_value b = true <-> exists v, spells b v.
Proof. exact is_json_value_iff. Qed.
Print Assumptions Json_value_recogniser_correct.

(* json.Marshal of any byte string is a valid string literal without control bytes, and decodes
   to the string (to its U+FFFD-repaired form when it is not well-formed UTF-8) *)
Theorem Json_encode_string_valid :
  forall s, bytes_ok s ->
    (forall t, jvalue (encode_string s ++ t) (JStr (sanitize s)) t)
    /\ is_json_value (encode_string s) = true
    /\ Forall (fun b => 32 <= b < 256) (encode_string s)
    /\ ~ In 10 (encode_string s)
    /\ decode_string (encode_string s) = Some (sanitize s)
    /\ (utf8_valid s = true -> decode_string (encode_string s) = Some s).
Proof. exact encode_string_valid. Qed.
Print Assumptions Json_encode_string_valid.

(* C01 core *)
Theorem Json_write_valid :
  forall v out, jv_bytes_ok v -> write_jv v = Some out ->
    spells out (sanitize_jv v)
    /\ is_json_value out = true
    /\ (forall m, v = JObj m -> is_json_object out = true)
    /\ Forall (fun b => 32 <= b < 256) out
    /\ ~ In 10 out.
Proof. exact write_valid. Qed.
Print Assumptions Json_write_valid.

Theorem Json_write_row_valid :
  forall m out, jv_bytes_ok (JObj m) -> write_row m = Some out ->
    is_json_object out = true /\ Forall (fun b => 32 <= b < 256) out /\ ~ In 10 out.
Proof. exact write_row_valid. Qed.
Print Assumptions Json_write_row_valid.

(* C16 core *)
Theorem Json_parse_complete :
  forall b m, spells b (JObj m) -> parse_top b = (m, true).
Proof. exact parse_complete. Qed.
Print Assumptions Json_parse_complete.

Theorem Json_parse_sound_strict :
  forall b m, parse_top_strict b = (m, true) -> spells b (JObj m).
Proof. exact parse_sound_strict. Qed.
Print Assumptions Json_parse_sound_strict.

Theorem Json_parse_iff :
  forall b, no_substitution b -> (snd (parse_top b) = true <-> is_json_object b = true).
Proof. exact parse_iff. Qed.
Print Assumptions Json_parse_iff.

Theorem Json_spells_no_substitution :
  forall b m, spells b (JObj m) -> no_substitution b.
Proof. exact spells_no_substitution. Qed.
Print Assumptions Json_spells_no_substitution.

Theorem Json_reject_not_object :
  forall b, snd (parse_top b) = false -> is_json_object b = false.
Proof. exact reject_not_object. Qed.
Print Assumptions Json_reject_not_object.

Theorem Json_literal_prefix_rejects :
  forall bad, In bad [[116;114;117]; [110;117;108]; [45]; [49;46]; [48;49]; [102;97;108;115]; [49;101]; [49;101;43]; [46;53]; [43;49]] ->
    snd (parse_top ([123;34;97;34;58] ++ bad ++ [125])) = false.
Proof. exact literal_prefix_rejects. Qed.
Print Assumptions Json_literal_prefix_rejects.

(* the three classic holes *)
Theorem Json_trailing_rejects :
  forall b m c r, spells b (JObj m) -> is_ws c = false -> snd (parse_top (b ++ c :: r)) = false.
Proof. exact trailing_rejects. Qed.
Print Assumptions Json_trailing_rejects.

Theorem Json_truncated_rejects :
  forall b m n, spells b (JObj m) -> (n < length (skip_trailing_ws b))%nat -> snd (parse_top (firstn n b)) = false.
Proof. exact truncated_rejects. Qed.
Print Assumptions Json_truncated_rejects.

(* C02 core *)
Theorem Json_roundtrip :
  forall b m, spells b (JObj m) ->
    parse_top b = (m, true)
    /\ exists out, write_jv (JObj m) = Some out
         /\ spells out (JObj m)
         /\ parse_top out = (m, true)
         /\ write_jv (JObj (fst (parse_top out))) = Some out
         /\ ~ In 10 out.
Proof. exact roundtrip. Qed.
Print Assumptions Json_roundtrip.

Theorem Json_roundtrip_row :
  forall b m, spells b (JObj m) -> Forall (fun kv => jdepth (snd kv) <= max_nesting) m ->
    exists out, write_row (fst (parse_top b)) = Some out /\ spells out (JObj m)
                /\ parse_top out = (m, true) /\ write_row (fst (parse_top out)) = Some out.
Proof. exact roundtrip_row. Qed.
Print Assumptions Json_roundtrip_row.

Theorem Json_write_read :
  forall m out, jv_wf (JObj m) -> write_jv (JObj m) = Some out -> parse_top out = (m, true).
Proof. exact write_read. Qed.
Print Assumptions Json_write_read.

(* fuel is never exhausted *)
Theorem Json_tokenize_fuel :
  forall s k, tok_run (S (length s) + k) TopValue [] s = tokenize s.
Proof. exact tokenize_fuel. Qed.
Print Assumptions Json_tokenize_fuel.

Theorem Json_parse_fuel :
  forall rest k, p_object (2 * length rest + 2 + k) rest [] = p_object (2 * length rest + 2) rest [].
Proof. exact parse_fuel. Qed.
Print Assumptions Json_parse_fuel.
