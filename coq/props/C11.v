(* C11 — binary form of fixed-width values is a fixed little-endian bijection.
   Statements over the model regenerated from pkg/cast on every run (JL.gen.CastGen);
   proofs in JL.proofs.CastBinary. Nothing but statements, `exact`, and Print Assumptions. *)
From Coq Require Import ZArith List Bool Lia.
From JL.std Require Import GoBase GoFloat GoStrconv GoTime GoVal GoBase64.
From JL.gen Require Import CastGen ConvGen.
From JL.model Require Import Row.
From JL.proofs Require Import CastBinary BinaryColumn.
Import ListNotations.
Open Scope Z_scope.

(* the binary form of an integer of kind k is the little-endian image, of exactly the type's
   size, of its two's-complement pattern — for every value of the type *)
Theorem C11_encode_le : forall (O : oracles) (k : ikind) (z : Z),
  in_range k z ->
  ToBinary O (VInt k z) = Ok (VBytes (mkbytes (le_bytes (size_nat k) (z mod 2 ^ ibits k)))).
Proof. exact encode_le. Qed.
Print Assumptions C11_encode_le.

(* decoding the binary form yields the identical value *)
Theorem C11_decode_encode : forall (O : oracles) (k : ikind) (z : Z),
  in_range k z ->
  bind (ToBinary O (VInt k z)) (fun b => To O (sample k) b) = Ok (VInt k z).
Proof. exact decode_encode. Qed.
Print Assumptions C11_decode_encode.

(* every byte sequence of exactly the type's size decodes, and re-encodes to itself *)
Theorem C11_encode_decode : forall (O : oracles) (k : ikind) (b : gbytes),
  wf_gval (VBytes b) -> length (bdata b) = size_nat k ->
  exists z, To O (sample k) (VBytes b) = Ok (VInt k z) /\ in_range k z
            /\ ToBinary O (VInt k z) = Ok (VBytes (mkbytes (bdata b))).
Proof. exact encode_decode. Qed.
Print Assumptions C11_encode_decode.

(* a byte sequence of any other length (nil included) is rejected with the type's sentinel,
   which wraps the package's cast-failure sentinel *)
Theorem C11_length_reject : forall (O : oracles) (k : ikind) (b : gbytes),
  length (bdata b) <> size_nat k ->
  To O (sample k) (VBytes b) = Err (sentinel_of k)
  /\ cast_sentinel_wraps_root (sentinel_of k) = true.
Proof. intros O k b H. split; [exact (reject_length O k b H) | destruct k; reflexivity]. Qed.
Print Assumptions C11_length_reject.

(* floats: the bit pattern itself, every pattern (NaN payloads, both zeros, subnormals) *)
Theorem C11_float64 : forall (O : oracles) (x : Z), 0 <= x < 2 ^ 64 ->
  ToBinary O (VF64 x) = Ok (VBytes (mkbytes (le_bytes 8 x)))
  /\ bind (ToBinary O (VF64 x)) (fun b => To O (VF64 0) b) = Ok (VF64 x).
Proof. intros O x H. split; [exact (f64_encode O x) | exact (f64_roundtrip O x H)]. Qed.
Print Assumptions C11_float64.

Theorem C11_float32 : forall (O : oracles) (x : Z), 0 <= x < 2 ^ 32 ->
  ToBinary O (VF32 x) = Ok (VBytes (mkbytes (le_bytes 4 x)))
  /\ bind (ToBinary O (VF32 x)) (fun b => To O (VF32 0) b) = Ok (VF32 x).
Proof. intros O x H. split; [exact (f32_encode O x) | exact (f32_roundtrip O x H)]. Qed.
Print Assumptions C11_float32.

Theorem C11_float_bytes : forall (O : oracles) (b : gbytes), wf_gval (VBytes b) ->
  (length (bdata b) = 8%nat -> bind (To O (VF64 0) (VBytes b)) (ToBinary O) = Ok (VBytes (mkbytes (bdata b))))
  /\ (length (bdata b) = 4%nat -> bind (To O (VF32 0) (VBytes b)) (ToBinary O) = Ok (VBytes (mkbytes (bdata b))))
  /\ (length (bdata b) <> 8%nat -> To O (VF64 0) (VBytes b) = Err ErrUnableToCastToFloat64)
  /\ (length (bdata b) <> 4%nat -> To O (VF32 0) (VBytes b) = Err ErrUnableToCastToFloat32).
Proof.
  intros O b H. split; [|split; [|split]].
  - exact (f64_bytes_roundtrip O b H).
  - exact (f32_bytes_roundtrip O b H).
  - exact (f64_reject O b).
  - exact (f32_reject O b).
Qed.
Print Assumptions C11_float_bytes.

(* bool: one byte, 00/01 on the way out, (b <> 0) on the way in *)
Theorem C11_bool : forall (O : oracles),
  (forall v, ToBinary O (VBool v) = Ok (VBytes (mkbytes [if v then 1 else 0])))
  /\ (forall x, To O (VBool true) (VBytes (mkbytes [x])) = Ok (VBool (negb (x =? 0))))
  /\ (forall b, length (bdata b) <> 1%nat -> To O (VBool true) (VBytes b) = Err ErrUnableToCastToBool)
  /\ (forall v, bind (ToBinary O (VBool v)) (fun b => To O (VBool true) b) = Ok (VBool v)).
Proof.
  intros O. split; [|split; [|split]].
  - exact (bool_encode O).
  - exact (bool_decode O).
  - exact (bool_reject O).
  - exact (bool_roundtrip O).
Qed.
Print Assumptions C11_bool.

(* the premises are satisfiable: a concrete non-trivial instance *)
Example C11_nonvacuous : in_range KInt16 (-2) /\ wf_gval (VBytes (mkbytes [254; 255]))
  /\ length (bdata (mkbytes [254; 255])) = size_nat KInt16.
Proof.
  split; [unfold in_range; cbn; lia|].
  split; [|reflexivity].
  split; [|discriminate].
  cbn. repeat constructor; unfold is_byte; lia.
Qed.

(* ------------------------------------------------------------------------------------------
   The COLUMN (last sentence of C11): importFromBinary / exportToBinary of the model regenerated
   from pkg/jsonline/conversions_import.go / conversions_export.go (JL.gen.ConvGen), through
   standard padded base64 (JL.std.GoBase64), and the cell of JL.model.Row (value.go Import /
   Export). Proofs in JL.proofs.BinaryColumn. Vocabulary (JL.proofs.BinaryColumn):
     fwkind     = FWInt k (the ten integer kinds) | FWF64 | FWF32
     fw_sample  = sample k | VF64 0 | VF32 0          (the raw type of the column)
     fw_size    = size_nat k | 8 | 4
     fw_decode t pl = VInt k (conv_int k (le_value pl)) | VF64 (le_value pl) | VF32 (le_value pl)
     fw_sentinel    = sentinel_of k | ErrUnableToCastToFloat64 | ErrUnableToCastToFloat32
   The oracles O stay abstract and are never consulted on these paths; floats are moved as bit
   patterns (no float32 <-> float64 conversion), so every NaN payload, signalling ones included,
   is covered without any premise.
   ------------------------------------------------------------------------------------------ *)

(* a payload of exactly the type's size is accepted: the column holds the value cast.To decodes
   from the bytes, a well-formed value whose binary form (little-endian image) is the payload,
   and re-emits exactly the base64 text of the bytes it accepted *)
Theorem C11_column_accepts : forall (O : oracles) (t : fwkind) (pl : str),
  bytes_ok pl -> length pl = fw_size t ->
  importFromBinary O (VStr (base64_encode pl)) (fw_sample t) = Ok (fw_decode t pl)
  /\ To O (fw_sample t) (VBytes (mkbytes pl)) = Ok (fw_decode t pl)
  /\ wf_gval (fw_decode t pl)
  /\ ToBinary O (fw_decode t pl) = Ok (VBytes (mkbytes pl))
  /\ exportToBinary O (fw_decode t pl) = Ok (VStr (base64_encode pl)).
Proof. exact column_accepts. Qed.
Print Assumptions C11_column_accepts.

(* a payload of any other length (the empty one included) is refused: cast.To answers the type's
   sentinel, the column wraps it in ErrUnsupportedImportType, and the value keeps nothing of the
   refused payload — whatever it held before, its raw value is nil afterwards *)
Theorem C11_column_rejects : forall (O : oracles) (t : fwkind) (pl : str),
  bytes_ok pl -> length pl <> fw_size t ->
  To O (fw_sample t) (VBytes (mkbytes pl)) = Err (fw_sentinel t)
  /\ importFromBinary O (VStr (base64_encode pl)) (fw_sample t) = Err ErrUnsupportedImportType
  /\ forall (n : nat) (raw : rv),
       value_import O n raw FBinary (fw_sample t) (RS (VStr (base64_encode pl)))
       = (CVal rnil FBinary (fw_sample t), Err ErrUnsupportedImportType).
Proof. exact column_rejects. Qed.
Print Assumptions C11_column_rejects.

(* the cell CVal raw FBinary T: Import of the JSON string holding the base64 text, then Export.
   Well sized: no error, the cell holds the decoded value and exports the same text.
   Otherwise: ErrUnsupportedImportType, the cell holds nil and exports nil.
   Hence: (no error and the same text comes back) iff the payload has the type's size. *)
Theorem C11_column_cell : forall (O : oracles) (t : fwkind) (pl : str) (n : nat) (raw : rv) (m : nat),
  bytes_ok pl ->
  let text := RS (VStr (base64_encode pl)) in
  let typ := fw_sample t in
  let after := value_import O n raw FBinary typ text in
  (length pl = fw_size t ->
     after = (CVal (RS (fw_decode t pl)) FBinary typ, Ok tt)
     /\ cell_export O (S m) (fst after) = Ok text)
  /\ (length pl <> fw_size t ->
     after = (CVal rnil FBinary typ, Err ErrUnsupportedImportType)
     /\ cell_export O (S m) (fst after) = Ok rnil)
  /\ ((snd after = Ok tt /\ cell_export O (S m) (fst after) = Ok text) <-> length pl = fw_size t).
Proof. exact column_cell. Qed.
Print Assumptions C11_column_cell.

(* Value.Import on a *value is value_import (one level of fuel for the interface dispatch) *)
Theorem C11_column_cell_import : forall (O : oracles) (n : nat) (raw : rv) (f : format) (typ : gval) (v : rv),
  cell_import O (S n) (CVal raw f typ) v = value_import O n raw f typ v.
Proof. exact cell_import_value. Qed.
Print Assumptions C11_column_cell_import.

(* bool: one byte, normalising — any non-zero byte is true and comes back as 01 *)
Theorem C11_column_bool : forall (O : oracles),
  (forall x, is_byte x ->
     importFromBinary O (VStr (base64_encode [x])) (VBool true) = Ok (VBool (negb (x =? 0))))
  /\ (forall v, exportToBinary O (VBool v) = Ok (VStr (base64_encode [if v then 1 else 0])))
  /\ (forall pl, bytes_ok pl -> length pl <> 1%nat ->
        importFromBinary O (VStr (base64_encode pl)) (VBool true) = Err ErrUnsupportedImportType
        /\ forall n raw,
             value_import O n raw FBinary (VBool true) (RS (VStr (base64_encode pl)))
             = (CVal rnil FBinary (VBool true), Err ErrUnsupportedImportType))
  /\ (forall x n raw m, is_byte x ->
        let after := value_import O n raw FBinary (VBool true) (RS (VStr (base64_encode [x]))) in
        after = (CVal (RS (VBool (negb (x =? 0)))) FBinary (VBool true), Ok tt)
        /\ cell_export O (S m) (fst after)
           = Ok (RS (VStr (base64_encode [if negb (x =? 0) then 1 else 0])))).
Proof. exact column_bool. Qed.
Print Assumptions C11_column_bool.

(* instances, evaluated (the oracles stay abstract: nothing on these paths consults them).
   A float32 signalling NaN, bytes 01 00 80 7f = bits 0x7f800001, text "AQCAfw==", through a
   binary(float32) cell that held 7 before: held bit for bit, re-emitted as the same text. *)
Example C11_column_snan32 : forall (O : oracles),
  base64_encode [1; 0; 128; 127] = [65; 81; 67; 65; 102; 119; 61; 61]
  /\ length [1; 0; 128; 127] = fw_size FWF32 /\ bytes_ok [1; 0; 128; 127]
  /\ fw_decode FWF32 [1; 0; 128; 127] = VF32 2139095041      (* 0x7f800001 *)
  /\ value_import O 0 (RS (VF32 7)) FBinary (VF32 0) (RS (VStr [65; 81; 67; 65; 102; 119; 61; 61]))
     = (CVal (RS (VF32 2139095041)) FBinary (VF32 0), Ok tt)
  /\ cell_export O 1 (CVal (RS (VF32 2139095041)) FBinary (VF32 0))
     = Ok (RS (VStr [65; 81; 67; 65; 102; 119; 61; 61])).
Proof.
  intros O. split; [vm_compute; reflexivity|]. split; [reflexivity|].
  split; [repeat constructor; unfold is_byte; lia|].
  split; [vm_compute; reflexivity|]. split; vm_compute; reflexivity.
Qed.

(* a 3-byte payload 01 02 03, text "AQID", is refused by a binary(int32) cell that held 7: the
   error is ErrUnsupportedImportType, the cell holds nil afterwards and exports nil *)
Example C11_column_int32_3bytes : forall (O : oracles),
  base64_encode [1; 2; 3] = [65; 81; 73; 68]
  /\ length [1; 2; 3] <> fw_size (FWInt KInt32) /\ bytes_ok [1; 2; 3]
  /\ value_import O 0 (RS (VInt KInt32 7)) FBinary (VInt KInt32 0) (RS (VStr [65; 81; 73; 68]))
     = (CVal rnil FBinary (VInt KInt32 0), Err ErrUnsupportedImportType)
  /\ cell_export O 1 (CVal rnil FBinary (VInt KInt32 0)) = Ok rnil.
Proof.
  intros O. split; [vm_compute; reflexivity|]. split; [discriminate|].
  split; [repeat constructor; unfold is_byte; lia|].
  split; vm_compute; reflexivity.
Qed.
