(* C11 — binary form of fixed-width values is a fixed little-endian bijection.
   Statements over the model regenerated from pkg/cast on every run (JL.gen.CastGen);
   proofs in JL.proofs.CastBinary. Nothing but statements, `exact`, and Print Assumptions. *)
From Coq Require Import ZArith List Bool Lia.
From JL.std Require Import GoBase GoFloat GoStrconv GoTime GoVal.
From JL.gen Require Import CastGen.
From JL.proofs Require Import CastBinary.
Import ListNotations.
Open Scope Z_scope.

(* the binary form of an integer of kind k is the little-endian image, of exactly the type's
   size, of its two's-complement pattern — for every value of the type *)
Theorem C11_encode_le : forall (O : oracles) (k : ikind) (z : Z),
  in_range k z ->
  ToBinary O (VInt k z) = Ok (VBytes (mkbytes (le_bytes (size_nat k) (z mod 2 ^ ibits k)))).
Proof. exact encode_le. Qed.
Print Assumptions C11_encode_le.

(* decoding the binary form yields the identical value *)
Theorem C11_decode_encode : forall (O : oracles) (k : ikind) (z : Z),
  in_range k z ->
  bind (ToBinary O (VInt k z)) (fun b => To O (sample k) b) = Ok (VInt k z).
Proof. exact decode_encode. Qed.
Print Assumptions C11_decode_encode.

(* every byte sequence of exactly the type's size decodes, and re-encodes to itself *)
Theorem C11_encode_decode : forall (O : oracles) (k : ikind) (b : gbytes),
  wf_gval (VBytes b) -> length (bdata b) = size_nat k ->
  exists z, To O (sample k) (VBytes b) = Ok (VInt k z) /\ in_range k z
            /\ ToBinary O (VInt k z) = Ok (VBytes (mkbytes (bdata b))).
Proof. exact encode_decode. Qed.
Print Assumptions C11_encode_decode.

(* a byte sequence of any other length (nil included) is rejected with the type's sentinel,
   which wraps the package's cast-failure sentinel *)
Theorem C11_length_reject : forall (O : oracles) (k : ikind) (b : gbytes),
  length (bdata b) <> size_nat k ->
  To O (sample k) (VBytes b) = Err (sentinel_of k)
  /\ cast_sentinel_wraps_root (sentinel_of k) = true.
Proof. intros O k b H. split; [exact (reject_length O k b H) | destruct k; reflexivity]. Qed.
Print Assumptions C11_length_reject.

(* floats: the bit pattern itself, every pattern (NaN payloads, both zeros, subnormals) *)
Theorem C11_float64 : forall (O : oracles) (x : Z), 0 <= x < 2 ^ 64 ->
  ToBinary O (VF64 x) = Ok (VBytes (mkbytes (le_bytes 8 x)))
  /\ bind (ToBinary O (VF64 x)) (fun b => To O (VF64 0) b) = Ok (VF64 x).
Proof. intros O x H. split; [exact (f64_encode O x) | exact (f64_roundtrip O x H)]. Qed.
Print Assumptions C11_float64.

Theorem C11_float32 : forall (O : oracles) (x : Z), 0 <= x < 2 ^ 32 ->
  ToBinary O (VF32 x) = Ok (VBytes (mkbytes (le_bytes 4 x)))
  /\ bind (ToBinary O (VF32 x)) (fun b => To O (VF32 0) b) = Ok (VF32 x).
Proof. intros O x H. split; [exact (f32_encode O x) | exact (f32_roundtrip O x H)]. Qed.
Print Assumptions C11_float32.

Theorem C11_float_bytes : forall (O : oracles) (b : gbytes), wf_gval (VBytes b) ->
  (length (bdata b) = 8%nat -> bind (To O (VF64 0) (VBytes b)) (ToBinary O) = Ok (VBytes (mkbytes (bdata b))))
  /\ (length (bdata b) = 4%nat -> bind (To O (VF32 0) (VBytes b)) (ToBinary O) = Ok (VBytes (mkbytes (bdata b))))
  /\ (length (bdata b) <> 8%nat -> To O (VF64 0) (VBytes b) = Err ErrUnableToCastToFloat64)
  /\ (length (bdata b) <> 4%nat -> To O (VF32 0) (VBytes b) = Err ErrUnableToCastToFloat32).
Proof.
  intros O b H. split; [|split; [|split]].
  - exact (f64_bytes_roundtrip O b H).
  - exact (f32_bytes_roundtrip O b H).
  - exact (f64_reject O b).
  - exact (f32_reject O b).
Qed.
Print Assumptions C11_float_bytes.

(* bool: one byte, 00/01 on the way out, (b <> 0) on the way in *)
Theorem C11_bool : forall (O : oracles),
  (forall v, ToBinary O (VBool v) = Ok (VBytes (mkbytes [if v then 1 else 0])))
  /\ (forall x, To O (VBool true) (VBytes (mkbytes [x])) = Ok (VBool (negb (x =? 0))))
  /\ (forall b, length (bdata b) <> 1%nat -> To O (VBool true) (VBytes b) = Err ErrUnableToCastToBool)
  /\ (forall v, bind (ToBinary O (VBool v)) (fun b => To O (VBool true) b) = Ok (VBool v)).
Proof.
  intros O. split; [|split; [|split]].
  - exact (bool_encode O).
  - exact (bool_decode O).
  - exact (bool_reject O).
  - exact (bool_roundtrip O).
Qed.
Print Assumptions C11_bool.

(* the premises are satisfiable: a concrete non-trivial instance *)
Example C11_nonvacuous : in_range KInt16 (-2) /\ wf_gval (VBytes (mkbytes [254; 255]))
  /\ length (bdata (mkbytes [254; 255])) = size_nat KInt16.
Proof.
  split; [unfold in_range; cbn; lia|].
  split; [|reflexivity].
  split; [|discriminate].
  cbn. repeat constructor; unfold is_byte; lia.
Qed.
