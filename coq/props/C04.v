(* C04 — a declared column is emitted in its format's JSON class or the line is rejected.
   Model: the export conversions REGENERATED from conversions_export.go and pkg/cast
   (JL.gen.ConvGen / CastGen), value.Export and the writer of JL.model.Template.
   [class_val f e]: e, the value handed to json.Marshal for a column of format f, is a Go string
   (string), a json.Number (numeric), a bool (boolean), the standard padded base64 text of some
   bytes (binary), a text accepted by — or produced with — the layout 2006-01-02 (date), the
   RFC 3339 rendering of a time (datetime), an int64 (timestamp).
   [member_class f txt]: txt is null or the JSON text json.Marshal gives such a value.
   PARTIAL: (1) columns of DECLARED SUB-ROWS are not enforced by the code (known finding F6);
   (2) a date / date-time whose year is outside 0..9999 is rendered with a 5-digit or negative
   year (known finding F7): class_val speaks of Format's output, whatever the year. *)
From Coq Require Import ZArith List Bool.
From JL.std Require Import GoBase GoVal GoTime GoBase64 GoJson.
From JL.gen Require Import CastGen ConvGen.
From JL.model Require Import Row RowRun Template TemplateJson.
From JL.proofs Require Import RowProofs TemplateOrder TemplateClass TemplatePipeline.
Import ListNotations.
Open Scope Z_scope.

(* the image of Export, for every format and EVERY raw value the cell may hold (including the
   uncast value NewValue keeps when its cast fails), whatever the raw type declared *)
Theorem C04_export_class : forall (O : oracles) f raw e,
  export_scalar O f raw = Ok (RS e) -> to_gval raw <> VNil -> e <> VNil -> class_val O f e.
Proof. exact export_class. Qed.
Print Assumptions C04_export_class.

(* the text written for a cell of a typed format: null or a value of the class; otherwise an error *)
Theorem C04_cell_text : forall (O : oracles) jfloat jother n raw f t txt,
  typed_format f = true ->
  marshal_cell O encode_string jfloat jother (S (S n)) (CVal raw f t) = Ok txt ->
  member_class O encode_string jfloat jother f txt.
Proof. intros. eapply cell_text_class; eauto. Qed.
Print Assumptions C04_cell_text.

(* one line through importer and exporter: every member emitted for a declared column of the
   output template is in the class of its format; a line that is not emitted is an error (no bytes:
   C01). Quantified over all input and output templates (every format x raw type) and all lines. *)
Theorem C04_line_class : forall (O : oracles) jfloat jother n ti to line out,
  Inv ti -> Inv to ->
  jl_pipeline O jfloat jother (S (S (S n))) ti to line = Ok out ->
  exists vs,
    let keys := push_all (row_l to) (push_all (row_l ti) (map fst (fst (parse_top line)))) in
    let emitted := filter (fun k => negb (format_eqb (fmt_of to k) FHidden)) keys in
    out = [123] ++ join_with [44] (map (fun kv => encode_string (fst kv) ++ [58] ++ snd kv) (combine emitted vs)) ++ [125] ++ [10]
    /\ Forall2 (fun k v => typed_format (fmt_of to k) = true ->
                           member_class O encode_string jfloat jother (fmt_of to k) v) emitted vs.
Proof. exact pipeline_members. Qed.
Print Assumptions C04_line_class.

(* the leaf texts: a json.Number is written only when it satisfies the number grammar; booleans and
   int64 as literals *)
Theorem C04_number_text : forall s txt, JL.std.GoJsonNum.marshal_number s = Some txt ->
  txt = [48] \/ JL.std.GoJsonNum.is_json_number txt = true.
Proof.
  intros s txt. unfold JL.std.GoJsonNum.marshal_number. destruct s as [|c s]; [intros [= <-]; now left|].
  destruct (JL.std.GoJsonNum.is_json_number (c :: s)) eqn:E; [intros [= <-]; now right | discriminate].
Qed.
Print Assumptions C04_number_text.

(* non-vacuity: a look-alike string under a numeric column is rejected, not leaked *)
Example C04_example : forall O jf jo,
  marshal_cell O encode_string jf jo 3 (CVal (RS (VStr [97; 98])) FNumeric VNil) = Err ErrNoWrap
  /\ marshal_cell O encode_string jf jo 3 (CVal (RS (VStr [49; 50])) FNumeric VNil) = Ok [49; 50]
  /\ marshal_cell O encode_string jf jo 3 (CVal (RS (VBool true)) FBinary VNil) = Ok [34; 65; 81; 61; 61; 34].
Proof. intros. repeat split. Qed.
