(* C19 — jl behaves as the library does; file and inline templates are equivalent.
   Model: JL.model.Jl — parseDescriptor (the regexp ^([^\(]+)(?:\(([^\)]+)\))?$ as a hand-written
   matcher, the two registries), parse (decoded row.yml -> template pair), createTemplateFromRow
   (inline JSON template -> template pair), createTemplate, run. [wf_cols]: the common domain of the
   two forms — unique names at each level, no ':' inside an input descriptor, sub-lists well
   formed (a column with an empty `columns:` list is a plain column in YAML, whereas `{}` inline is a
   sub-row; YAML must give both `input` and `output`, inline "f" means "f:f": both are written here as "in:out").
   PARTIAL: YAML text -> column list is yaml.v3's, flag parsing is cobra's, logging and the exit
   status are the process's: exercised by the jl stream on the real binary (three ways of giving the
   same columns, malformed templates, per-line data errors), not modelled. *)
From Coq Require Import ZArith List Bool.
From JL.std Require Import GoBase GoVal GoJson.
From JL.model Require Import Row Template TemplateJson Jl Stream.
From JL.proofs Require Import StreamProofs JlProofs.
Import ListNotations.
Open Scope Z_scope.

(* the same column definitions given as row.yml and as an inline template build the SAME pair of
   templates (hence byte-identical output and the same accept/reject decision for every input: the
   outcome of a line is a function of the templates, C07) *)
Theorem C19_equiv : forall (O : oracles) n cols ti to m,
  wf_cols cols ->
  (forall k c, alookup k (inline_cells cols) = Some c -> alookup k m = Some c) ->
  of_inline O n m (names cols) ti to = of_yaml O n cols ti to.
Proof. exact yaml_inline_equiv. Qed.
Print Assumptions C19_equiv.

(* an inline template replaces the file definition entirely: the file's columns never leak *)
Theorem C19_override : forall (O : oracles) file inline t,
  of_yaml O FUELJ file new_template new_template = Ok t ->
  inline <> [] -> inline <> [123; 125] ->
  create_template O file inline = of_inline_text O inline.
Proof. exact inline_overrides. Qed.
Print Assumptions C19_override.

(* what run writes to stdout is what the library streamer writes with the same templates: the bytes
   of the Writes of the streaming model (C07/C08) instantiated with the importer / exporter of the
   two templates; per-line errors contribute nothing and do not stop the run *)
Theorem C19_run_is_stream : forall (O : oracles) jfloat jother ti to lines,
  run_lines O jfloat jother ti to lines
  = written (flat_map (line_events crow (jl_import O ti) (jl_export O jfloat jother to)) lines).
Proof. exact run_is_stream. Qed.
Print Assumptions C19_run_is_stream.

(* descriptors: unknown names silently mean auto / no raw type; a descriptor that does not match means auto *)
Example C19_descriptors :
  parse_descriptor [110;117;109;101;114;105;99;40;105;110;116;49;54;41] = (FNumeric, VInt KInt16 0)   (* numeric(int16) *)
  /\ parse_descriptor [115;116;114;105;110;103] = (FString, VNil)                                      (* string *)
  /\ parse_descriptor [115;116;114;105;110;103;40] = (FAuto, VNil)                                     (* string(  : no match *)
  /\ parse_descriptor [110;117;109;101;114;105;99;40;117;110;105;116;49;54;41] = (FNumeric, VNil)      (* numeric(unit16) *)
  /\ parse_descriptor [] = (FAuto, VNil).
Proof. repeat split. Qed.

Example C19_example : forall O,
  let cols := [Col [97] [115;116;114;105;110;103] [110;117;109;101;114;105;99] [];
               Col [98] [97;117;116;111] [97;117;116;111] [Col [99] [100;97;116;101] [100;97;116;101] []]] in
  wf_cols cols
  /\ of_inline O 10 (inline_cells cols) (names cols) new_template new_template = of_yaml O 10 cols new_template new_template.
Proof.
  intros O cols. assert (W : wf_cols cols).
  { split; [repeat constructor; cbn; intuition discriminate|].
    repeat constructor; cbn; intuition (try discriminate); repeat constructor; cbn; intuition discriminate. }
  split; [exact W | apply yaml_inline_equiv; auto].
Qed.
