(* C16 (JSON core) — a line is accepted by row.UnmarshalJSON iff it is exactly one valid JSON
   object. The template/importer part (declared columns convert, nil row on error) is stated on
   top of this by the row model. *)
From Coq Require Import ZArith List Bool Lia.
From JL.std Require Import GoBase GoStrconv GoJsonNum GoJson GoJsonStrict GoJsonMarshal.
From JL.std Require Import GoVal.
From JL.model Require Import Row Template TemplateJson.
From JL.proofs Require Import JsonParseS JsonProofs RowSafe AcceptIff.
Import ListNotations.
Open Scope Z_scope.

(* accepted <=> one JSON object, for every line on which encoding/json substitutes no U+FFFD *)
Theorem C16_unmarshal_iff :
  forall b, no_substitution b -> (snd (parse_top b) = true <-> is_json_object b = true).
Proof. exact parse_iff. Qed.
Print Assumptions C16_unmarshal_iff.

(* <= holds for every line, with the members delivered exactly and in order *)
Theorem C16_unmarshal_complete :
  forall b m, spells b (JObj m) -> parse_top b = (m, true).
Proof. exact parse_complete. Qed.
Print Assumptions C16_unmarshal_complete.

(* => for lines read without repair *)
Theorem C16_unmarshal_sound :
  forall b m, parse_top_strict b = (m, true) -> spells b (JObj m).
Proof. exact parse_sound_strict. Qed.
Print Assumptions C16_unmarshal_sound.

(* a rejected line is not a JSON object *)
Theorem C16_reject :
  forall b, snd (parse_top b) = false -> is_json_object b = false.
Proof. exact reject_not_object. Qed.
Print Assumptions C16_reject.

(* trailing content after the object rejects; a truncated object rejects *)
Theorem C16_trailing_rejects :
  forall b m c r, spells b (JObj m) -> is_ws c = false -> snd (parse_top (b ++ c :: r)) = false.
Proof. exact trailing_rejects. Qed.
Print Assumptions C16_trailing_rejects.

Theorem C16_truncated_rejects :
  forall b m n, spells b (JObj m) -> (n < length (skip_trailing_ws b))%nat -> snd (parse_top (firstn n b)) = false.
Proof. exact truncated_rejects. Qed.
Print Assumptions C16_truncated_rejects.

(* ---- importer.GetRow (JL.model.Template.get_row over the GoJson reader) ---- *)

(* a row is returned only for a line row.UnmarshalJSON accepts; without U+FFFD repair such a line
   is exactly one JSON object *)
Theorem C16_template_accept_sound :
  forall (O : oracles) n ti line row,
    get_row O parse_top_rv n ti line = Ok row ->
    snd (parse_top line) = true /\ (no_substitution line -> is_json_object line = true).
Proof.
  intros O n ti line row H. split; [eapply get_row_accepts; eauto | intros Hns; eapply accept_sound; eauto].
Qed.
Print Assumptions C16_template_accept_sound.

(* one JSON object is accepted, unless the import of a member into the cell stored under its key
   (a declared column) fails: then that error is returned and no row. Stated for every fuel, for
   the outcomes other than Fuel; Panic is excluded for a well-formed template *)
Theorem C16_template_accept_complete :
  forall (O : oracles) n ti line,
    wf_crow ti -> is_json_object line = true ->
    get_row O parse_top_rv n ti line = Fuel
    \/ (exists row, get_row O parse_top_rv n ti line = Ok row)
    \/ (exists e r0 r', clone_row O n ti = Ok r0
                        /\ unmarshal_members O n (line_members line) r0 = (r', Err e)
                        /\ get_row O parse_top_rv n ti line = Err e).
Proof. exact accept_complete. Qed.
Print Assumptions C16_template_accept_complete.

(* the same without the Fuel alternative: fuel that lets CreateRowEmpty clone the template is enough *)
Theorem C16_template_accept_complete_fueled :
  forall (O : oracles) n ti line,
    wf_crow ti -> clone_row O (S n) ti <> Fuel -> is_json_object line = true ->
    (exists row, get_row O parse_top_rv (S n) ti line = Ok row)
    \/ (exists e r0 r', clone_row O (S n) ti = Ok r0
                        /\ unmarshal_members O (S n) (line_members line) r0 = (r', Err e)
                        /\ get_row O parse_top_rv (S n) ti line = Err e).
Proof. exact accept_complete_fueled. Qed.
Print Assumptions C16_template_accept_complete_fueled.

(* the failing member, exhibited *)
Theorem C16_template_reject_member :
  forall (O : oracles) n ti line,
    wf_crow ti -> is_json_object line = true ->
    get_row O parse_top_rv n ti line = Fuel
    \/ (exists row, get_row O parse_top_rv n ti line = Ok row)
    \/ (exists e k v c c', In (k, v) (line_members line) /\ cell_import O n c v = (c', Err e)
                           /\ get_row O parse_top_rv n ti line = Err e).
Proof. exact accept_complete_member. Qed.
Print Assumptions C16_template_reject_member.

(* a failing GetRow returns no row (by its type) and the pipeline writes nothing for the line *)
Theorem C16_no_partial :
  forall (O : oracles) (jfloat : bool -> Z -> option str) (jother : Z -> option str) n ti to line,
    (forall row, get_row O parse_top_rv n ti line <> Ok row) ->
    pipeline O encode_string parse_top_rv jfloat jother n ti to line
    = match get_row O parse_top_rv n ti line with Ok _ => Fuel | Err e => Err e | Panic => Panic | Fuel => Fuel end
    /\ forall out, pipeline O encode_string parse_top_rv jfloat jother n ti to line <> Ok out.
Proof. intros O jfloat jother. exact (no_partial O jfloat jother). Qed.
Print Assumptions C16_no_partial.

Theorem C16_reject_no_row :
  forall (O : oracles) n ti line,
    snd (parse_top line) = false -> forall row, get_row O parse_top_rv n ti line <> Ok row.
Proof. exact reject_no_row. Qed.
Print Assumptions C16_reject_no_row.
