(* C16 (JSON core) — a line is accepted by row.UnmarshalJSON iff it is exactly one valid JSON
   object. The template/importer part (declared columns convert, nil row on error) is stated on
   top of this by the row model. *)
From Coq Require Import ZArith List Bool Lia.
From JL.std Require Import GoBase GoStrconv GoJsonNum GoJson GoJsonStrict GoJsonMarshal.
From JL.proofs Require Import JsonParseS JsonProofs.
Import ListNotations.
Open Scope Z_scope.

(* accepted <=> one JSON object, for every line on which encoding/json substitutes no U+FFFD *)
Theorem C16_unmarshal_iff :
  forall b, no_substitution b -> (snd (parse_top b) = true <-> is_json_object b = true).
Proof. exact parse_iff. Qed.
Print Assumptions C16_unmarshal_iff.

(* <= holds for every line, with the members delivered exactly and in order *)
Theorem C16_unmarshal_complete :
  forall b m, spells b (JObj m) -> parse_top b = (m, true).
Proof. exact parse_complete. Qed.
Print Assumptions C16_unmarshal_complete.

(* => for lines read without repair *)
Theorem C16_unmarshal_sound :
  forall b m, parse_top_strict b = (m, true) -> spells b (JObj m).
Proof. exact parse_sound_strict. Qed.
Print Assumptions C16_unmarshal_sound.

(* a rejected line is not a JSON object *)
Theorem C16_reject :
  forall b, snd (parse_top b) = false -> is_json_object b = false.
Proof. exact reject_not_object. Qed.
Print Assumptions C16_reject.

(* trailing content after the object rejects; a truncated object rejects *)
Theorem C16_trailing_rejects :
  forall b m c r, spells b (JObj m) -> is_ws c = false -> snd (parse_top (b ++ c :: r)) = false.
Proof. exact trailing_rejects. Qed.
Print Assumptions C16_trailing_rejects.

Theorem C16_truncated_rejects :
  forall b m n, spells b (JObj m) -> (n < length (skip_trailing_ws b))%nat -> snd (parse_top (firstn n b)) = false.
Proof. exact truncated_rejects. Qed.
Print Assumptions C16_truncated_rejects.
