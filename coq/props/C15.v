(* C15 — templates, the rows they create and clones never alias each other.
   Model: JL.model.Heap — rows map keys to ids of Value OBJECTS, a heap holds each object's
   content; Import overwrites an object in place ([mutate]); Set, SetValue of a new Value,
   CreateRow's fills, CloneRow / CreateRowEmpty and new keys bind a NEW object ([store_fresh]).
   A template is its prototype row. [owned W]: every id held by a row is allocated and no two
   rows (prototypes and live rows alike) hold the same object. [view W x]: row x as the pure
   model sees it (keys with the contents of their objects). [target o]: the one row an
   operation may write; creation operations have none (they only fill the row they create).
   Sharing BELOW the top level of a row (a nested row inside an Auto cell is shared by
   CloneRow) is outside the model, as the property restricts clones to top-level changes.
   HShare (dst.SetValue(k2, src.GetValue(k)): handing one row's Value object to another)
   is the only way to share an object and is excluded by [no_sharing]: example below.
   REFINEMENT (proofs/HeapRefine.v, theorems C15_refines_* below): after a step the view of the
   row the step writes or creates is the result of the pure function of Row.v / Template.v
   applied to the view before, up to the representation of the association list
   ([crow_equiv a b]: same key list [row_l], and [get_value k] equal for every k). Invariants:
   [sound W] = [owned W] /\ [allocated W] (every id a row holds has a content) /\ [unshared W]
   (no row binds two keys to one object); [good W] = [sound W] /\ [rows_inv W] (every view
   satisfies the row invariant [Inv] of RowProofs.v). [good] holds in the empty world and is
   kept by every step without explicit sharing (C15_good_step, C15_good_reachable).
   [pure_result O p W o]: the row index an operation writes / creates and its content as the pure
   model computes it from the views before (None: no effect). C15_refines_step: refinement and
   frame in one statement — the view of every existing row after a step is determined by the
   pure model. *)
From Coq Require Import ZArith List Bool.
From JL.std Require Import GoBase GoVal.
From JL.model Require Import Row Template Heap.
From JL.proofs Require Import RowProofs HeapProofs HeapRefine.
Import ListNotations.

(* one operation: ownership is kept, and every row other than the target is exactly as before *)
Theorem C15_step : forall (O : oracles) parse_top W o x,
  owned W -> no_sharing o -> (x < length (rows W))%nat -> target o <> Some x ->
  owned (hstep O parse_top W o) /\ view (hstep O parse_top W o) x = view W x.
Proof. exact hstep_owned_frame. Qed.
Print Assumptions C15_step.

(* every interleaving of: builder calls, CreateRowEmpty, CreateRow of a map / slice / JSON text / row
   (what Exporter.Export does), UnmarshalJSON of a line (accepted or rejected part-way), Set,
   ImportAtKey, ImportAtPath — on any of the templates and rows of the world: a row or template that
   no operation of the history targets is unchanged, whatever happened to the others *)
Theorem C15_frame : forall (O : oracles) parse_top ops W x,
  owned W -> Forall no_sharing ops -> (x < length (rows W))%nat ->
  Forall (fun o => target o <> Some x) ops ->
  owned (hrun O parse_top ops W) /\ view (hrun O parse_top ops W) x = view W x.
Proof. exact hrun_owned_frame. Qed.
Print Assumptions C15_frame.

(* in particular from the empty world: ownership holds in every reachable world *)
Theorem C15_separation : forall (O : oracles) parse_top ops,
  Forall no_sharing ops -> owned (hrun O parse_top ops empty_world).
Proof. intros O p ops H. apply hrun_owned; [apply owned_empty | exact H]. Qed.
Print Assumptions C15_separation.

(* sharing is explicit: handing a row's Value object to another row does create interference *)
Example C15_sharing_is_explicit : forall O p,
  let W := hrun O p [HNewTemplate; HCreateEmpty 0; HCreateEmpty 0; HSet 1 [97] (RS (VInt KInt 1));
                     HShare 1 [97] 2 [97]] empty_world in
  view (hstep O p W (HImportAtKey 2 [97] (RS (VInt KInt 5)))) 1 <> view W 1.
Proof. intros O p. vm_compute. discriminate. Qed.

(* non-vacuity of the frame theorem: the same history without the sharing step *)
Example C15_example : forall O p,
  let W := hrun O p [HNewTemplate; HWith 0 [97] FNumeric VNil; HCreateEmpty 0; HCreateEmpty 0;
                     HSet 1 [97] (RS (VInt KInt 1))] empty_world in
  view (hstep O p W (HImportAtKey 2 [97] (RS (VInt KInt 5)))) 1 = view W 1
  /\ view (hstep O p W (HImportAtKey 2 [97] (RS (VInt KInt 5)))) 0 = view W 0.
Proof. intros O p. vm_compute. split; reflexivity. Qed.

(* ---------- refinement: the store model computes what the pure model computes ---------- *)
(* the two primitive effects are the pure store (for a bound key: set_cell) *)
Theorem C15_refines_store_fresh : forall W rid k c v,
  sound W -> view W rid = Some v ->
  exists v', view (store_fresh W rid k c) rid = Some v' /\ crow_equiv v' (store k c v).
Proof. exact store_fresh_refines. Qed.
Print Assumptions C15_refines_store_fresh.

Theorem C15_refines_mutate : forall W rid k c v,
  sound W -> view W rid = Some v -> row_has k v = true ->
  exists v', view (mutate W rid k c) rid = Some v' /\ crow_equiv v' (set_cell k c v).
Proof. exact mutate_refines_set_cell. Qed.
Print Assumptions C15_refines_mutate.

(* the row created from a pure row is that row *)
Theorem C15_refines_new_row_from : forall W r,
  sound W -> Inv r ->
  exists v', view (new_row_from W r) (length (rows W)) = Some v' /\ crow_equiv v' r.
Proof. exact new_row_from_refines. Qed.
Print Assumptions C15_refines_new_row_from.

(* one statement per operation of hstep *)
Theorem C15_refines_with : forall (O : oracles) parse_top W t name f typ v,
  sound W -> view W t = Some v ->
  exists v', view (hstep O parse_top W (HWith t name f typ)) t = Some v'
             /\ crow_equiv v' (with_col name f typ v).
Proof. exact refines_HWith. Qed.
Print Assumptions C15_refines_with.

Theorem C15_refines_with_row : forall (O : oracles) parse_top W t name sub v sv t',
  sound W -> view W t = Some v -> view W sub = Some sv -> with_row O FUELH name sv v = Ok t' ->
  exists v', view (hstep O parse_top W (HWithRow t name sub)) t = Some v' /\ crow_equiv v' t'.
Proof. exact refines_HWithRow. Qed.
Print Assumptions C15_refines_with_row.

Theorem C15_refines_create_empty : forall (O : oracles) parse_top W t tv r,
  sound W -> view W t = Some tv -> Inv tv -> clone_row O FUELH tv = Ok r ->
  exists v', view (hstep O parse_top W (HCreateEmpty t)) (length (rows W)) = Some v' /\ crow_equiv v' r.
Proof. exact refines_HCreateEmpty. Qed.
Print Assumptions C15_refines_create_empty.

Theorem C15_refines_create : forall (O : oracles) parse_top W t input tv r,
  sound W -> view W t = Some tv -> Inv tv -> create_row O parse_top FUELH tv input = Ok r ->
  exists v', view (hstep O parse_top W (HCreate t input)) (length (rows W)) = Some v' /\ crow_equiv v' r.
Proof. exact refines_HCreate. Qed.
Print Assumptions C15_refines_create.

Theorem C15_refines_create_from_row : forall (O : oracles) parse_top W t src tv sv r,
  sound W -> view W t = Some tv -> view W src = Some sv -> Inv tv ->
  create_row O parse_top FUELH tv (RV (CRow sv)) = Ok r ->
  exists v', view (hstep O parse_top W (HCreateFromRow t src)) (length (rows W)) = Some v' /\ crow_equiv v' r.
Proof. exact refines_HCreateFromRow. Qed.
Print Assumptions C15_refines_create_from_row.

Theorem C15_refines_set : forall (O : oracles) parse_top W r k x v r',
  sound W -> view W r = Some v -> row_set O k x v = Ok r' ->
  exists v', view (hstep O parse_top W (HSet r k x)) r = Some v' /\ crow_equiv v' r'.
Proof. exact refines_HSet. Qed.
Print Assumptions C15_refines_set.

Theorem C15_refines_import_at_key : forall (O : oracles) parse_top W r k x v,
  sound W -> view W r = Some v ->
  exists v', view (hstep O parse_top W (HImportAtKey r k x)) r = Some v'
             /\ crow_equiv v' (fst (import_at_key O FUELH k x v)).
Proof. exact refines_HImportAtKey. Qed.
Print Assumptions C15_refines_import_at_key.

Theorem C15_refines_import_at_path : forall (O : oracles) parse_top W r p x v,
  sound W -> view W r = Some v ->
  exists v', view (hstep O parse_top W (HImportAtPath r p x)) r = Some v'
             /\ crow_equiv v' (fst (import_at_path O FUELH p x v)).
Proof. exact refines_HImportAtPath. Qed.
Print Assumptions C15_refines_import_at_path.

Theorem C15_refines_unmarshal : forall (O : oracles) parse_top W r text v,
  sound W -> view W r = Some v -> Inv v ->
  exists v', view (hstep O parse_top W (HUnmarshal r text)) r = Some v'
             /\ crow_equiv v' (fst (unmarshal_text O parse_top FUELH text v)).
Proof. exact refines_HUnmarshal. Qed.
Print Assumptions C15_refines_unmarshal.

(* the invariants hold in every world reachable without explicit sharing *)
Theorem C15_good_step : forall (O : oracles) parse_top W o,
  good W -> no_sharing o -> good (hstep O parse_top W o).
Proof. exact hstep_good. Qed.
Print Assumptions C15_good_step.

Theorem C15_good_reachable : forall (O : oracles) parse_top ops,
  Forall no_sharing ops -> good (hrun O parse_top ops empty_world).
Proof. intros O p ops H. apply hrun_good; [apply good_empty | exact H]. Qed.
Print Assumptions C15_good_reachable.

(* refinement and frame in one statement: after a step the view of every row that existed is
   the pure result for the row the operation writes, and the view before for every other row;
   when the pure model computes no result (missing row, failed creation, failed Set) nothing
   changes at all; the row a creation operation adds is the pure result *)
Theorem C15_refines_step : forall (O : oracles) parse_top W o x,
  good W -> no_sharing o -> (x < length (rows W))%nat ->
  match pure_result O parse_top W o with
  | Some (y, r) =>
      if Nat.eqb y x then exists v', view (hstep O parse_top W o) x = Some v' /\ crow_equiv v' r
      else view (hstep O parse_top W o) x = view W x
  | None => view (hstep O parse_top W o) x = view W x
  end.
Proof. exact hstep_view. Qed.
Print Assumptions C15_refines_step.

Theorem C15_refines_result : forall (O : oracles) parse_top W o x r,
  good W -> pure_result O parse_top W o = Some (x, r) ->
  exists v', view (hstep O parse_top W o) x = Some v' /\ crow_equiv v' r.
Proof. exact hstep_refines. Qed.
Print Assumptions C15_refines_result.

Theorem C15_refines_no_result : forall (O : oracles) parse_top W o,
  no_sharing o -> pure_result O parse_top W o = None -> hstep O parse_top W o = W.
Proof. exact hstep_unchanged. Qed.
Print Assumptions C15_refines_no_result.

(* non-vacuity: in a reachable world with a template, two rows and a set key, the pure model
   computes a result for ImportAtKey on row 2 and for CreateRowEmpty, and the views agree *)
Example C15_refines_example : forall O p,
  let W := hrun O p [HNewTemplate; HWith 0 [97] FNumeric VNil; HCreateEmpty 0; HCreateEmpty 0;
                     HSet 1 [97] (RS (VInt KInt 1))] empty_world in
  good W
  /\ (exists r, pure_result O p W (HImportAtKey 2 [97] (RS (VInt KInt 5))) = Some (2%nat, r)
               /\ view (hstep O p W (HImportAtKey 2 [97] (RS (VInt KInt 5)))) 2 = Some r)
  /\ (exists r, pure_result O p W (HCreateEmpty 0) = Some (3%nat, r)
               /\ view (hstep O p W (HCreateEmpty 0)) 3 = Some r).
Proof.
  intros O p. split; [|split].
  - apply hrun_good; [apply good_empty | repeat constructor].
  - eexists. split; vm_compute; reflexivity.
  - eexists. split; vm_compute; reflexivity.
Qed.
