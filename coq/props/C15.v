(* C15 — templates, the rows they create and clones never alias each other.
   Model: JL.model.Heap — rows map keys to ids of Value OBJECTS, a heap holds each object's
   content; Import overwrites an object in place ([mutate]); Set, SetValue of a new Value,
   CreateRow's fills, CloneRow / CreateRowEmpty and new keys bind a NEW object ([store_fresh]).
   A template is its prototype row. [owned W]: every id held by a row is allocated and no two
   rows (prototypes and live rows alike) hold the same object. [view W x]: row x as the pure
   model sees it (keys with the contents of their objects). [target o]: the one row an
   operation may write; creation operations have none (they only fill the row they create).
   Sharing BELOW the top level of a row (a nested row inside an Auto cell is shared by
   CloneRow) is outside the model, as the property restricts clones to top-level changes.
   HShare (dst.SetValue(k2, src.GetValue(k)): handing one row's Value object to another)
   is the only way to share an object and is excluded by [no_sharing]: example below. *)
From Coq Require Import ZArith List Bool.
From JL.std Require Import GoBase GoVal.
From JL.model Require Import Row Template Heap.
From JL.proofs Require Import HeapProofs.
Import ListNotations.

(* one operation: ownership is kept, and every row other than the target is exactly as before *)
Theorem C15_step : forall (O : oracles) parse_top W o x,
  owned W -> no_sharing o -> (x < length (rows W))%nat -> target o <> Some x ->
  owned (hstep O parse_top W o) /\ view (hstep O parse_top W o) x = view W x.
Proof. exact hstep_owned_frame. Qed.
Print Assumptions C15_step.

(* every interleaving of: builder calls, CreateRowEmpty, CreateRow of a map / slice / JSON text / row
   (what Exporter.Export does), UnmarshalJSON of a line (accepted or rejected part-way), Set,
   ImportAtKey, ImportAtPath — on any of the templates and rows of the world: a row or template that
   no operation of the history targets is unchanged, whatever happened to the others *)
Theorem C15_frame : forall (O : oracles) parse_top ops W x,
  owned W -> Forall no_sharing ops -> (x < length (rows W))%nat ->
  Forall (fun o => target o <> Some x) ops ->
  owned (hrun O parse_top ops W) /\ view (hrun O parse_top ops W) x = view W x.
Proof. exact hrun_owned_frame. Qed.
Print Assumptions C15_frame.

(* in particular from the empty world: ownership holds in every reachable world *)
Theorem C15_separation : forall (O : oracles) parse_top ops,
  Forall no_sharing ops -> owned (hrun O parse_top ops empty_world).
Proof. intros O p ops H. apply hrun_owned; [apply owned_empty | exact H]. Qed.
Print Assumptions C15_separation.

(* sharing is explicit: handing a row's Value object to another row does create interference *)
Example C15_sharing_is_explicit : forall O p,
  let W := hrun O p [HNewTemplate; HCreateEmpty 0; HCreateEmpty 0; HSet 1 [97] (RS (VInt KInt 1));
                     HShare 1 [97] 2 [97]] empty_world in
  view (hstep O p W (HImportAtKey 2 [97] (RS (VInt KInt 5)))) 1 <> view W 1.
Proof. intros O p. vm_compute. discriminate. Qed.

(* non-vacuity of the frame theorem: the same history without the sharing step *)
Example C15_example : forall O p,
  let W := hrun O p [HNewTemplate; HWith 0 [97] FNumeric VNil; HCreateEmpty 0; HCreateEmpty 0;
                     HSet 1 [97] (RS (VInt KInt 1))] empty_world in
  view (hstep O p W (HImportAtKey 2 [97] (RS (VInt KInt 5)))) 1 = view W 1
  /\ view (hstep O p W (HImportAtKey 2 [97] (RS (VInt KInt 5)))) 0 = view W 0.
Proof. intros O p. vm_compute. split; reflexivity. Qed.
