(* C06 — a row behaves as a map that remembers first-insertion order.
   Model: JL.model.Row (hand model of row.go, tied to the code by the rowops stream);
   histories: JL.model.RowRun.rop / step; proofs: JL.proofs.RowProofs.
   [Inv r]: the key list has no duplicate and lists exactly the keys of the map.
   [abs r]: the row read as an association list in key-list order.
   [store k c r]: what every single-key mutator does (push the key if absent, bind it). *)
From Coq Require Import ZArith List Bool.
From JL.std Require Import GoBase GoVal.
From JL.model Require Import Row RowRun.
From JL.model Require Import Template.
From JL.proofs Require Import RowProofs TemplateOrder.
Import ListNotations.
Open Scope Z_scope.

(* every history of Set, SetAtIndex, SetValue, SetValueAtIndex, ImportAtKey, ImportAtIndex,
   Import (slice / map in any iteration order), ImportAtPath, UnmarshalJSON and CloneRow, with
   arbitrary keys, indexes, paths and values, successful or failing, keeps the invariant *)
Theorem C06_inv : forall (O : oracles) (ops : list rop), Inv (run O ops new_row).
Proof. intros O ops. apply run_Inv, Inv_new. Qed.
Print Assumptions C06_inv.

(* a key is never moved, duplicated or dropped: the key list only grows at its end *)
Theorem C06_order_stable : forall (O : oracles) (ops more : list rop),
  exists ext, row_l (run O (ops ++ more) new_row) = row_l (run O ops new_row) ++ ext.
Proof.
  intros O ops more. unfold run. rewrite fold_left_app. apply (run_keys_grow O more), C06_inv.
Qed.
Print Assumptions C06_order_stable.

(* refinement to the abstract insertion-ordered map: a store replaces in place or appends *)
Theorem C06_refines : forall k c r, Inv r -> abs (store k c r) = astore k c (abs r).
Proof. exact abs_store. Qed.
Print Assumptions C06_refines.

(* every mutator other than CloneRow is a sequence of stores *)
Theorem C06_mutators_store : forall (O : oracles) r o, o <> OClone -> stores r (fst (step O r o)).
Proof. exact step_stores. Qed.
Print Assumptions C06_mutators_store.

(* CloneRow keeps the key list *)
Theorem C06_clone_order : forall (O : oracles) n r r', Inv r -> clone_row O n r = Ok r' -> Inv r' /\ row_l r' = row_l r.
Proof. exact clone_row_spec. Qed.
Print Assumptions C06_clone_order.

(* lookups return the most recently stored value and leave the other keys alone *)
Theorem C06_lookup_latest : forall k c r,
  get_value k (store k c r) = Some c /\ forall k', k <> k' -> get_value k' (store k c r) = get_value k' r.
Proof. intros k c r. split; [apply get_store_same | intros k'; apply get_store_other]. Qed.
Print Assumptions C06_lookup_latest.

(* length = number of distinct keys; Has agrees with the key list *)
Theorem C06_len : forall r, Inv r ->
  row_len r = Z.of_nat (length (row_l r)) /\ NoDup (row_l r) /\ (forall k, row_has k r = true <-> In k (row_l r)).
Proof. exact len_distinct. Qed.
Print Assumptions C06_len.

(* in-range positional access finds the value of the key at that position *)
Theorem C06_index_in_range : forall r i, Inv r -> 0 <= i < row_len r ->
  exists c, get_value_at_index i r = Some c /\ get_value (nth (Z.to_nat i) (row_l r) []) r = Some c.
Proof. exact index_in_range. Qed.
Print Assumptions C06_index_in_range.

(* iteration enumerates the key list, each key with the value it maps to *)
Theorem C06_iter_order : forall r,
  map fst (iter_values r) = row_l r /\ forall k v, In (k, v) (iter_values r) -> v = get_value k r.
Proof. intros r. split; [apply iter_order | apply iter_lookup]. Qed.
Print Assumptions C06_iter_order.

(* serialisation follows the same order: row.MarshalJSON emits the visible keys in key-list order *)
Theorem C06_marshal_order : forall enc_string (rec : cell -> res str) m l0 l ss,
  marshal_row_members enc_string rec m l = Ok ss ->
  exists vs, length vs = length (filter (visible (MkRow m l0)) l)
             /\ ss = zip_members enc_string (filter (visible (MkRow m l0)) l) vs.
Proof. intros. eapply marshal_row_members_order; eauto. Qed.
Print Assumptions C06_marshal_order.

(* non-vacuity: a history that inserts, replaces and re-imports *)
Example C06_example : forall O,
  row_l (run O [OSet [98] (RS (VInt KInt 1)); OSet [97] (RS (VInt KInt 2)); OSet [98] (RS (VInt KInt 3));
                OImportAtKey [97] (RS (VStr [120])); OSetAtIndex 7 (RS VNil)] new_row)
  = [[98]; [97]; []].
Proof. intros O. reflexivity. Qed.
