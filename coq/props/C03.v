(* C03 — templates fix key order and presence; no level is ever re-sorted.
   Model: JL.model.Template over JL.model.Row with the text layer of JL.std.GoJson
   (jl_pipeline = importer.GetRow then exporter.Export of one line). [push_all l ks]: the list l
   followed by the keys of ks that are not in it, each at its first appearance.
   [fmt_of t k]: the format of column k in template t (auto for an undeclared key).
   PARTIAL: the statement inside DECLARED SUB-ROWS is false of the code (known finding F6:
   CloneRow flattens a declared sub-row to a Go map, which json.Marshal sorts); it is reported
   by the check as KNOWN-FINDING and is not claimed here. *)
From Coq Require Import ZArith List Bool.
From JL.std Require Import GoBase GoVal GoJson.
From JL.model Require Import Row RowRun Template TemplateJson Jl.
From JL.proofs Require Import RowProofs TemplateOrder TemplateClass TemplatePipeline JlProofs JlOrder.
Import ListNotations.
Open Scope Z_scope.

(* the emitted object lists: the output template's visible columns in declaration order, exactly once
   each, then the columns of the input template it does not declare, then the undeclared keys of the line in
   order of first appearance; hidden columns never appear. (With one column list for both templates, as jl
   builds them, the middle group is empty: corollary below.) *)
Theorem C03_toplevel_order : forall (O : oracles) jfloat jother n ti to line out,
  Inv ti -> Inv to ->
  jl_pipeline O jfloat jother (S (S (S n))) ti to line = Ok out ->
  exists vs,
    let keys := push_all (row_l to) (push_all (row_l ti) (map fst (fst (parse_top line)))) in
    let emitted := filter (fun k => negb (format_eqb (fmt_of to k) FHidden)) keys in
    out = [123] ++ join_with [44] (map (fun kv => encode_string (fst kv) ++ [58] ++ snd kv) (combine emitted vs)) ++ [125] ++ [10]
    /\ length vs = length emitted.
Proof.
  intros O jf jo n ti to line out Hti Hto H.
  destruct (pipeline_members O jf jo n ti to line out Hti Hto H) as [vs [H1 H2]].
  exists vs. cbv zeta in *. split; [exact H1|]. clear H1. induction H2; cbn; auto.
Qed.
Print Assumptions C03_toplevel_order.

Theorem C03_same_columns : forall l ks,
  push_all l (push_all l ks) = l ++ first_new l ks
  /\ NoDup (first_new l ks)
  /\ (forall k, In k (first_new l ks) <-> In k ks /\ ~ In k l).
Proof.
  intros l ks. rewrite push_all_twice, push_all_first_new.
  split; [reflexivity|]. split; [apply first_new_NoDup | intros k; apply first_new_spec].
Qed.
Print Assumptions C03_same_columns.

(* the result never depends on the input order of the declared keys *)
Theorem C03_declared_order_irrelevant : forall l ks1 ks2,
  filter (fun k => negb (mem k l)) ks1 = filter (fun k => negb (mem k l)) ks2 ->
  push_all l ks1 = push_all l ks2.
Proof. exact declared_order_irrelevant. Qed.
Print Assumptions C03_declared_order_irrelevant.

(* nor on map iteration: CreateRow(map) in any iteration order keeps the declared columns in
   declaration order and only appends undeclared keys *)
Theorem C03_map_input : forall (O : oracles) kvs r r',
  Inv r -> create_from_map O kvs r = Ok r' -> Inv r' /\ row_l r' = push_all (row_l r) (map fst kvs).
Proof. exact create_from_map_l. Qed.
Print Assumptions C03_map_input.

(* templates list their columns in declaration order *)
Theorem C03_template_columns : forall name f typ t,
  Inv t -> Inv (with_col name f typ t) /\ row_l (with_col name f typ t) = push_key (row_l t) name.
Proof. intros. split; [now apply with_col_Inv | now apply with_col_l]. Qed.
Print Assumptions C03_template_columns.

(* an object found under an undeclared key or an auto column keeps its input member order: the
   reader builds a row listing the members in order of first appearance, and the writer follows
   the key list (C03_toplevel_order's lemma marshal_row_members_order) *)
Theorem C03_object_member_order : forall ms,
  Inv (obj_row ms) /\ row_l (obj_row ms) = push_all [] (map fst ms).
Proof. exact obj_row_l. Qed.
Print Assumptions C03_object_member_order.

Example C03_example :
  push_all [[97]; [98]] (push_all [[97]; [98]] [[122]; [98]; [120]; [122]; [97]]) = [[97]; [98]; [122]; [120]].
Proof. reflexivity. Qed.

(* ---------- the command: the templates jl builds have the key lists of the definition ----------
   (bridge between C19 and the theorems above; definitions in JL.proofs.JlOrder)
   [cspec]: what a definition declares, whichever way it is given: SPlain name in-descriptor
   out-descriptor | SRow name sub-declarations. [yaml_spec cols]: read off the decoded row.yml (a
   column that has columns is SRow: its own descriptors are dropped, WithRow overwrites With).
   [inline_spec O n m l]: read off the row MkRow m l that json.Unmarshal built from the -t text: a
   string member "in:out" is SPlain k in out, a string without ':' is SPlain k d d (one descriptor
   stands for both sides), an object member is SRow, any other member (number, null, array, ...)
   declares nothing ([inline_declares O m k] = true for the first two kinds).
   [declared O out specs t]: t is what With / WithRow build for specs on side out (false = input
   template, true = output template):
     Inv t, row_l t = push_all [] (map spec_name specs),
     a name whose last declaration is SPlain n i o holds  CVal nil (parse_descriptor (if out then o else i)),
     a name whose last declaration is SRow n sub holds  CRow r  where r = CreateRowEmpty() of a
     template st with  declared O out sub st  (how WithRow stores it), at the position of the name.
   [wf_cols] (JlProofs): unique names at each level (and no ':' in an input descriptor). *)

(* 1 + 2. both templates list the names in definition order, sub-row columns at their own position;
   row.yml (parse) and -t (createTemplateFromRow) *)
Theorem C03_jl_declares_in_order : forall (O : oracles),
  (forall n cols ti to,
     wf_cols cols -> of_yaml O n cols new_template new_template = Ok (ti, to) ->
     row_l ti = map col_name cols /\ row_l to = map col_name cols
     /\ declared O false (yaml_spec cols) ti /\ declared O true (yaml_spec cols) to)
  /\ (forall n m l ti to,
     Inv (MkRow m l) -> of_inline O n m l new_template new_template = Ok (ti, to) ->
     row_l ti = filter (inline_declares O m) l /\ row_l to = filter (inline_declares O m) l
     /\ map spec_name (inline_spec O n m l) = filter (inline_declares O m) l
     /\ declared O false (inline_spec O n m l) ti /\ declared O true (inline_spec O n m l) to).
Proof. exact (fun O => conj (yaml_declares_in_order O) (inline_declares_in_order O)). Qed.
Print Assumptions C03_jl_declares_in_order.

(* ... and recursively: what each column holds in the prototype row. A sub-row column holds the empty
   row of the template built for its own columns, whose key list is the names of these columns in
   their order; the statement applies again to (sub, st). *)
Theorem C03_jl_declared_reading : forall (O : oracles) (out : bool) cols t,
  wf_cols cols -> declared O out (yaml_spec cols) t ->
  Inv t /\ row_l t = map col_name cols
  /\ forall name i o sub, In (Col name i o sub) cols ->
       match sub with
       | [] => get_value name t = Some (plain_cell (if out then o else i))
       | _ :: _ =>
           exists st r, wf_cols sub /\ declared O out (yaml_spec sub) st /\ create_row_empty O FUELJ st = Ok r
                        /\ get_value name t = Some (CRow r) /\ Inv r /\ row_l r = map col_name sub
       end.
Proof. exact declared_yaml_reading. Qed.
Print Assumptions C03_jl_declared_reading.

(* the same reading for any declaration list with unique names (the inline form) *)
Theorem C03_jl_declared_reading_specs : forall (O : oracles) (out : bool) specs t,
  declared O out specs t -> NoDup (map spec_name specs) ->
  Inv t /\ row_l t = map spec_name specs
  /\ forall s, In s specs ->
       match s with
       | SPlain n i o => get_value n t = Some (plain_cell (if out then o else i))
       | SRow n sub =>
           exists st r, declared O out sub st /\ create_row_empty O FUELJ st = Ok r
                        /\ get_value n t = Some (CRow r) /\ Inv r /\ row_l r = push_all [] (map spec_name sub)
       end.
Proof. exact declared_reading. Qed.
Print Assumptions C03_jl_declared_reading_specs.

(* the -t text: the row the members are read from lists the member names in order of first
   appearance, and satisfies the premise of the inline half of C03_jl_declares_in_order *)
Theorem C03_jl_inline_text : forall (O : oracles) text ti to,
  of_inline_text O text = Ok (ti, to) ->
  let m := row_m (inline_row O text) in
  let l := row_l (inline_row O text) in
  Inv (inline_row O text)
  /\ l = push_all [] (map fst (fst (parse_top_rv text)))
  /\ of_inline O FUELJ m l new_template new_template = Ok (ti, to).
Proof. exact inline_text_declared. Qed.
Print Assumptions C03_jl_inline_text.

(* 3. which columns are hidden on output: exactly the plain columns whose OUTPUT descriptor parses to
   the hidden format, whatever the input descriptor. A column that has columns is never hidden,
   whatever its output descriptor says (model and binary agree: see C03_jl_example). *)
Theorem C03_jl_hidden_iff : forall (O : oracles),
  (forall n cols ti to name i o sub,
     wf_cols cols -> of_yaml O n cols new_template new_template = Ok (ti, to) ->
     In (Col name i o sub) cols ->
     (fmt_of to name = FHidden <-> sub = [] /\ fst (parse_descriptor o) = FHidden))
  /\ (forall n m l ti to k,
     Inv (MkRow m l) -> of_inline O n m l new_template new_template = Ok (ti, to) ->
     (fmt_of to k = FHidden <->
      exists c desc, In k l /\ alookup k m = Some c /\ inline_kind O c = Ok (IPlain desc)
                     /\ fst (parse_descriptor (desc_out desc)) = FHidden)).
Proof. exact (fun O => conj (yaml_hidden_iff O) (inline_hidden_iff O)). Qed.
Print Assumptions C03_jl_hidden_iff.

(* 4. the command: with [jl_specs O file inline] the declarations in force (row.yml's, replaced
   entirely by the inline template when one is given), every emitted line lists first the visible
   columns of the definition in definition order, each once, then the undeclared keys of the input
   line in order of first appearance (instance of C03_toplevel_order / pipeline_members) *)
Theorem C03_jl_run_order : forall (O : oracles) jfloat jother file inline lines out,
  wf_cols file -> jl_run O jfloat jother file inline lines = Ok out ->
  exists ti to,
    let specs := jl_specs O file inline in
    create_template O file inline = Ok (ti, to)
    /\ NoDup (map spec_name specs)
    /\ row_l ti = map spec_name specs /\ row_l to = map spec_name specs
    /\ out = concat (map (fun line => match jl_pipeline O jfloat jother FUELJ ti to line with Ok o => o | _ => [] end) lines)
    /\ forall line o, jl_pipeline O jfloat jother FUELJ ti to line = Ok o ->
         exists vs,
           let emitted := visible_names specs ++ first_new (map spec_name specs) (map fst (fst (parse_top line))) in
           o = [123] ++ join_with [44] (map (fun kv => encode_string (fst kv) ++ [58] ++ snd kv) (combine emitted vs)) ++ [125] ++ [10]
           /\ length vs = length emitted.
Proof. exact jl_run_order. Qed.
Print Assumptions C03_jl_run_order.

(* ... and a declared plain column the line does not mention is written as null. (Not so a declared
   sub-row: it is written as the object of its columns, "sub":{"y":null,"z":null}: known finding F6.)
   Proved by following the cell of the absent column through the same decomposition of one line
   as pipeline_members (JlOrder.pipeline_absent_null). *)
Theorem C03_jl_absent_null : forall (O : oracles) jfloat jother file inline ti to line o,
  wf_cols file -> create_template O file inline = Ok (ti, to) ->
  jl_pipeline O jfloat jother FUELJ ti to line = Ok o ->
  exists vs,
    let specs := jl_specs O file inline in
    let emitted := visible_names specs ++ first_new (map spec_name specs) (map fst (fst (parse_top line))) in
    o = [123] ++ join_with [44] (map (fun kv => encode_string (fst kv) ++ [58] ++ snd kv) (combine emitted vs)) ++ [125] ++ [10]
    /\ Forall2 (fun k v => (exists i d, In (SPlain k i d) specs) ->
                           ~ In k (map fst (fst (parse_top line))) -> v = s_null) emitted vs.
Proof. exact jl_absent_null. Qed.
Print Assumptions C03_jl_absent_null.

(* a hidden column in the middle, a sub-row listed before a plain column, a descriptor without ':';
   row.yml (the sub-row column even says output: hidden) and the same definition as -t text
     {"a":"string","h":"numeric:hidden","sub":{"z":"string","y":"string"},"b":"numeric"}
   on the line  {"x":1,"b":2,"h":3,"sub":{"y":"Y","z":"Z"},"w":4,"a":"A","x":5}  and on  {} :
     {"a":"A","sub":{"y":"Y","z":"Z"},"b":2,"x":5,"w":4}
     {"a":null,"sub":{"y":null,"z":null},"b":null}
   (the real jl binary prints the same two lines for both forms) *)
Example C03_jl_example :
  let O : oracles := {| o_ffmt := fun _ _ _ _ => []; o_fparse := fun _ _ => None; o_f2i := fun _ _ => 0;
                        o_local_off := fun _ => 0; o_time_parse_slow := fun _ => None |} in
  let jf : bool -> Z -> option str := fun _ _ => None in
  let jo : Z -> option str := fun _ => None in
  let s_string := [115;116;114;105;110;103] in
  let s_numeric := [110;117;109;101;114;105;99] in
  let s_hidden := [104;105;100;100;101;110] in
  let cols := [Col [97] s_string s_string [];
               Col [104] s_numeric s_hidden [];
               Col [115;117;98] [97;117;116;111] s_hidden [Col [122] s_string s_string []; Col [121] s_string s_string []];
               Col [98] s_numeric s_numeric []] in
  let inline : str := [123;34;97;34;58;34;115;116;114;105;110;103;34;44;34;104;34;58;34;110;117;109;101;114;105;99;58;104;105;100;100;101;110;34;44;34;115;117;98;34;58;123;34;122;34;58;34;115;116;114;105;110;103;34;44;34;121;34;58;34;115;116;114;105;110;103;34;125;44;34;98;34;58;34;110;117;109;101;114;105;99;34;125] in
  let line : str := [123;34;120;34;58;49;44;34;98;34;58;50;44;34;104;34;58;51;44;34;115;117;98;34;58;123;34;121;34;58;34;89;34;44;34;122;34;58;34;90;34;125;44;34;119;34;58;52;44;34;97;34;58;34;65;34;44;34;120;34;58;53;125] in
  let specs := [SPlain [97] s_string s_string; SPlain [104] s_numeric s_hidden;
                SRow [115;117;98] [SPlain [122] s_string s_string; SPlain [121] s_string s_string];
                SPlain [98] s_numeric s_numeric] in
  let names := [[97]; [104]; [115;117;98]; [98]] in
  let written : str :=
    [123;34;97;34;58;34;65;34;44;34;115;117;98;34;58;123;34;121;34;58;34;89;34;44;34;122;34;58;34;90;34;125;44;34;98;34;58;50;44;34;120;34;58;53;44;34;119;34;58;52;125;10]
    ++ [123;34;97;34;58;110;117;108;108;44;34;115;117;98;34;58;123;34;121;34;58;110;117;108;108;44;34;122;34;58;110;117;108;108;125;44;34;98;34;58;110;117;108;108;125;10] in
  wf_cols cols
  /\ jl_specs O cols [] = specs /\ jl_specs O [] inline = specs
  /\ match create_template O cols [] with Ok (ti, to) => (row_l ti, row_l to) | _ => ([], []) end = (names, names)
  /\ match create_template O [] inline with Ok (ti, to) => (row_l ti, row_l to) | _ => ([], []) end = (names, names)
  /\ visible_names specs = [[97]; [115;117;98]; [98]]
  /\ match create_template O cols [] with
     | Ok (_, to) => (fmt_of to [104], fmt_of to [115;117;98])
     | _ => (FBad, FBad)
     end = (FHidden, FAuto)          (* h is hidden; sub is not, although row.yml says output: hidden *)
  /\ jl_run O jf jo cols [] [line; [123; 125]] = Ok written
  /\ jl_run O jf jo [] inline [line; [123; 125]] = Ok written.
Proof.
  cbv zeta. split.
  - split; [repeat constructor; cbn; intuition discriminate|].
    repeat constructor; cbn; intuition (try discriminate); repeat constructor; cbn; intuition discriminate.
  - vm_compute. repeat split.
Qed.
