(* C03 — templates fix key order and presence; no level is ever re-sorted.
   Model: JL.model.Template over JL.model.Row with the text layer of JL.std.GoJson
   (jl_pipeline = importer.GetRow then exporter.Export of one line). [push_all l ks]: the list l
   followed by the keys of ks that are not in it, each at its first appearance.
   [fmt_of t k]: the format of column k in template t (auto for an undeclared key).
   PARTIAL: the statement inside DECLARED SUB-ROWS is false of the code (known finding F6:
   CloneRow flattens a declared sub-row to a Go map, which json.Marshal sorts); it is reported
   by the check as KNOWN-FINDING and is not claimed here. *)
From Coq Require Import ZArith List Bool.
From JL.std Require Import GoBase GoVal GoJson.
From JL.model Require Import Row RowRun Template TemplateJson.
From JL.proofs Require Import RowProofs TemplateOrder TemplateClass TemplatePipeline.
Import ListNotations.
Open Scope Z_scope.

(* the emitted object lists: the output template's visible columns in declaration order, exactly once
   each, then the columns of the input template it does not declare, then the undeclared keys of the line in
   order of first appearance; hidden columns never appear. (With one column list for both templates, as jl
   builds them, the middle group is empty: corollary below.) *)
Theorem C03_toplevel_order : forall (O : oracles) jfloat jother n ti to line out,
  Inv ti -> Inv to ->
  jl_pipeline O jfloat jother (S (S (S n))) ti to line = Ok out ->
  exists vs,
    let keys := push_all (row_l to) (push_all (row_l ti) (map fst (fst (parse_top line)))) in
    let emitted := filter (fun k => negb (format_eqb (fmt_of to k) FHidden)) keys in
    out = [123] ++ join_with [44] (map (fun kv => encode_string (fst kv) ++ [58] ++ snd kv) (combine emitted vs)) ++ [125] ++ [10]
    /\ length vs = length emitted.
Proof.
  intros O jf jo n ti to line out Hti Hto H.
  destruct (pipeline_members O jf jo n ti to line out Hti Hto H) as [vs [H1 H2]].
  exists vs. cbv zeta in *. split; [exact H1|]. clear H1. induction H2; cbn; auto.
Qed.
Print Assumptions C03_toplevel_order.

Theorem C03_same_columns : forall l ks,
  push_all l (push_all l ks) = l ++ first_new l ks
  /\ NoDup (first_new l ks)
  /\ (forall k, In k (first_new l ks) <-> In k ks /\ ~ In k l).
Proof.
  intros l ks. rewrite push_all_twice, push_all_first_new.
  split; [reflexivity|]. split; [apply first_new_NoDup | intros k; apply first_new_spec].
Qed.
Print Assumptions C03_same_columns.

(* the result never depends on the input order of the declared keys *)
Theorem C03_declared_order_irrelevant : forall l ks1 ks2,
  filter (fun k => negb (mem k l)) ks1 = filter (fun k => negb (mem k l)) ks2 ->
  push_all l ks1 = push_all l ks2.
Proof. exact declared_order_irrelevant. Qed.
Print Assumptions C03_declared_order_irrelevant.

(* nor on map iteration: CreateRow(map) in any iteration order keeps the declared columns in
   declaration order and only appends undeclared keys *)
Theorem C03_map_input : forall (O : oracles) kvs r r',
  Inv r -> create_from_map O kvs r = Ok r' -> Inv r' /\ row_l r' = push_all (row_l r) (map fst kvs).
Proof. exact create_from_map_l. Qed.
Print Assumptions C03_map_input.

(* templates list their columns in declaration order *)
Theorem C03_template_columns : forall name f typ t,
  Inv t -> Inv (with_col name f typ t) /\ row_l (with_col name f typ t) = push_key (row_l t) name.
Proof. intros. split; [now apply with_col_Inv | now apply with_col_l]. Qed.
Print Assumptions C03_template_columns.

(* an object found under an undeclared key or an auto column keeps its input member order: the
   reader builds a row listing the members in order of first appearance, and the writer follows
   the key list (C03_toplevel_order's lemma marshal_row_members_order) *)
Theorem C03_object_member_order : forall ms,
  Inv (obj_row ms) /\ row_l (obj_row ms) = push_all [] (map fst ms).
Proof. exact obj_row_l. Qed.
Print Assumptions C03_object_member_order.

Example C03_example :
  push_all [[97]; [98]] (push_all [[97]; [98]] [[122]; [98]; [120]; [122]; [97]]) = [[97]; [98]; [122]; [120]].
Proof. reflexivity. Qed.
