(* C17 — no public operation of rows panics, whatever the key, index, path or data.
   The row model (JL.model.Row) returns [Panic] exactly where the Go code would panic: a cast
   that panics, a method call on a nil Value (a key of the list missing from the map), the
   b.([]byte) / str.(string) assertions of the binary conversions. [wf_crow r]: r and every
   row nested in it satisfy the invariant of C06 (true of every row reachable through the
   public API, theorem C17_reachable_wf). [np x]: x is not Panic.
   PARTIAL on two points a Gallina model cannot exhibit: stack depth at nesting 10^4 and resource
   blow-up are covered on the implementation side only (harness), see DESIGN.md. *)
From Coq Require Import ZArith List Bool.
From JL.std Require Import GoBase GoVal.
From JL.model Require Import Row RowRun.
From JL.gen Require Import CastGen.
From JL.proofs Require Import CastTotal RowProofs RowSafe RowPaths.
Import ListNotations.
Open Scope Z_scope.

(* one mutator: any key, index (all of Z), path, value *)
Theorem C17_step_no_panic : forall (O : oracles) r o, wf_crow r -> wf_op o ->
  np (snd (step O r o)) /\ wf_crow (fst (step O r o)).
Proof. exact step_safe. Qed.
Print Assumptions C17_step_no_panic.

(* every reader: Has, Get, GetAtIndex, GetValue, GetValueAtIndex, Len, Iter, GetAtPath, GetValueAtPath,
   FindValuesAtPath, the sixteen typed getters, Raw, Export *)
Theorem C17_query_no_panic : forall (O : oracles) r q, wf_crow r -> query O r q <> APanic.
Proof. exact query_safe. Qed.
Print Assumptions C17_query_no_panic.

(* every history from the empty row *)
Theorem C17_history_no_panic : forall (O : oracles) ops, Forall wf_op ops ->
  wf_crow (run O ops new_row)
  /\ Forall (fun e => np e)
       (snd (fold_left (fun '(r, acc) o => let '(r', e) := step O r o in (r', acc ++ [e])) ops (new_row, []))).
Proof. intros O ops H. apply history_safe; [apply wf_new_row | exact H]. Qed.
Print Assumptions C17_history_no_panic.

(* absent data come back through the operation's own channel: (nil, false) from the lookups,
   the zero value from the typed getters *)
Theorem C17_channel_absent : forall (O : oracles) n k r sample zero,
  get_value k r = None -> ~ In 46 k ->
  row_get n k r = Ok None /\ get_value_at_path k r = None
  /\ typed_get O n sample zero k r = Ok zero.
Proof.
  intros O n k r sample zero H Hd.
  assert (Hg : row_get n k r = Ok None) by (unfold row_get; now rewrite H).
  split; [exact Hg|]. split.
  - unfold get_value_at_path, split_dot. rewrite split_dot_aux_nodot by exact Hd. cbn. exact H.
  - unfold typed_get, row_get_or_nil. rewrite Hg. cbn [bind rnil to_gval].
    pose proof (To_good O sample VNil) as G. unfold good in G.
    destruct (To O sample VNil) as [x| | |]; try contradiction; [|reflexivity].
    destruct G as [G _]. rewrite (proj2 G eq_refl). destruct zero; reflexivity.
Qed.
Print Assumptions C17_channel_absent.

(* the conversions do contain panicking assertions: safety rests on the nil test made first *)
Example C17_nonvacuous : forall O,
  JL.gen.ConvGen.exportToBinary O VNil = Panic /\ JL.gen.ConvGen.importFromBinary O VNil VNil = Panic.
Proof. intros O. split; reflexivity. Qed.
