(* C17 — no public operation of rows panics, whatever the key, index, path or data.
   The row model (JL.model.Row) returns [Panic] exactly where the Go code would panic: a cast
   that panics, a method call on a nil Value (a key of the list missing from the map), the
   b.([]byte) / str.(string) assertions of the binary conversions. [wf_crow r]: r and every
   row nested in it satisfy the invariant of C06 (true of every row reachable through the
   public API, theorem C17_reachable_wf). [np x]: x is not Panic.
   PARTIAL on two points a Gallina model cannot exhibit: stack depth at nesting 10^4 and resource
   blow-up are covered on the implementation side only (harness), see DESIGN.md. *)
From Coq Require Import ZArith List Bool.
From JL.std Require Import GoBase GoVal.
From JL.model Require Import Row RowRun.
From JL.gen Require Import CastGen.
From JL.proofs Require Import CastTotal RowProofs RowSafe RowPaths.
Import ListNotations.
Open Scope Z_scope.

(* one mutator: any key, index (all of Z), path, value *)
Theorem C17_step_no_panic : forall (O : oracles) r o, wf_crow r -> wf_op o ->
  np (snd (step O r o)) /\ wf_crow (fst (step O r o)).
Proof. exact step_safe. Qed.
Print Assumptions C17_step_no_panic.

(* every reader: Has, Get, GetAtIndex, GetValue, GetValueAtIndex, Len, Iter, GetAtPath, GetValueAtPath,
   FindValuesAtPath, the sixteen typed getters, Raw, Export *)
Theorem C17_query_no_panic : forall (O : oracles) r q, wf_crow r -> query O r q <> APanic.
Proof. exact query_safe. Qed.
Print Assumptions C17_query_no_panic.

(* every history from the empty row *)
Theorem C17_history_no_panic : forall (O : oracles) ops, Forall wf_op ops ->
  wf_crow (run O ops new_row)
  /\ Forall (fun e => np e)
       (snd (fold_left (fun '(r, acc) o => let '(r', e) := step O r o in (r', acc ++ [e])) ops (new_row, []))).
Proof. intros O ops H. apply history_safe; [apply wf_new_row | exact H]. Qed.
Print Assumptions C17_history_no_panic.

(* absent data come back through the operation's own channel: (nil, false) from the lookups,
   the zero value from the typed getters *)
Theorem C17_channel_absent : forall (O : oracles) n k r sample zero,
  get_value k r = None -> ~ In 46 k ->
  row_get n k r = Ok None /\ get_value_at_path k r = None
  /\ typed_get O n sample zero k r = Ok zero.
Proof.
  intros O n k r sample zero H Hd.
  assert (Hg : row_get n k r = Ok None) by (unfold row_get; now rewrite H).
  split; [exact Hg|]. split.
  - unfold get_value_at_path, split_dot. rewrite split_dot_aux_nodot by exact Hd. cbn. exact H.
  - unfold typed_get, row_get_or_nil. rewrite Hg. cbn [bind rnil to_gval].
    pose proof (To_good O sample VNil) as G. unfold good in G.
    destruct (To O sample VNil) as [x| | |]; try contradiction; [|reflexivity].
    destruct G as [G _]. rewrite (proj2 G eq_refl). destruct zero; reflexivity.
Qed.
Print Assumptions C17_channel_absent.

(* the conversions do contain panicking assertions: safety rests on the nil test made first *)
Example C17_nonvacuous : forall O,
  JL.gen.ConvGen.exportToBinary O VNil = Panic /\ JL.gen.ConvGen.importFromBinary O VNil VNil = Panic.
Proof. intros O. split; reflexivity. Qed.

(* ================= the template level =================
   The builders (With / WithRow), CreateRowEmpty, CreateRow, importer.GetRow / ReadOne on one line,
   row.MarshalJSON / value.MarshalJSON / json.Marshal, exporter.Export and one line through
   importer -> exporter (JL.model.Template, with the text layer of JL.std.GoJson plugged in:
   JL.model.TemplateJson). These models return [Panic] where the Go code would: a listed key missing
   from the map in the loops of MarshalJSON / CreateRow(Row) / Raw / CloneRow, the b.([]byte) and
   str.(string) assertions of the binary conversions, a panicking cast. The premises are [wf_crow] /
   [wf_rv] only; nothing is asked of the oracles, of the encoders, of the line (any list of integers). *)
From JL.std Require Import GoJson GoJsonMarshal.
From JL.model Require Import Template TemplateJson TemplateRun.
From JL.proofs Require Import MarshalTyping TemplateSafe.

(* templates built by the builders, from any names, formats, raw types, at any nesting, are well formed *)
Theorem C17_with_col_wf : forall name f typ t, wf_crow t -> wf_crow (with_col name f typ t).
Proof. exact with_col_wf. Qed.
Print Assumptions C17_with_col_wf.

Theorem C17_with_row_no_panic : forall (O : oracles) n name sub t, wf_crow sub -> wf_crow t ->
  np (with_row O n name sub t) /\ forall t', with_row O n name sub t = Ok t' -> wf_crow t'.
Proof. exact with_row_safe. Qed.
Print Assumptions C17_with_row_no_panic.

Theorem C17_build_template_no_panic : forall (O : oracles) n cols,
  np (build_template O n cols new_template)
  /\ forall t, build_template O n cols new_template = Ok t -> wf_crow t.
Proof. exact (fun O n cols => build_template_safe O n cols new_template wf_new_row). Qed.
Print Assumptions C17_build_template_no_panic.

(* importer.GetRow / ReadOne on one line: any line *)
Theorem C17_get_row_no_panic : forall (O : oracles) n ti (line : str), wf_crow ti ->
  np (get_row O parse_top_rv n ti line)
  /\ forall r, get_row O parse_top_rv n ti line = Ok r -> wf_crow r.
Proof. exact jl_get_row_safe. Qed.
Print Assumptions C17_get_row_no_panic.

(* CreateRow(v): a slice, a map, a Row, a JSON text held in a string or a []byte, anything else *)
Theorem C17_create_row_no_panic : forall (O : oracles) n t v, wf_crow t -> wf_rv v ->
  np (create_row O parse_top_rv n t v)
  /\ forall r, create_row O parse_top_rv n t v = Ok r -> wf_crow r.
Proof. exact jl_create_row_safe. Qed.
Print Assumptions C17_create_row_no_panic.

(* json.Marshal of a raw value, value.MarshalJSON, row.MarshalJSON: any fuel, any oracles, any
   string / float / other-type encoders *)
Theorem C17_marshal_no_panic :
  forall (O : oracles) (enc_string : str -> str) (jfloat : bool -> Z -> option str) (jother : Z -> option str) n,
  (forall v, wf_rv v -> np (marshal_rv O enc_string jfloat jother n v))
  /\ (forall c, wf_cell c -> np (marshal_cell O enc_string jfloat jother n c))
  /\ (forall r, wf_crow r -> np (marshal_row O enc_string jfloat jother n r)).
Proof. exact marshal_np. Qed.
Print Assumptions C17_marshal_no_panic.

(* exporter.Export *)
Theorem C17_export_no_panic :
  forall (O : oracles) (jfloat : bool -> Z -> option str) (jother : Z -> option str) n to input,
  wf_crow to -> wf_rv input ->
  np (export_bytes O encode_string parse_top_rv jfloat jother n to input).
Proof. exact jl_export_bytes_np. Qed.
Print Assumptions C17_export_no_panic.

(* one line through importer -> exporter: Ok, Err or Fuel, never Panic *)
Theorem C17_pipeline_no_panic :
  forall (O : oracles) (jfloat : bool -> Z -> option str) (jother : Z -> option str) n ti to (line : str),
  wf_crow ti -> wf_crow to ->
  np (pipeline O encode_string parse_top_rv jfloat jother n ti to line).
Proof. exact jl_pipeline_np. Qed.
Print Assumptions C17_pipeline_no_panic.

(* closed form: all templates the builders make, all lines, all fuels *)
Theorem C17_built_pipeline_no_panic :
  forall (O : oracles) (jfloat : bool -> Z -> option str) (jother : Z -> option str) fi fo ci co ti to n (line : str),
  build_template O fi ci new_template = Ok ti -> build_template O fo co new_template = Ok to ->
  np (pipeline O encode_string parse_top_rv jfloat jother n ti to line).
Proof. exact built_pipeline_np. Qed.
Print Assumptions C17_built_pipeline_no_panic.

(* ... and not Fuel either, hence Ok or Err, once the fuel exceeds the measure of both templates
   ([crow_md]; at most 2 * D + 3 for descriptors nested D deep) and 4 * d + 3 for a line whose members
   are nested at most d deep ([jdepth]: 0 for scalars; an object costs four units: the interface,
   the Row, its cell, the value held) *)
Theorem C17_pipeline_total :
  forall (O : oracles) (jfloat : bool -> Z -> option str) (jother : Z -> option str) n ti to (line : str) d,
  wf_crow ti -> wf_crow to ->
  (crow_md ti <= n)%nat -> (crow_md to <= n)%nat ->
  Forall (fun kv => jdepth (snd kv) <= d) (fst (parse_top line)) -> 4 * d + 3 <= Z.of_nat n ->
  (exists out, pipeline O encode_string parse_top_rv jfloat jother n ti to line = Ok out)
  \/ (exists e, pipeline O encode_string parse_top_rv jfloat jother n ti to line = Err e).
Proof. exact jl_pipeline_total. Qed.
Print Assumptions C17_pipeline_total.

Theorem C17_built_pipeline_total :
  forall (O : oracles) (jfloat : bool -> Z -> option str) (jother : Z -> option str) fi fo ci co ti to n (line : str) D d,
  build_template O fi ci new_template = Ok ti -> build_template O fo co new_template = Ok to ->
  Forall (fun x => (td_depth x <= D)%nat) ci -> Forall (fun x => (td_depth x <= D)%nat) co ->
  Forall (fun kv => jdepth (snd kv) <= d) (fst (parse_top line)) ->
  (2 * D + 3 <= n)%nat -> 4 * d + 3 <= Z.of_nat n ->
  (exists out, pipeline O encode_string parse_top_rv jfloat jother n ti to line = Ok out)
  \/ (exists e, pipeline O encode_string parse_top_rv jfloat jother n ti to line = Err e).
Proof. exact built_pipeline_total. Qed.
Print Assumptions C17_built_pipeline_total.

(* an instance: a binary column b, a date-time column t, a sub-row column r with an auto column x.
   The hostile line {"b":{"x":[1,{"y":null}]},"t":[[[]]],"r":"zz","b":12,"r":{"x":{"x":{}}},"\u0000":{},
   "t":"2020-13-45T99:99:99Z"  (objects and arrays where scalars are declared, repeated keys, an escaped
   NUL as a key, an impossible date, no closing brace) is refused; the line
   {"b":"AQI=","t":"2020-01-02T03:04:05Z","r":{"x":[1,{"y":null}]},"u":[{"k":{}}]} is written with fuel 48
   and runs out of fuel — without panicking — with fuel 3 *)
Definition c17_cols : list tdesc :=
  [TCol [98] FBinary VNil; TCol [116] FDateTime VNil; TSub [114] [TCol [120] FAuto VNil]].
Definition c17_tpl : template :=
  Eval vm_compute in match build_template ex_oracles FUEL c17_cols new_template with Ok t => t | _ => new_template end.
Definition c17_hostile : str :=
  [123; 34; 98; 34; 58; 123; 34; 120; 34; 58; 91; 49; 44; 123; 34; 121; 34; 58; 110; 117; 108; 108; 125; 93; 125; 44;
   34; 116; 34; 58; 91; 91; 91; 93; 93; 93; 44; 34; 114; 34; 58; 34; 122; 122; 34; 44; 34; 98; 34; 58; 49; 50; 44; 34;
   114; 34; 58; 123; 34; 120; 34; 58; 123; 34; 120; 34; 58; 123; 125; 125; 125; 44; 34; 92; 117; 48; 48; 48; 48; 34;
   58; 123; 125; 44; 34; 116; 34; 58; 34; 50; 48; 50; 48; 45; 49; 51; 45; 52; 53; 84; 57; 57; 58; 57; 57; 58; 57; 57;
   90; 34].
Definition c17_nested : str :=
  [123; 34; 98; 34; 58; 34; 65; 81; 73; 61; 34; 44; 34; 116; 34; 58; 34; 50; 48; 50; 48; 45; 48; 49; 45; 48; 50; 84;
   48; 51; 58; 48; 52; 58; 48; 53; 90; 34; 44; 34; 114; 34; 58; 123; 34; 120; 34; 58; 91; 49; 44; 123; 34; 121; 34; 58;
   110; 117; 108; 108; 125; 93; 125; 44; 34; 117; 34; 58; 91; 123; 34; 107; 34; 58; 123; 125; 125; 93; 125].

Example C17_pipeline_example :
  build_template ex_oracles FUEL c17_cols new_template = Ok c17_tpl
  /\ wf_crow c17_tpl /\ crow_md c17_tpl = 5%nat
  /\ jl_pipeline ex_oracles ex_jfloat ex_jother FUEL c17_tpl c17_tpl c17_hostile = Err ErrUnsupportedImportType
  /\ (exists out, jl_pipeline ex_oracles ex_jfloat ex_jother FUEL c17_tpl c17_tpl c17_nested = Ok out)
  /\ jl_pipeline ex_oracles ex_jfloat ex_jother 3 c17_tpl c17_tpl c17_nested = Fuel
  /\ line_depth_leb 3 c17_nested = true.
Proof.
  assert (E : build_template ex_oracles FUEL c17_cols new_template = Ok c17_tpl) by (vm_compute; reflexivity).
  split; [exact E|]. split; [exact (proj2 (C17_build_template_no_panic ex_oracles FUEL c17_cols) c17_tpl E)|].
  split; [vm_compute; reflexivity|]. split; [vm_compute; reflexivity|].
  split; [eexists; vm_compute; reflexivity|]. split; vm_compute; reflexivity.
Qed.

(* the premises of the totality theorem hold of this instance *)
Example C17_total_example :
  (exists out, pipeline ex_oracles encode_string parse_top_rv ex_jfloat ex_jother FUEL c17_tpl c17_tpl c17_nested = Ok out)
  \/ (exists e, pipeline ex_oracles encode_string parse_top_rv ex_jfloat ex_jother FUEL c17_tpl c17_tpl c17_nested = Err e).
Proof.
  destruct C17_pipeline_example as (E & _ & _ & _ & _ & _ & Hd).
  apply (C17_built_pipeline_total ex_oracles ex_jfloat ex_jother FUEL FUEL c17_cols c17_cols c17_tpl c17_tpl FUEL
           c17_nested 1%nat 3 E E).
  - repeat constructor.
  - repeat constructor.
  - apply line_depth_leb_ok, Hd.
  - vm_compute. repeat constructor.
  - vm_compute. discriminate.
Qed.

(* the command: the two templates cmd/jl builds from any row.yml column list and any inline
   template text (JL.model.Jl.create_template) are well formed, and no line makes the pipeline
   panic under them *)
From JL.model Require Import Jl.
Theorem C17_jl_templates_no_panic :
  forall (O : oracles) (jfloat : bool -> Z -> option str) (jother : Z -> option str) cols (inline : str),
  np (create_template O cols inline)
  /\ forall ti to, create_template O cols inline = Ok (ti, to) ->
       wf_crow ti /\ wf_crow to
       /\ forall n (line : str), np (pipeline O encode_string parse_top_rv jfloat jother n ti to line).
Proof.
  exact (fun O jfloat jother cols inline =>
           conj (proj1 (create_template_safe O cols inline))
                (fun ti to H => conj (proj1 (proj2 (create_template_safe O cols inline) (ti, to) H))
                                  (conj (proj2 (proj2 (create_template_safe O cols inline) (ti, to) H))
                                        (fun n line => jl_command_np O jfloat jother cols inline ti to n line H)))).
Qed.
Print Assumptions C17_jl_templates_no_panic.

(* the premise matters: on a row that lists a key its map does not hold, MarshalJSON, CreateRow and
   the exporter do reach the nil dereference *)
Example C17_template_nonvacuous : forall O enc jf jo,
  marshal_row O enc jf jo 5 (MkRow [] [[97]]) = Panic
  /\ create_row O parse_top_rv 5 new_template (RV (CRow (MkRow [] [[97]]))) = Panic
  /\ export_bytes O enc parse_top_rv jf jo 5 new_template (RV (CRow (MkRow [] [[97]]))) = Panic.
Proof. intros O enc jf jo. repeat split; reflexivity. Qed.
