// Command translator regenerates the Layer-1 Gallina model (coq/gen/*.v) from the Go
// sources of /repo on every run: pkg/cast (all functions), the conversion functions of
// pkg/jsonline, and a few tables. It accepts exactly the Go subset those files use and
// stops with file:line on anything else.
package main

import (
	"bytes"
	"crypto/sha256"
	"encoding/hex"
	"flag"
	"fmt"
	"go/ast"
	"go/constant"
	"go/parser"
	"go/printer"
	"go/token"
	"go/types"
	"math"
	"os"
	"path/filepath"
	"sort"
	"strings"
)

type fatal struct{ msg string }

func failf(fset *token.FileSet, pos token.Pos, format string, args ...interface{}) {
	p := ""
	if fset != nil && pos.IsValid() {
		p = fset.Position(pos).String() + ": "
	}
	panic(fatal{p + fmt.Sprintf(format, args...)})
}

type pkgInfo struct {
	fset  *token.FileSet
	files []*ast.File
	info  *types.Info
	pkg   *types.Package
	dir   string
}

func loadPkg(fset *token.FileSet, dir, path string, imp types.Importer) *pkgInfo {
	ents, err := os.ReadDir(dir)
	if err != nil {
		panic(fatal{err.Error()})
	}
	var files []*ast.File
	for _, e := range ents {
		n := e.Name()
		if !strings.HasSuffix(n, ".go") || strings.HasSuffix(n, "_test.go") {
			continue
		}
		src, err := os.ReadFile(filepath.Join(dir, n))
		if err != nil {
			panic(fatal{err.Error()})
		}
		// skip files guarded by the verif build tag (hooks are not part of the modelled code)
		if bytes.Contains(src, []byte("//go:build verif")) {
			continue
		}
		f, err := parser.ParseFile(fset, filepath.Join(dir, n), src, parser.ParseComments)
		if err != nil {
			panic(fatal{err.Error()})
		}
		files = append(files, f)
	}
	info := &types.Info{
		Types:      map[ast.Expr]types.TypeAndValue{},
		Defs:       map[*ast.Ident]types.Object{},
		Uses:       map[*ast.Ident]types.Object{},
		Implicits:  map[ast.Node]types.Object{},
		Selections: map[*ast.SelectorExpr]*types.Selection{},
	}
	conf := types.Config{Importer: imp, Sizes: types.SizesFor("gc", "amd64")}
	pkg, err := conf.Check(path, fset, files, info)
	if err != nil {
		panic(fatal{"type check " + path + ": " + err.Error()})
	}
	return &pkgInfo{fset: fset, files: files, info: info, pkg: pkg, dir: dir}
}

// ---------------------------------------------------------------------------

type wrapKind int

const (
	wrapOpt wrapKind = iota // match T with Some x => .. | None => Panic end
	wrapRes                 // bind T (fun x => ..)
)

type wrap struct {
	kind wrapKind
	name string
	term string
}

type constRec struct {
	exact    string // exact integer value
	kind     string // "f64" or "f32"
	recorded uint64 // bits the Go type checker computed
}

type tr struct {
	p        *pkgInfo
	out      *bytes.Buffer
	errNil   map[types.Object]bool // static knowledge about error variables: true = nil
	wraps    []wrap
	tmp      int
	self     string            // name of the function being translated
	selfUsed bool              // it calls itself
	calls    map[string]bool   // package functions it calls
	consts   *[]constRec       // float constants met
	layouts  map[string]string // package-level layout variables -> LRFC3339 / LDate
	castPkg  bool              // translating pkg/cast itself (calls unqualified)
	ret      string            // "gval" (interface{}, error) | the model type of the single result ("gbytes", "Z", "bool", "str", "gtime")
}

func (t *tr) fail(n ast.Node, format string, args ...interface{}) {
	failf(t.p.fset, n.Pos(), format, args...)
}

func (t *tr) fresh(prefix string) string {
	t.tmp++
	return fmt.Sprintf("%s%d", prefix, t.tmp)
}

func lname(s string) string { return "v_" + s }

var intKinds = map[types.BasicKind]string{
	types.Int: "KInt", types.Int64: "KInt64", types.Int32: "KInt32", types.Int16: "KInt16", types.Int8: "KInt8",
	types.Uint: "KUint", types.Uint64: "KUint64", types.Uint32: "KUint32", types.Uint16: "KUint16", types.Uint8: "KUint8",
}

// classification of a Go type into the sorts of the model
type vsort int

const (
	sInt vsort = iota
	sF64
	sF32
	sBool
	sStr   // string
	sNum   // json.Number
	sBytes // []byte
	sTime  // time.Time
	sIface // interface{}
	sNil   // untyped nil
	sErr
	sOtherT
)

func (t *tr) sortOf(ty types.Type) (vsort, string) {
	if ty == nil {
		return sOtherT, ""
	}
	if named, ok := ty.(*types.Named); ok {
		o := named.Obj()
		if o.Pkg() != nil {
			full := o.Pkg().Path() + "." + o.Name()
			switch full {
			case "encoding/json.Number":
				return sNum, ""
			case "time.Time":
				return sTime, ""
			}
		}
		if o.Name() == "error" && o.Pkg() == nil {
			return sErr, ""
		}
		if o.Pkg() != nil && strings.HasSuffix(o.Pkg().Path(), "pkg/jsonline") && o.Name() == "RawType" {
			return sIface, ""
		}
		return sOtherT, ""
	}
	switch u := ty.(type) {
	case *types.Basic:
		if k, ok := intKinds[u.Kind()]; ok {
			return sInt, k
		}
		switch u.Kind() {
		case types.Float64:
			return sF64, ""
		case types.Float32:
			return sF32, ""
		case types.Bool, types.UntypedBool:
			return sBool, ""
		case types.String, types.UntypedString:
			return sStr, ""
		case types.UntypedNil:
			return sNil, ""
		case types.UntypedInt, types.UntypedRune:
			return sInt, "untyped"
		case types.UntypedFloat:
			return sF64, "untyped"
		}
	case *types.Slice:
		if b, ok := u.Elem().(*types.Basic); ok && b.Kind() == types.Uint8 {
			return sBytes, ""
		}
	case *types.Interface:
		if u.NumMethods() == 0 {
			return sIface, ""
		}
		if ty.String() == "error" {
			return sErr, ""
		}
	}
	return sOtherT, ""
}

func (t *tr) typeOf(e ast.Expr) types.Type {
	tv, ok := t.p.info.Types[e]
	if !ok {
		if id, ok := e.(*ast.Ident); ok {
			if o := t.p.info.Uses[id]; o != nil {
				return o.Type()
			}
			if o := t.p.info.Defs[id]; o != nil {
				return o.Type()
			}
		}
		return nil
	}
	return tv.Type
}

// inject a term of the sort of Go type ty into gval
func (t *tr) inject(n ast.Node, ty types.Type, term string) string {
	s, k := t.sortOf(ty)
	switch s {
	case sInt:
		if k == "untyped" {
			t.fail(n, "untyped integer cannot be injected into interface{}")
		}
		return fmt.Sprintf("(VInt %s %s)", k, term)
	case sF64:
		return fmt.Sprintf("(VF64 %s)", term)
	case sF32:
		return fmt.Sprintf("(VF32 %s)", term)
	case sBool:
		return fmt.Sprintf("(VBool %s)", term)
	case sStr:
		return fmt.Sprintf("(VStr %s)", term)
	case sNum:
		return fmt.Sprintf("(VNum %s)", term)
	case sBytes:
		return fmt.Sprintf("(VBytes %s)", term)
	case sTime:
		return fmt.Sprintf("(VTime %s)", term)
	case sIface:
		return term
	case sNil:
		return "VNil"
	}
	t.fail(n, "cannot inject a value of type %v into the value universe", ty)
	return ""
}

func zlit(s string) string {
	if strings.HasPrefix(s, "-") {
		return "(" + s + ")"
	}
	return s
}

// exactConst re-evaluates a constant expression without the implicit conversion to the
// type of the context, so that the model (Flocq) performs the rounding itself.
func (t *tr) exactConst(e ast.Expr) constant.Value {
	switch x := e.(type) {
	case *ast.ParenExpr:
		return t.exactConst(x.X)
	case *ast.BasicLit:
		return constant.MakeFromLiteral(x.Value, x.Kind, 0)
	case *ast.Ident:
		if c, ok := t.p.info.Uses[x].(*types.Const); ok {
			return c.Val()
		}
	case *ast.SelectorExpr:
		if c, ok := t.p.info.Uses[x.Sel].(*types.Const); ok {
			return c.Val()
		}
	case *ast.UnaryExpr:
		v := t.exactConst(x.X)
		if v != nil && (x.Op == token.SUB || x.Op == token.ADD) {
			return constant.UnaryOp(x.Op, v, 0)
		}
	case *ast.BinaryExpr:
		a, b := t.exactConst(x.X), t.exactConst(x.Y)
		if a != nil && b != nil {
			switch x.Op {
			case token.ADD, token.SUB, token.MUL:
				return constant.BinaryOp(a, x.Op, b)
			case token.SHL:
				if n, ok := constant.Uint64Val(b); ok {
					return constant.Shift(a, token.SHL, uint(n))
				}
			}
		}
	case *ast.CallExpr:
		// a conversion T(c) of a small constant
		if len(x.Args) == 1 {
			if tv, ok := t.p.info.Types[x.Fun]; ok && tv.IsType() {
				inner := t.exactConst(x.Args[0])
				outer := t.p.info.Types[e].Value
				if inner != nil && outer != nil && constant.Compare(inner, token.EQL, outer) {
					return inner
				}
			}
		}
	}
	return nil
}

func (t *tr) constTerm(e ast.Expr) (string, bool) {
	tv, ok := t.p.info.Types[e]
	if !ok || tv.Value == nil {
		return "", false
	}
	s, k := t.sortOf(tv.Type)
	switch s {
	case sInt:
		_ = k
		if tv.Value.Kind() != constant.Int {
			v := constant.ToInt(tv.Value)
			if v.Kind() != constant.Int {
				t.fail(e, "non-integer constant of integer type")
			}
			return zlit(v.ExactString()), true
		}
		return zlit(tv.Value.ExactString()), true
	case sF64, sF32:
		ex := t.exactConst(e)
		if ex == nil {
			t.fail(e, "cannot re-evaluate float constant expression exactly")
		}
		exi := constant.ToInt(ex)
		if exi.Kind() != constant.Int {
			t.fail(e, "non-integral float constant %v is outside the supported subset", ex)
		}
		f, _ := constant.Float64Val(tv.Value)
		if s == sF64 {
			*t.consts = append(*t.consts, constRec{exi.ExactString(), "f64", math.Float64bits(f)})
			return fmt.Sprintf("(f64_of_Z %s)", zlit(exi.ExactString())), true
		}
		f32, _ := constant.Float32Val(tv.Value)
		*t.consts = append(*t.consts, constRec{exi.ExactString(), "f32", uint64(math.Float32bits(f32))})
		return fmt.Sprintf("(f32_of_Z %s)", zlit(exi.ExactString())), true
	case sBool:
		if constant.BoolVal(tv.Value) {
			return "true", true
		}
		return "false", true
	case sStr, sNum:
		return strLit(constant.StringVal(tv.Value)), true
	}
	return "", false
}

func strLit(s string) string {
	var parts []string
	for i := 0; i < len(s); i++ {
		parts = append(parts, fmt.Sprint(int(s[i])))
	}
	return "[" + strings.Join(parts, "; ") + "]"
}

func (t *tr) layoutOf(e ast.Expr) string {
	if tv, ok := t.p.info.Types[e]; ok && tv.Value != nil {
		switch constant.StringVal(tv.Value) {
		case "2006-01-02T15:04:05Z07:00":
			return "LRFC3339"
		case "2006-01-02":
			return "LDate"
		}
		t.fail(e, "time layout %v is outside the modelled set", tv.Value)
	}
	if id, ok := e.(*ast.Ident); ok {
		if l, ok := t.layouts[id.Name]; ok {
			return l
		}
	}
	t.fail(e, "time layout is not a known constant or read-only package variable")
	return ""
}

// qualified name of a called function: "pkg.Func", "Func" (same package), or "recv.Method" by type
func (t *tr) callee(c *ast.CallExpr) (string, *types.Func) {
	switch f := c.Fun.(type) {
	case *ast.Ident:
		if fn, ok := t.p.info.Uses[f].(*types.Func); ok {
			return fn.Pkg().Path() + "." + fn.Name(), fn
		}
		if b, ok := t.p.info.Uses[f].(*types.Builtin); ok {
			return "builtin." + b.Name(), nil
		}
	case *ast.SelectorExpr:
		if sel, ok := t.p.info.Selections[f]; ok {
			if fn, ok := sel.Obj().(*types.Func); ok {
				recv := sel.Recv().String()
				return "(" + recv + ")." + fn.Name(), fn
			}
		}
		if fn, ok := t.p.info.Uses[f.Sel].(*types.Func); ok {
			return fn.Pkg().Path() + "." + fn.Name(), fn
		}
	}
	return "", nil
}

func (t *tr) isConv(c *ast.CallExpr) bool {
	tv, ok := t.p.info.Types[c.Fun]
	return ok && tv.IsType()
}

func (t *tr) cmpOp(n ast.Node, op token.Token, s vsort, a, b string) string {
	switch s {
	case sInt:
		m := map[token.Token]string{token.LSS: "<?", token.GTR: ">?", token.LEQ: "<=?", token.GEQ: ">=?", token.EQL: "=?"}
		if op == token.NEQ {
			return fmt.Sprintf("(negb (%s =? %s))", a, b)
		}
		return fmt.Sprintf("(%s %s %s)", a, m[op], b)
	case sF64, sF32:
		pre := "f64"
		if s == sF32 {
			pre = "f32"
		}
		m := map[token.Token]string{token.LSS: "lt", token.GTR: "gt", token.LEQ: "le", token.GEQ: "ge", token.EQL: "eq", token.NEQ: "ne"}
		return fmt.Sprintf("(%s_%s %s %s)", pre, m[op], a, b)
	case sBool:
		if op == token.EQL {
			return fmt.Sprintf("(Bool.eqb %s %s)", a, b)
		}
		if op == token.NEQ {
			return fmt.Sprintf("(negb (Bool.eqb %s %s))", a, b)
		}
	}
	t.fail(n, "comparison %v on this operand type is outside the supported subset", op)
	return ""
}

func (t *tr) expr(e ast.Expr) string {
	if c, ok := t.constTerm(e); ok {
		return c
	}
	switch x := e.(type) {
	case *ast.ParenExpr:
		return t.expr(x.X)
	case *ast.Ident:
		if x.Name == "nil" {
			return "VNil"
		}
		if x.Name == "true" || x.Name == "false" {
			return x.Name
		}
		o := t.p.info.Uses[x]
		if v, ok := o.(*types.Var); ok && !v.IsField() {
			if v.Parent() == t.p.pkg.Scope() {
				t.fail(x, "read of package variable %s is outside the supported subset", x.Name)
			}
			return lname(x.Name)
		}
		t.fail(x, "identifier %s is outside the supported subset", x.Name)
	case *ast.UnaryExpr:
		if x.Op == token.NOT {
			return fmt.Sprintf("(negb %s)", t.expr(x.X))
		}
		if x.Op == token.SUB {
			if s, _ := t.sortOf(t.typeOf(x.X)); s == sInt {
				_, k := t.sortOf(t.typeOf(e))
				return fmt.Sprintf("(conv_int %s (- %s))", k, t.expr(x.X))
			}
		}
		t.fail(x, "unary %v is outside the supported subset", x.Op)
	case *ast.BinaryExpr:
		switch x.Op {
		case token.LOR:
			return fmt.Sprintf("(%s || %s)", t.expr(x.X), t.expr(x.Y))
		case token.LAND:
			return fmt.Sprintf("(%s && %s)", t.expr(x.X), t.expr(x.Y))
		case token.LSS, token.GTR, token.LEQ, token.GEQ, token.EQL, token.NEQ:
			sx, _ := t.sortOf(t.typeOf(x.X))
			sy, _ := t.sortOf(t.typeOf(x.Y))
			// []byte == nil
			if sx == sBytes && sy == sNil && (x.Op == token.EQL || x.Op == token.NEQ) {
				r := fmt.Sprintf("(bnil %s)", t.expr(x.X))
				if x.Op == token.NEQ {
					r = "(negb " + r + ")"
				}
				return r
			}
			// interface{} compared with a constant: Go compares dynamic type and value
			if sx == sIface && (x.Op == token.EQL || x.Op == token.NEQ) {
				rhs := t.inject(x.Y, t.typeOf(x.Y), t.expr(x.Y))
				r := fmt.Sprintf("(iface_eq %s %s)", t.expr(x.X), rhs)
				if x.Op == token.NEQ {
					r = "(negb " + r + ")"
				}
				return r
			}
			if sx == sInt && sy == sInt || (sx == sF64 && sy == sF64) || (sx == sF32 && sy == sF32) || (sx == sBool && sy == sBool) {
				return t.cmpOp(x, x.Op, sx, t.expr(x.X), t.expr(x.Y))
			}
			t.fail(x, "comparison between %v and %v is outside the supported subset", t.typeOf(x.X), t.typeOf(x.Y))
		}
		t.fail(x, "binary operator %v is outside the supported subset", x.Op)
	case *ast.IndexExpr:
		if s, _ := t.sortOf(t.typeOf(x.X)); s == sBytes {
			n := t.fresh("ix")
			t.wraps = append(t.wraps, wrap{wrapOpt, n, fmt.Sprintf("get_at (bdata %s) %s", t.expr(x.X), t.expr(x.Index))})
			return n
		}
		t.fail(x, "index expression on %v is outside the supported subset", t.typeOf(x.X))
	case *ast.TypeAssertExpr:
		// single-value assertion x.(T): panics on mismatch
		inner := t.expr(x.X)
		s, _ := t.sortOf(t.typeOf(e))
		n := t.fresh("ta")
		var pat string
		switch s {
		case sStr:
			pat = "as_string"
		case sBytes:
			pat = "as_bytes"
		default:
			t.fail(x, "type assertion to %v is outside the supported subset", t.typeOf(e))
		}
		t.wraps = append(t.wraps, wrap{wrapOpt, n, fmt.Sprintf("%s %s", pat, inner)})
		return n
	case *ast.CallExpr:
		return t.callExpr(x)
	case *ast.SelectorExpr:
		t.fail(x, "selector %s is outside the supported subset", x.Sel.Name)
	}
	t.fail(e, "expression %T is outside the supported subset", e)
	return ""
}

func (t *tr) conversion(c *ast.CallExpr) string {
	dst := t.typeOf(c)
	src := t.typeOf(c.Args[0])
	ds, dk := t.sortOf(dst)
	ss, _ := t.sortOf(src)
	a := t.expr(c.Args[0])
	switch {
	case ds == sInt && ss == sInt:
		return fmt.Sprintf("(conv_int %s %s)", dk, a)
	case ds == sInt && ss == sF64:
		return fmt.Sprintf("(cvt_f2i O %s (F64 %s))", dk, a)
	case ds == sInt && ss == sF32:
		return fmt.Sprintf("(cvt_f2i O %s (F32 %s))", dk, a)
	case ds == sF64 && ss == sInt:
		return fmt.Sprintf("(f64_of_Z %s)", a)
	case ds == sF32 && ss == sInt:
		return fmt.Sprintf("(f32_of_Z %s)", a)
	case ds == sF64 && ss == sF32:
		return fmt.Sprintf("(f64_of_f32 %s)", a)
	case ds == sF32 && ss == sF64:
		return fmt.Sprintf("(f32_of_f64 %s)", a)
	case ds == ss && (ds == sF64 || ds == sF32 || ds == sStr || ds == sBool || ds == sNum):
		return a
	case ds == sStr && ss == sBytes:
		return fmt.Sprintf("(bdata %s)", a)
	case ds == sStr && ss == sNum, ds == sNum && ss == sStr:
		return a
	case ds == sBytes && (ss == sStr || ss == sNum):
		return fmt.Sprintf("(mkbytes %s)", a)
	case ds == sNum && ss == sBytes:
		return fmt.Sprintf("(bdata %s)", a)
	case ds == sBytes && ss == sBytes:
		return a
	}
	t.fail(c, "conversion from %v to %v is outside the supported subset", src, dst)
	return ""
}

func (t *tr) constInt(e ast.Expr) (int64, bool) {
	tv, ok := t.p.info.Types[e]
	if !ok || tv.Value == nil {
		return 0, false
	}
	return constant.Int64Val(constant.ToInt(tv.Value))
}

// calls used as expressions (single result)
func (t *tr) callExpr(c *ast.CallExpr) string {
	if t.isConv(c) {
		if len(c.Args) != 1 {
			t.fail(c, "conversion with %d arguments", len(c.Args))
		}
		return t.conversion(c)
	}
	name, fn := t.callee(c)
	arg := func(i int) string { return t.expr(c.Args[i]) }
	switch name {
	case "builtin.len":
		if s, _ := t.sortOf(t.typeOf(c.Args[0])); s == sBytes {
			return fmt.Sprintf("(blen %s)", arg(0))
		}
		if s, _ := t.sortOf(t.typeOf(c.Args[0])); s == sStr {
			return fmt.Sprintf("(Z.of_nat (length %s))", arg(0))
		}
	case "builtin.make":
		if s, _ := t.sortOf(t.typeOf(c)); s == sBytes && len(c.Args) == 2 {
			return fmt.Sprintf("(mkbytes (make_bytes %s))", arg(1))
		}
	case "math.Float64bits", "math.Float64frombits", "math.Float32bits", "math.Float32frombits":
		return arg(0)
	case "(encoding/binary.littleEndian).Uint64", "(encoding/binary.littleEndian).Uint32", "(encoding/binary.littleEndian).Uint16":
		n := map[string]int{"Uint64": 8, "Uint32": 4, "Uint16": 2}[fn.Name()]
		v := t.fresh("le")
		t.wraps = append(t.wraps, wrap{wrapOpt, v, fmt.Sprintf("get_le %d (bdata %s)", n, arg(0))})
		return v
	case "strconv.Itoa":
		return fmt.Sprintf("(dec %s)", arg(0))
	case "strconv.FormatInt", "strconv.FormatUint":
		if b, ok := t.constInt(c.Args[1]); !ok || b != 10 {
			t.fail(c, "%s with a base other than the constant 10 is outside the modelled set", name)
		}
		return fmt.Sprintf("(dec %s)", arg(0))
	case "strconv.FormatBool":
		return fmt.Sprintf("(FormatBool %s)", arg(0))
	case "strconv.FormatFloat":
		return fmt.Sprintf("(FormatFloat O %s %s %s %s)", arg(0), arg(1), arg(2), arg(3))
	case "(time.Time).Unix":
		sel := c.Fun.(*ast.SelectorExpr)
		return fmt.Sprintf("(tsec %s)", t.expr(sel.X))
	case "(time.Time).Year":
		sel := c.Fun.(*ast.SelectorExpr)
		return fmt.Sprintf("(time_Year %s)", t.expr(sel.X))
	case "(time.Time).Format":
		sel := c.Fun.(*ast.SelectorExpr)
		return fmt.Sprintf("(time_Format %s %s)", t.layoutOf(c.Args[0]), t.expr(sel.X))
	case "time.Unix":
		if n, ok := t.constInt(c.Args[1]); !ok || n != 0 {
			t.fail(c, "time.Unix with non-zero nanoseconds is outside the modelled set")
		}
		return fmt.Sprintf("(time_Unix O %s)", arg(0))
	case "(*encoding/base64.Encoding).EncodeToString":
		t.checkStdEncoding(c)
		return fmt.Sprintf("(base64_encode (bdata %s))", arg(0))
	}
	// a function of the package under translation with a single (non-error) result
	if fn != nil && fn.Pkg() == t.p.pkg {
		sig := fn.Type().(*types.Signature)
		if sig.Results().Len() == 1 {
			var args []string
			for i, a := range c.Args {
				args = append(args, t.inject(a, paramInject(sig, i, t.typeOf(a)), t.expr(a)))
			}
			v := t.fresh("r")
			t.calls[fn.Name()] = true
			t.wraps = append(t.wraps, wrap{wrapRes, v, fmt.Sprintf("%s %s", fn.Name(), strings.Join(args, " "))})
			return v
		}
	}
	t.fail(c, "call of %s is outside the supported subset", name)
	return ""
}

func (t *tr) checkStdEncoding(c *ast.CallExpr) {
	sel, ok := c.Fun.(*ast.SelectorExpr)
	if ok {
		if s2, ok := sel.X.(*ast.SelectorExpr); ok && s2.Sel.Name == "StdEncoding" {
			return
		}
	}
	t.fail(c, "base64 encoding other than base64.StdEncoding is outside the modelled set")
}

// paramInject: when the parameter is interface{} the argument is injected by its own static
// type, otherwise it is passed in its sort (identity injection through sIface trick).
func paramInject(sig *types.Signature, i int, argType types.Type) types.Type {
	pt := sig.Params().At(i).Type()
	if _, ok := pt.Underlying().(*types.Interface); ok {
		return argType
	}
	return types.NewInterfaceType(nil, nil) // pass as is
}

// a call whose results are (T, error) or (interface{}, error): returns the term, whether it is an
// option (Layer 0) or a res (package function), and the Go type of the first result
func (t *tr) call2(c *ast.CallExpr) (term string, isRes bool) {
	name, fn := t.callee(c)
	arg := func(i int) string { return t.expr(c.Args[i]) }
	switch name {
	case "strconv.ParseInt":
		return fmt.Sprintf("ParseInt %s %s %s", arg(0), arg(1), arg(2)), false
	case "strconv.ParseUint":
		return fmt.Sprintf("ParseUint %s %s %s", arg(0), arg(1), arg(2)), false
	case "strconv.ParseFloat":
		return fmt.Sprintf("ParseFloat O %s %s", arg(0), arg(1)), false
	case "strconv.ParseBool":
		return fmt.Sprintf("ParseBool %s", arg(0)), false
	case "time.Parse":
		return fmt.Sprintf("time_Parse O %s %s", t.layoutOf(c.Args[0]), arg(1)), false
	case "(*encoding/base64.Encoding).DecodeString":
		t.checkStdEncoding(c)
		return fmt.Sprintf("option_map mkbytes (base64_decode %s)", arg(0)), false
	}
	if fn != nil {
		sig := fn.Type().(*types.Signature)
		if sig.Results().Len() == 2 {
			pk := fn.Pkg().Path()
			if fn.Pkg() == t.p.pkg || strings.HasSuffix(pk, "pkg/cast") {
				var args []string
				for i, a := range c.Args {
					args = append(args, t.inject(a, paramInject(sig, i, t.typeOf(a)), t.expr(a)))
				}
				fname := fn.Name()
				if fn.Pkg() == t.p.pkg && fname == t.self {
					t.selfUsed = true
					fname = "rec_" + fname
				} else if fn.Pkg() == t.p.pkg {
					t.calls[fname] = true
				} else {
					fname = "(" + fname + " O)"
				}
				return fmt.Sprintf("%s %s", fname, strings.Join(args, " ")), true
			}
		}
	}
	t.fail(c, "call of %s with two results is outside the supported subset", name)
	return "", false
}

func (t *tr) applyWraps(from int, body string) string {
	for i := len(t.wraps) - 1; i >= from; i-- {
		w := t.wraps[i]
		switch w.kind {
		case wrapOpt:
			body = fmt.Sprintf("match %s with Some %s => %s | None => Panic end", w.term, w.name, body)
		case wrapRes:
			body = fmt.Sprintf("bind (%s) (fun %s => %s)", w.term, w.name, body)
		}
	}
	t.wraps = t.wraps[:from]
	return body
}

func terminates(stmts []ast.Stmt) bool {
	if len(stmts) == 0 {
		return false
	}
	switch s := stmts[len(stmts)-1].(type) {
	case *ast.ReturnStmt:
		return true
	case *ast.IfStmt:
		if s.Else == nil {
			return false
		}
		eb, ok := s.Else.(*ast.BlockStmt)
		if !ok {
			return terminates([]ast.Stmt{s.Else})
		}
		return terminates(s.Body.List) && terminates(eb.List)
	case *ast.BlockStmt:
		return terminates(s.List)
	case *ast.TypeSwitchStmt, *ast.SwitchStmt:
		return true
	}
	return false
}

// sentinel named by the first %w argument of fmt.Errorf
func (t *tr) errSentinel(e ast.Expr) string {
	c, ok := e.(*ast.CallExpr)
	if !ok {
		t.fail(e, "returned error is not built by fmt.Errorf")
	}
	name, fn := t.callee(c)
	if name == "errors.New" {
		return "ErrNoWrap"
	}
	if name != "fmt.Errorf" {
		// an error-constructor helper of the package: a function whose only result is an error and whose body is one
		// return statement; the error it builds wraps the same sentinel whatever its arguments
		if fn != nil && fn.Pkg() == t.p.pkg && isErrorCtor(fn) {
			if fd := t.p.funcDecl(fn); fd != nil && len(fd.Body.List) == 1 {
				if rs, ok := fd.Body.List[0].(*ast.ReturnStmt); ok && len(rs.Results) == 1 {
					return t.errSentinel(rs.Results[0])
				}
			}
			t.fail(e, "error constructor %s is not a single return statement", name)
		}
		t.fail(e, "returned error is built by %s", name)
	}
	tv := t.p.info.Types[c.Args[0]]
	if tv.Value == nil {
		t.fail(e, "fmt.Errorf format is not constant")
	}
	f := constant.StringVal(tv.Value)
	idx := strings.Index(f, "%")
	if idx < 0 || !strings.HasPrefix(f[idx:], "%w") {
		// %w somewhere else or absent: the first verb decides which argument is wrapped
		if !strings.Contains(f, "%w") {
			return "ErrNoWrap"
		}
		t.fail(e, "fmt.Errorf with %%w not as first verb is outside the supported subset")
	}
	if len(c.Args) < 2 {
		t.fail(e, "fmt.Errorf(%%w) without argument")
	}
	switch a := c.Args[1].(type) {
	case *ast.Ident:
		if v, ok := t.p.info.Uses[a].(*types.Var); ok && v.Parent() == v.Pkg().Scope() {
			return a.Name
		}
	case *ast.SelectorExpr:
		if v, ok := t.p.info.Uses[a.Sel].(*types.Var); ok && v.Parent() == v.Pkg().Scope() {
			return a.Sel.Name
		}
	}
	t.fail(e, "wrapped error is not a package-level sentinel")
	return ""
}

// func(...) error
func isErrorCtor(fn *types.Func) bool {
	sig, ok := fn.Type().(*types.Signature)
	return ok && sig.Results().Len() == 1 && types.Identical(sig.Results().At(0).Type(), types.Universe.Lookup("error").Type())
}

func (p *pkgInfo) funcDecl(fn *types.Func) *ast.FuncDecl {
	for _, f := range p.files {
		for _, d := range f.Decls {
			if fd, ok := d.(*ast.FuncDecl); ok && fd.Recv == nil && fd.Body != nil && p.info.Defs[fd.Name] == fn {
				return fd
			}
		}
	}
	return nil
}

func (t *tr) stmts(list []ast.Stmt) string {
	if len(list) == 0 {
		t.fail(t.p.files[0], "control reaches the end of a function body without return in %s", t.self)
	}
	s, rest := list[0], list[1:]
	w0 := len(t.wraps)
	switch x := s.(type) {
	case *ast.ReturnStmt:
		if t.ret != "gval" {
			if len(x.Results) != 1 {
				t.fail(x, "return arity")
			}
			body := fmt.Sprintf("Ok %s", t.expr(x.Results[0]))
			return t.applyWraps(w0, body)
		}
		if len(x.Results) == 1 {
			c, ok := x.Results[0].(*ast.CallExpr)
			if !ok {
				t.fail(x, "single-expression return that is not a call")
			}
			term, isRes := t.call2(c)
			if !isRes {
				t.fail(x, "tail call to a standard-library function")
			}
			return t.applyWraps(w0, term)
		}
		if len(x.Results) != 2 {
			t.fail(x, "return arity")
		}
		// which of value / error is nil?
		errT := x.Results[1]
		if id, ok := errT.(*ast.Ident); ok && id.Name == "nil" {
			v := t.inject(x.Results[0], t.typeOf(x.Results[0]), t.expr(x.Results[0]))
			return t.applyWraps(w0, fmt.Sprintf("Ok %s", v))
		}
		if id, ok := x.Results[0].(*ast.Ident); !ok || id.Name != "nil" {
			t.fail(x, "return of a non-nil value together with a non-nil error")
		}
		return fmt.Sprintf("Err %s", t.errSentinel(errT))
	case *ast.DeclStmt:
		gd := x.Decl.(*ast.GenDecl)
		body := ""
		var binds []string
		for _, sp := range gd.Specs {
			vs := sp.(*ast.ValueSpec)
			for i, n := range vs.Names {
				o := t.p.info.Defs[n]
				srt, _ := t.sortOf(o.Type())
				var init string
				if i < len(vs.Values) {
					init = t.expr(vs.Values[i])
				} else {
					switch srt {
					case sInt, sF64, sF32:
						init = "0"
					case sBool:
						init = "false"
					case sStr, sNum:
						init = "[]"
					case sIface:
						init = "VNil"
					case sErr:
						t.errNil[o] = true
						continue
					default:
						t.fail(x, "zero value of %v is outside the supported subset", o.Type())
					}
				}
				binds = append(binds, fmt.Sprintf("let %s := %s in ", lname(n.Name), init))
			}
		}
		body = strings.Join(binds, "") + t.stmts(rest)
		return t.applyWraps(w0, body)
	case *ast.AssignStmt:
		// x, err := call(...)
		if len(x.Lhs) == 2 && len(x.Rhs) == 1 {
			c, ok := x.Rhs[0].(*ast.CallExpr)
			if !ok {
				t.fail(x, "two-value assignment from a non-call")
			}
			term, isRes := t.call2(c)
			vid := x.Lhs[0].(*ast.Ident)
			eid := x.Lhs[1].(*ast.Ident)
			vname := "_"
			if vid.Name != "_" {
				vname = lname(vid.Name)
			}
			var eobj types.Object
			if eid.Name != "_" {
				eobj = t.p.info.Defs[eid]
				if eobj == nil {
					eobj = t.p.info.Uses[eid]
				}
			}
			save := func() (bool, bool) { v, ok := t.errNil[eobj]; return v, ok }
			ov, ook := save()
			if eobj != nil {
				t.errNil[eobj] = true
			}
			okBranch := t.stmts(rest)
			if eobj != nil {
				t.errNil[eobj] = false
			}
			errBranch := t.stmts(rest)
			if eobj != nil {
				if ook {
					t.errNil[eobj] = ov
				} else {
					delete(t.errNil, eobj)
				}
			}
			var body string
			if isRes {
				body = fmt.Sprintf("match %s with Ok %s => %s | Err _ => %s | Panic => Panic | Fuel => Fuel end", term, vname, okBranch, errBranch)
			} else {
				body = fmt.Sprintf("match %s with Some %s => %s | None => %s end", term, vname, okBranch, errBranch)
			}
			return t.applyWraps(w0, body)
		}
		if len(x.Lhs) != 1 || len(x.Rhs) != 1 {
			t.fail(x, "assignment shape is outside the supported subset")
		}
		switch l := x.Lhs[0].(type) {
		case *ast.Ident:
			rhs := t.expr(x.Rhs[0])
			body := fmt.Sprintf("let %s := %s in %s", lname(l.Name), rhs, t.stmts(rest))
			return t.applyWraps(w0, body)
		case *ast.IndexExpr:
			base, ok := l.X.(*ast.Ident)
			if !ok {
				t.fail(x, "indexed assignment to a non-variable")
			}
			if s, _ := t.sortOf(t.typeOf(l.X)); s != sBytes {
				t.fail(x, "indexed assignment to %v", t.typeOf(l.X))
			}
			rhs := t.expr(x.Rhs[0])
			idx := t.expr(l.Index)
			d := t.fresh("d")
			body := fmt.Sprintf("match set_at (bdata %s) %s %s with Some %s => let %s := mkbytes %s in %s | None => Panic end",
				lname(base.Name), idx, rhs, d, lname(base.Name), d, t.stmts(rest))
			return t.applyWraps(w0, body)
		}
		t.fail(x, "assignment target is outside the supported subset")
	case *ast.ExprStmt:
		c, ok := x.X.(*ast.CallExpr)
		if !ok {
			t.fail(x, "expression statement is not a call")
		}
		name, fn := t.callee(c)
		switch name {
		case "(encoding/binary.littleEndian).PutUint64", "(encoding/binary.littleEndian).PutUint32", "(encoding/binary.littleEndian).PutUint16":
			n := map[string]int{"PutUint64": 8, "PutUint32": 4, "PutUint16": 2}[fn.Name()]
			base, ok := c.Args[0].(*ast.Ident)
			if !ok {
				t.fail(x, "PutUintN target is not a variable")
			}
			v := t.expr(c.Args[1])
			d := t.fresh("d")
			body := fmt.Sprintf("match put_le %d (bdata %s) %s with Some %s => let %s := mkbytes %s in %s | None => Panic end",
				n, lname(base.Name), v, d, lname(base.Name), d, t.stmts(rest))
			return t.applyWraps(w0, body)
		}
		t.fail(x, "call statement %s is outside the supported subset", name)
	case *ast.IfStmt:
		if x.Init != nil {
			// if x, err := f(); err != nil {...}  ==>  x, err := f(); if err != nil {...}
			inner := &ast.IfStmt{If: x.If, Cond: x.Cond, Body: x.Body, Else: x.Else}
			return t.stmts(append([]ast.Stmt{x.Init, inner}, rest...))
		}
		thenL := append([]ast.Stmt{}, x.Body.List...)
		if !terminates(thenL) {
			thenL = append(thenL, rest...)
		}
		var elseL []ast.Stmt
		if x.Else != nil {
			switch eb := x.Else.(type) {
			case *ast.BlockStmt:
				elseL = append(elseL, eb.List...)
			default:
				elseL = append(elseL, eb)
			}
			if !terminates(elseL) {
				elseL = append(elseL, rest...)
			}
		} else {
			elseL = rest
		}
		// statically known conditions: compile-time constants and err ==/!= nil
		if tv, ok := t.p.info.Types[x.Cond]; ok && tv.Value != nil {
			if constant.BoolVal(tv.Value) {
				return t.stmts(thenL)
			}
			return t.stmts(elseL)
		}
		if b, ok := x.Cond.(*ast.BinaryExpr); ok && (b.Op == token.EQL || b.Op == token.NEQ) {
			if id, ok := b.X.(*ast.Ident); ok {
				if n, ok := b.Y.(*ast.Ident); ok && n.Name == "nil" {
					if o := t.p.info.Uses[id]; o != nil {
						if s, _ := t.sortOf(o.Type()); s == sErr {
							isNil, known := t.errNil[o]
							if !known {
								t.fail(x, "nil-ness of error %s is not statically known", id.Name)
							}
							if isNil == (b.Op == token.EQL) {
								return t.stmts(thenL)
							}
							return t.stmts(elseL)
						}
					}
				}
			}
		}
		cond := t.expr(x.Cond)
		body := fmt.Sprintf("if %s then %s else %s", cond, t.stmts(thenL), t.stmts(elseL))
		return t.applyWraps(w0, body)
	case *ast.BlockStmt:
		return t.stmts(append(append([]ast.Stmt{}, x.List...), rest...))
	case *ast.TypeSwitchStmt:
		return t.typeSwitch(x)
	case *ast.SwitchStmt:
		t.fail(x, "value switch is outside the supported subset")
	}
	t.fail(s, "statement %T is outside the supported subset", s)
	return ""
}

var reflectDigest = "" // set from flag / known value

func nodeDigest(fset *token.FileSet, n interface{}) string {
	var b bytes.Buffer
	printer.Fprint(&b, fset, n)
	h := sha256.Sum256(b.Bytes())
	return hex.EncodeToString(h[:8])
}

func (t *tr) patternFor(ty types.Type, bound string, n ast.Node) string {
	s, k := t.sortOf(ty)
	switch s {
	case sInt:
		return fmt.Sprintf("VInt %s %s", k, bound)
	case sF64:
		return "VF64 " + bound
	case sF32:
		return "VF32 " + bound
	case sBool:
		return "VBool " + bound
	case sStr:
		return "VStr " + bound
	case sNum:
		return "VNum " + bound
	case sBytes:
		return "VBytes " + bound
	case sTime:
		return "VTime " + bound
	case sNil:
		return "VNil"
	}
	t.fail(n, "type switch case %v is outside the value universe", ty)
	return ""
}

func (t *tr) typeSwitch(sw *ast.TypeSwitchStmt) string {
	// switch val := i.(type)  or  switch i.(type)
	var bound string
	var subject ast.Expr
	switch a := sw.Assign.(type) {
	case *ast.AssignStmt:
		bound = a.Lhs[0].(*ast.Ident).Name
		subject = a.Rhs[0].(*ast.TypeAssertExpr).X
	case *ast.ExprStmt:
		subject = a.X.(*ast.TypeAssertExpr).X
	}
	subj := t.expr(subject)
	var b strings.Builder
	fmt.Fprintf(&b, "match %s with", subj)
	def := ""
	for _, cl := range sw.Body.List {
		cc := cl.(*ast.CaseClause)
		if cc.List == nil {
			// default clause; the reflect block of ToBinary is replaced by its Layer-0 model
			if len(cc.Body) > 0 {
				if as, ok := cc.Body[0].(*ast.AssignStmt); ok && len(as.Rhs) == 1 {
					if c, ok := as.Rhs[0].(*ast.CallExpr); ok {
						if name, _ := t.callee(c); name == "reflect.ValueOf" {
							d := nodeDigest(t.p.fset, cc.Body)
							if d != reflectDigestWant {
								t.fail(cc, "the reflect fallback block changed (digest %s, expected %s): its hand model no longer applies", d, reflectDigestWant)
							}
							def = fmt.Sprintf("reflect_bytearray %s", subj)
							continue
						}
					}
				}
			}
			pre := ""
			if bound != "" {
				pre = fmt.Sprintf("let %s := %s in ", lname(bound), subj)
			}
			def = pre + t.stmts(cc.Body)
			continue
		}
		for _, te := range cc.List {
			ty := t.typeOf(te)
			if id, ok := te.(*ast.Ident); ok && id.Name == "nil" {
				ty = types.Typ[types.UntypedNil]
			}
			var pat, pre string
			if len(cc.List) == 1 && bound != "" {
				pat = t.patternFor(ty, lname(bound), te)
				if pat == "VNil" {
					pre = fmt.Sprintf("let %s := VNil in ", lname(bound))
				}
			} else {
				pat = t.patternFor(ty, "_", te)
				if bound != "" {
					pre = fmt.Sprintf("let %s := %s in ", lname(bound), subj)
				}
			}
			// in a single-type clause the bound variable has that type; the body is translated
			// once per listed type (go/types gives the clause-local object its type)
			fmt.Fprintf(&b, "\n  | %s => %s%s", pat, pre, t.stmts(cc.Body))
		}
	}
	if def == "" {
		t.fail(sw, "type switch without default clause")
	}
	fmt.Fprintf(&b, "\n  | _ => %s\n  end", def)
	return b.String()
}

const reflectDigestWant = "9bdb216178b8bc4d"

type fnOut struct {
	name  string
	text  string
	calls map[string]bool
}

func (t *tr) function(fd *ast.FuncDecl) fnOut {
	t.errNil = map[types.Object]bool{}
	t.wraps = nil
	t.tmp = 0
	t.self = fd.Name.Name
	t.selfUsed = false
	t.calls = map[string]bool{}
	sig := t.p.info.Defs[fd.Name].Type().(*types.Signature)
	switch {
	case sig.Results().Len() == 2:
		t.ret = "gval"
	case sig.Results().Len() == 1:
		// a helper with one (non-error) result of a modelled sort: []byte, integers and floats (Z), bool, string, time.Time
		s, _ := t.sortOf(sig.Results().At(0).Type())
		t.ret = map[vsort]string{sBytes: "gbytes", sInt: "Z", sF64: "Z", sF32: "Z", sBool: "bool", sStr: "str", sNum: "str", sTime: "gtime"}[s]
		if t.ret == "" {
			t.fail(fd, "result type %v is outside the supported subset", sig.Results().At(0).Type())
		}
	default:
		t.fail(fd, "result arity is outside the supported subset")
	}
	var params []string
	for i := 0; i < sig.Params().Len(); i++ {
		p := sig.Params().At(i)
		s, _ := t.sortOf(p.Type())
		ct := map[vsort]string{sInt: "Z", sF64: "Z", sF32: "Z", sBool: "bool", sStr: "str", sNum: "str", sBytes: "gbytes", sTime: "gtime", sIface: "gval"}[s]
		if ct == "" {
			t.fail(fd, "parameter type %v is outside the supported subset", p.Type())
		}
		params = append(params, fmt.Sprintf("(%s : %s)", lname(p.Name()), ct))
	}
	body := t.stmts(fd.Body.List)
	var b strings.Builder
	pos := t.p.fset.Position(fd.Pos())
	fmt.Fprintf(&b, "(* %s:%d *)\n", filepath.Base(pos.Filename), pos.Line)
	// every func(interface{}) (interface{}, error) gets the unrolled form, whether or not it
	// calls itself today, so that proofs do not depend on which functions happen to recurse
	unroll := t.selfUsed
	if t.ret == "gval" && len(params) == 1 {
		if s0, _ := t.sortOf(sig.Params().At(0).Type()); s0 == sIface {
			unroll = true
		}
	}
	if unroll {
		fmt.Fprintf(&b, "Definition %s_body (rec_%s : %s -> res %s) %s : res %s :=\n  let _ := O in\n  %s.\n",
			fd.Name.Name, fd.Name.Name, "gval", t.ret, strings.Join(params, " "), t.ret, body)
		n := fd.Name.Name
		fmt.Fprintf(&b, "Definition %s_0 : gval -> res %s := fun _ => Fuel.\n", n, t.ret)
		for lvl := 1; lvl <= 5; lvl++ {
			fmt.Fprintf(&b, "Definition %s_%d : gval -> res %s := %s_body %s_%d.\n", n, lvl, t.ret, n, n, lvl-1)
		}
		fmt.Fprintf(&b, "Definition %s : gval -> res %s := %s_5.\n", n, t.ret, n)
		if len(params) != 1 {
			t.fail(fd, "self-recursive function with %d parameters", len(params))
		}
	} else {
		fmt.Fprintf(&b, "Definition %s %s : res %s :=\n  let _ := O in\n  %s.\n", fd.Name.Name, strings.Join(params, " "), t.ret, body)
	}
	return fnOut{fd.Name.Name, b.String(), t.calls}
}

func topo(fns []fnOut) []fnOut {
	byName := map[string]fnOut{}
	for _, f := range fns {
		byName[f.name] = f
	}
	var order []fnOut
	state := map[string]int{}
	var visit func(n string)
	visit = func(n string) {
		if state[n] == 2 {
			return
		}
		if state[n] == 1 {
			panic(fatal{"mutual recursion through " + n + " is outside the supported subset"})
		}
		state[n] = 1
		f := byName[n]
		var cs []string
		for c := range f.calls {
			cs = append(cs, c)
		}
		sort.Strings(cs)
		for _, c := range cs {
			if _, ok := byName[c]; ok && c != n {
				visit(c)
			}
		}
		state[n] = 2
		order = append(order, f)
	}
	var names []string
	for _, f := range fns {
		names = append(names, f.name)
	}
	// keep source order as far as dependencies allow
	for _, n := range names {
		visit(n)
	}
	return order
}

func writeIfChanged(path string, content []byte) {
	old, err := os.ReadFile(path)
	if err == nil && bytes.Equal(old, content) {
		return
	}
	if err := os.WriteFile(path, content, 0o644); err != nil {
		panic(fatal{err.Error()})
	}
}

func main() {
	repo := flag.String("repo", "/repo", "repository root")
	outDir := flag.String("out", "/verif/coq/gen", "output directory")
	printDigest := flag.Bool("print-reflect-digest", false, "print the digest of the reflect block and exit")
	flag.Parse()
	defer func() {
		if r := recover(); r != nil {
			if f, ok := r.(fatal); ok {
				fmt.Fprintln(os.Stderr, "translator: "+f.msg)
				os.Exit(2)
			}
			panic(r)
		}
	}()
	absOut, err := filepath.Abs(*outDir)
	if err != nil {
		panic(fatal{err.Error()})
	}
	run(*repo, absOut, *printDigest)
}
